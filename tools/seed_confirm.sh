#!/bin/sh
# seed_confirm.sh <id> <k>: confirm the seeded change /verif/seeded/<id>-m<k> in a scratch worktree of /repo HEAD:
# demo passes without the change, the change applies, the test suite passes with it, the demo fails with it.
id=$1; k=$2; src=/verif/seeded/$id-m$k; wt=/tmp/seedwt-$id-$k
rm -rf $wt; git -C /repo worktree add -q --detach $wt HEAD || exit 2
cd $wt
PYTHONPATH=$wt PYTHONHASHSEED=0 timeout 300 /venv/bin/python $src/demo.py > $wt.before 2>&1; d0=$?
if git apply $src/patch.diff 2>$wt.apply; then ap=ok; else ap=FAILED; fi
tests=$(PYTHONPATH=$wt timeout 600 /venv/bin/python -m pytest -q -p no:cacheprovider tests 2>&1 | tail -1)
PYTHONPATH=$wt PYTHONHASHSEED=0 timeout 300 /venv/bin/python $src/demo.py > $wt.after 2>&1; d1=$?
echo "$id m$k apply=$ap demo_before=$d0 demo_after=$d1 tests=$tests"
printf '{"apply": "%s", "demo_exit_without_change": %s, "demo_exit_with_change": %s, "test_suite_with_change": "%s", "confirmed_on": "%s"}\n' "$ap" "$d0" "$d1" "$tests" "$(git -C /repo rev-parse --short HEAD)" > $src/confirm.json
cd /; git -C /repo worktree remove --force $wt; rm -f $wt.before $wt.after $wt.apply
