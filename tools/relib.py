# relib.py — a parser for the regular expressions used by odf/attrconverters.py (Python syntax) and by the ODF schema
# (XML Schema syntax) into one small AST, a printer of that AST as a Coq term, and a reference matcher (derivatives).
#   AST: ('emp',) | ('eps',) | ('cls', neg, [(lo, hi)...]) | ('cat', a, b) | ('alt', a, b) | ('star', a)
MAXCP = 0x10FFFF

def cat(a, b): return ('cat', a, b)
def alt(a, b): return ('alt', a, b)
def seq(l):
    if not l: return ('eps',)
    r = l[-1]
    for x in reversed(l[:-1]): r = cat(x, r)
    return r
def opt(a): return alt(a, ('eps',))
def plus(a): return cat(a, ('star', a))
def repeat(a, lo, hi):
    out = [a] * lo
    if hi is None: out.append(('star', a))
    else: out += [opt(a)] * (hi - lo)          # a{lo,hi} = a^lo (a?)^(hi-lo)
    return seq(out)
def lit(ch): return ('cls', False, [(ord(ch), ord(ch))])

_RANGE_CACHE = {}
def _ranges_where(pred, key=None):
    """code point ranges on which pred(chr(c)) holds (computed once per predicate source)"""
    key = key or (pred.__code__.co_code, pred.__code__.co_names, pred.__code__.co_consts)
    if key not in _RANGE_CACHE:
        out = []; start = None
        for c in range(MAXCP + 2):
            ok = c <= MAXCP and not (0xD800 <= c <= 0xDFFF) and pred(chr(c))
            if ok and start is None: start = c
            if not ok and start is not None: out.append((start, c - 1)); start = None
        _RANGE_CACHE[key] = out
    return list(_RANGE_CACHE[key])

class Parser:
    def __init__(self, s, flavour):
        self.s = s; self.i = 0; self.flavour = flavour; self.anchored_end = False
    def peek(self): return self.s[self.i] if self.i < len(self.s) else None
    def take(self):
        c = self.s[self.i]; self.i += 1; return c
    def parse(self):
        r = self.alternation()
        if self.i != len(self.s): raise ValueError('relib: cannot parse %r at %d' % (self.s, self.i))
        return r
    def alternation(self):
        branches = [self.sequence()]
        while self.peek() == '|':
            self.take(); branches.append(self.sequence())
        r = branches[-1]
        for b in reversed(branches[:-1]): r = alt(b, r)
        return r
    def sequence(self):
        items = []
        while self.peek() is not None and self.peek() not in '|)':
            if self.flavour == 'python' and self.s.startswith('\\Z', self.i):
                self.i += 2
                if self.i != len(self.s): raise ValueError('relib: \\Z only at the end: %r' % self.s)
                self.anchored_end = True; break
            if self.flavour == 'python' and self.peek() == '$': raise ValueError('relib: $ is not modelled (it also matches before a final newline): %r' % self.s)
            a = self.atom()
            c = self.peek()
            if c == '*': self.take(); a = ('star', a)
            elif c == '+': self.take(); a = plus(a)
            elif c == '?': self.take(); a = opt(a)
            elif c == '{':
                j = self.s.index('}', self.i); body = self.s[self.i + 1:j]; self.i = j + 1
                if ',' in body:
                    lo, hi = body.split(','); a = repeat(a, int(lo), int(hi) if hi else None)
                else: a = repeat(a, int(body), int(body))
            items.append(a)
        return seq(items)
    def atom(self):
        c = self.take()
        if c == '(':
            if self.s.startswith('?:', self.i): self.i += 2
            r = self.alternation()
            if self.take() != ')': raise ValueError('relib: unbalanced parenthesis in %r' % self.s)
            return r
        if c == '[': return self.charclass()
        if c == '.': return ('cls', True, [(10, 10)]) if self.flavour == 'python' else ('cls', True, [(10, 10), (13, 13)])
        if c == '\\': return self.escape(False)
        if c in '*+?{': raise ValueError('relib: stray quantifier in %r' % self.s)
        return lit(c)
    def escape(self, in_class):
        c = self.take()
        # Python's re on str patterns: \d = Unicode decimal digits (Nd), \s = Unicode white space, \w = Unicode alphanumerics and '_'
        # XML Schema: \d = \p{Nd}, \s = [#x20\t\n\r]
        if c == 'd': return ('cls', False, _ranges_where(lambda ch: ch.isdecimal()))
        if c == 's': return ('cls', False, _ranges_where(lambda ch: ch.isspace()) if self.flavour == 'python' else [(9, 10), (13, 13), (32, 32)])
        if c == 'w' and self.flavour == 'python': return ('cls', False, _ranges_where(lambda ch: ch.isalnum() or ch == '_'))
        if c in 'DSW' and self.flavour == 'python':
            pos = self.escape_lower(c.lower()); return ('cls', True, pos[2])
        if c == 't': return lit('\t')
        if c == 'n': return lit('\n')
        if c == 'r': return lit('\r')
        if c.isalnum(): raise ValueError('relib: escape \\%s is not modelled (%r)' % (c, self.s))
        return lit(c)
    def escape_lower(self, c):
        if c == 'd': return ('cls', False, _ranges_where(lambda ch: ch.isdecimal()))
        if c == 's': return ('cls', False, _ranges_where(lambda ch: ch.isspace()))
        return ('cls', False, _ranges_where(lambda ch: ch.isalnum() or ch == '_'))
    def charclass(self):
        neg = False
        if self.peek() == '^': self.take(); neg = True
        ranges = []
        first = True
        while True:
            c = self.take()
            if c == ']' and not first: break
            first = False
            if c == '\\':
                e = self.escape(True); lo = e[2]
                if len(lo) != 1 or e[1]: ranges += lo; continue
                lo = lo[0][0]
            else: lo = ord(c)
            if self.peek() == '-' and self.s[self.i + 1] != ']':
                self.take(); d = self.take()
                if d == '\\': d = chr(self.escape(True)[2][0][0])
                ranges.append((lo, ord(d)))
            else: ranges.append((lo, lo))
        return ('cls', neg, ranges)

def parse(s, flavour):
    """-> (ast, anchored_at_end)"""
    p = Parser(s, flavour); r = p.parse()
    return r, p.anchored_end

def coq(r):
    t = r[0]
    if t == 'emp': return 'Emp'
    if t == 'eps': return 'Eps'
    if t == 'cls': return '(Cls %s [%s])' % ('true' if r[1] else 'false', '; '.join('(%d, %d)' % x for x in r[2]))
    if t == 'cat': return '(Cat %s %s)' % (coq(r[1]), coq(r[2]))
    if t == 'alt': return '(Alt %s %s)' % (coq(r[1]), coq(r[2]))
    if t == 'star': return '(Star %s)' % coq(r[1])
    raise ValueError(t)

# ---- reference matcher -------------------------------------------------------------------------------------------------
def nullable(r):
    t = r[0]
    if t in ('eps', 'star'): return True
    if t in ('emp', 'cls'): return False
    if t == 'cat': return nullable(r[1]) and nullable(r[2])
    return nullable(r[1]) or nullable(r[2])
def incls(r, c): return r[1] != any(lo <= c <= hi for lo, hi in r[2])
def mk_cat(a, b):
    if a[0] == 'emp' or b[0] == 'emp': return ('emp',)
    if a[0] == 'eps': return b
    if b[0] == 'eps': return a
    return ('cat', a, b)
def mk_alt(a, b):
    if a[0] == 'emp': return b
    if b[0] == 'emp': return a
    if a == b: return a
    return ('alt', a, b)
def deriv(c, r):
    t = r[0]
    if t in ('emp', 'eps'): return ('emp',)
    if t == 'cls': return ('eps',) if incls(r, c) else ('emp',)
    if t == 'cat':
        d = mk_cat(deriv(c, r[1]), r[2])
        return mk_alt(d, deriv(c, r[2])) if nullable(r[1]) else d
    if t == 'alt': return mk_alt(deriv(c, r[1]), deriv(c, r[2]))
    return mk_cat(deriv(c, r[1]), r)
def matches(r, s):
    for ch in s: r = deriv(ord(ch), r)
    return nullable(r)
