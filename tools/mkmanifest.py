#!/usr/bin/env python3
# mkmanifest.py — writes /verif/MANIFEST.json from the per-property table below.
import json, os
VERIF = os.path.dirname(os.path.dirname(os.path.abspath(__file__)))
ids = [json.loads(l)['id'] for l in open(os.path.join(VERIF, 'properties.jsonl'))]

COMMON_NOTE = ('Trusted: Coq 8.16.1 kernel and vm_compute (no native_compute); the theorems are about the Gallina model in '
               '/verif/coq; the model is tied to /repo on every run by (a) tables regenerated from the working tree '
               '(tools/gen_tables.py -> coq/gen/*.v, re-proved) and (b) a correspondence run of the extracted model '
               '(ExtrOcamlBasic, Separate Extraction, no Extract Constant; ocaml/driver.ml) against the implementation; an '
               'implementation-level oracle searches for the concrete replay. CPython str/dict/re semantics are modelled, '
               'not verified. ')

CHECKS = {
 'C18': dict(
   text='PARTIAL. Proved (Coq): the writer layer every XHTML handler goes through - writedata() (saxutils.escape) and the attribute '
        'dictionaries of opentag()/emptytag() (saxutils.quoteattr), modelled as the C01 printer without filter: for EVERY string of XML '
        'characters, what is written for character data is lexed back by a conforming parser as exactly that character data without '
        'leaving text mode, and what is written for an attribute value is lexed back as one attribute with exactly that value; escaped '
        'text contains no "<". Not proved: totality and completeness of the roughly 200 SAX handlers of odf2xhtml.py and of the minidom '
        'walk of odf2moinmoin.py - no model of them is written; they are decided by the oracle: documents from the converters\' '
        'vocabulary with markup characters in every string, output parsed by expat, text tokens compared in document order, CSS on and off.',
   note='Axioms: none. The handlers are exercised, not modelled. One recorded finding (a note inside a note).',
   tech='Coq proof of the writer layer (lexer round trip) + correspondence of the writer primitives + oracle over generated documents',
   ref='5/C18'),
 'C19': dict(
   text='Proof (Coq): update, declaration by declaration (Forall2): name, type and all other attributes unchanged; a named field gets '
        'the converted new value in the attribute of its value type and no other value attribute changes; unnamed fields untouched; order '
        'and number preserved; listing the output returns new values for named fields and old ones for the rest; a refused (boolean) value '
        'aborts before anything is produced. The attribute-per-type function is proved equal to the regenerated VALUE_TYPES table. The '
        '"everything else as load+save" clause is tied to C04/C05 and checked by an oracle against a plain load+save of the same source.',
   note='Axioms: none. load()/save() are not part of this model (C04/C05).',
   tech='Coq proof by list induction + regenerated VALUE_TYPES table + correspondence',
   ref='5/C19'),
 'C20': dict(
   text='Proof (Coq): for every list of non-empty specifications styleFromList yields exactly one level per specification, levels '
        '1..n in order, indentation factor equal to the level; a specification with a format character gives a numbering level with '
        'that format, prefix ++ format ++ suffix = specification and no format character in the prefix, display-levels as requested; any '
        'other gives a bullet level with its first character; the string form equals the list form for every delimiter not occurring in '
        'the specifications; the spacing is split into adjacent number and unit pieces. Numbers are abstract (shape only). Tied by '
        'correspondence of every attribute of every level on generated lists, judged by an oracle on the returned element, grammar '
        'acceptance and serialisation.',
   note='Axioms: none. float()/str(float) are not modelled (parametric); the CSS regex is modelled by span functions. "The grammar accepts" is read as the library\'s grammar tables; the datatype of the emitted lengths is not claimed (DESIGN section 6).',
   tech='Coq proof by list induction + extracted-model correspondence',
   ref='5/C20'),
 'C01': dict(
   text='Proof (Coq): for every tree, every string of code points, every namespace table satisfying doc_ok, a conforming XML 1.0 + '
        'Namespaces parser (Gallina state-machine specification, validated against expat on every run) accepts Element.toXml output and '
        'prologue+root documents (corollary of the C02 round trip); the filter leaves only XML Char code points. The regenerated filter '
        'table is re-proved to cover the complement of Char. History quantifier through the C14 namespace-table invariant. Part '
        'renderers (contentxml...) are tied by correspondence and the expat oracle over fresh, loaded and post-history documents.',
   note='Axioms: none. Modelled by hand: _escape/_sanitize/_quoteattr/Text.toXml/CDATASection.toXml/Element.toXml; regenerated: the '
        'filter set and per-code-point escape tables (GenChars.v).',
   tech='Coq proof (XML printer/parser round trip) + regenerated tables + extracted-model correspondence',
   ref='5/C01'),
 'C02': dict(
   text='Proof (Coq): xml_parse (prologue ++ node_toXml F env true t) = Some (canon F t) for every tree t and namespace table with '
        'doc_ok, by induction through lexer state machine, tree builder and namespace resolution; character-level lemmas for text, the '
        'three attribute quoting branches, and CDATA incl. "]]>" and CR. canon F equals the strict canonical form except on the recorded '
        'known finding (discouraged code points), proved as C02_canon_strict / C02_strict_refuted.',
   note='Axioms: none. Names are ASCII NCNames; namespace names contain no quote/TAB/LF/CR (doc_ok). The specification parser covers '
        'the XML sub-language without DTD, PI, comments.',
   tech='Coq proof by induction over strings and rose trees (closed under the global context) + correspondence',
   ref='5/C02'),
 'C03': dict(
   text='Proof (Coq): for every document tree (embedded objects at any depth, any pictures, thumbnail, extras, settings present or '
        'not) the model of __zipwrite yields: mimetype as first entry, stored, no extra field, exactly the media type; the four required '
        'members; manifest file rows = the members other than mimetype and the manifest, in order; the root row and every object-folder '
        'row carry the right media type; every picture is present byte-identical under owner-folder + returned name with its media type. '
        'No member name twice (C03_no_member_twice): a member name is folder ++ local name; when the (folder, local name) pairs of what the '
        'library names itself are distinct, folders have the shape addObject gives them and no local name starts like a folder '
        '(C03_names_injective: then distinct pairs are distinct names), and the opaque extra files are called like nothing else, no two '
        'members have one name; the three premises are decided by extracted checkers (coq/model/PackageCheck.v) on the model image of every '
        'real document the check saves, and both recorded findings of this clause are inputs on which the first premise is false. Tied by correspondence of member order, STORED flags, bytes and manifest rows, and by an oracle reading the '
        'raw first local header, the central directory and the manifest independently.',
   note='Axioms: none. XML part payloads are symbolic here (their content is C01/C02/C10); zipfile\'s byte layout is trusted. Recorded findings: a picture named like a reserved member; an object attached before its parent (the C16 finding seen from here); a loaded object\'s picture registered again on the object.',
   tech='Coq proof over a model of the package writer (induction on the object tree) + correspondence',
   ref='5/C03'),
 'C04': dict(
   text='Proof (Coq): tree-level model of odf/load.py and of the XML part of opendocument.load (parts in order settings, meta, content, '
        'styles; section routing; font-face-decls of content.xml skipped; every element through build_caches with style registration, '
        'renaming and redirection); composed with the renderers (C12) and the XML round trip (C01/C02): for every document whose '
        'registered style names do not clash - its eight sections holding anything: elements, text between them, CDATA, white space '
        'only (C04_roundtrip_any_sections; element-only sections are the special case C04_roundtrip) - loading the four rendered parts '
        'gives the document with every tree normalised as a parser normalises it and each section\'s children kept by the loader\'s '
        'rule (all when an element is among them, none otherwise), the generator replaced by exactly one naming the library, and the '
        'automatic styles that content.xml and styles.xml carry (the referenced ones: C10); attaching a clash-free subtree is the '
        'identity at any depth (induction over trees). Second generation: for a document that is already canonical and whose two parts '
        'use automatic styles of different names, the loaded document is the original with normalised metadata and the used automatic '
        'styles, and saving it yields the four parts of the first package byte for byte (the style selection is proved to compute exactly '
        'the closure of the references, so selecting again selects the same). Pictures and sub-documents: C03/C16 theorems plus the oracle. Tied by correspondence of the extracted '
        'xml_parse + load_doc on the parts of really saved packages with the really loaded document, section by section.',
   note='Axioms: none. Attribute values are taken as fixed points of the converters (C15).',
   tech='Coq proof (composition of renderer, parser round trip and loader models; induction over trees) + correspondence',
   ref='5/C04'),
 'C05': dict(
   text='PARTIAL. Proved (Coq): for ANY parsed parts of a package (any root element and attributes, sections in any number and order, '
        'character data between and inside them, unknown elements) without a style-name clash, the loader yields an explicit document: '
        'each section holds, in load order, the kept children of the source sections routed to it (all children when the section has an '
        'element child, none otherwise); subtrees are attached unchanged at any depth; the font declarations of content.xml are never '
        'read, those of styles.xml are; what load() returns always has its eight sections in the general form (C05_loaded_shape), and '
        'saving it gives parts that parse back to it normalised - C05_resave_any, with no condition on the source: a pretty-printed '
        'source, whose white space between the children of a section is kept by load(), is covered (general round trip of C04). '
        'Between the package and the parser load() patches every XML member textually (missing prefix declarations): for every string the '
        'patch changes the start tag of the root element only (C05_only_root_tag_patched; model FixPart tied to __fixXmlPart, '
        '__endOfDoctype, __rootStartTag by correspondence, the extent of the tag compared with what expat reports). '
        'Not proved: the package level (other members, media types: C03/C16 theorems and the oracle). Tied by correspondence of xml_parse + load_doc '
        'with load() on every sample document of the repository, ten structure-preserving mutations of each and synthetic packages, '
        'and judged by an independent source-vs-saved comparison (zipfile + expat).',
   note='Axioms: none. White space is ignored by the oracle only where the schema gives element-only content. Recorded findings: fonts declared only in content.xml; meta.xml of an object; a name used by two list/data styles of the two parts; a common style renamed on a clash across families; two styles of one name and different families inside one part.',
   tech='Coq proof (loader model over arbitrary part trees, composition with C04) + correspondence on real and mutated packages',
   ref='5/C05'),
 'C06': dict(
   text='Proof (Coq, finite domain decided by computation and lifted): over the four tables of odf/grammar.py and the relations read '
        'from the ODF 1.2 RELAX NG schema (both regenerated on every run, one numbering of names), the model of addElement / addText / '
        'addCDATA / setAttribute-by-keyword / the constructor accepts exactly what the schema permits - for all ordered pairs of the 598 '
        'schema elements, all elements x {text}, all elements x EVERY keyword string, all elements x EVERY set of given attributes - '
        'except on the recorded deviations (known findings, listed item by item); refusals are IllegalChild / IllegalText / '
        'AttributeError; check_grammar=False lets everything through; every schema element has a factory. Tied by an exhaustive sweep '
        'of the real API (1.06 million calls, both tiers) compared row by row with the extracted model and with the schema relations.',
   note='Axioms: none. The RELAX NG interpreter (tools/rnglib.py) is shared by translator and oracle. Value conversion is C15.',
   tech='Coq proof by computation over regenerated tables (schema and code), lifted with forallb_forall + exhaustive API sweep',
   ref='5/C06'),
 'C07': dict(
   text='Proof (Coq): every raising DOM/Element operation of the heap model returns the heap it was given (tree, link fields, owner '
        'marks, element index, style dictionary) - for any consistent heap and any operation; a raising constructor call (any failing '
        'text/attribute step, missing required attribute, parent refusing the child) leaves every existing node and both lookups unchanged '
        'and the refused element is nobody\'s child; a raising setAttribute/setAttrNS yields no new attribute store. The pre-repair order '
        '(parent= attached mid-way) is refuted by a computed example. Tied by lock-step correspondence (outcome kind + whole heap) and a '
        'full-snapshot oracle over every refusal kind x entry point after random histories.',
   note='Axioms: none. Attribute processing inside __init__ enters the model as a list of per-step outcomes (decided by the grammar '
        'tables; the harness derives them independently and the correspondence compares outcome and heap).',
   tech='Coq proof (heap model, atomicity of every raising operation) + lock-step correspondence',
   ref='5/C07'),
 'C08': dict(
   text='Proof (Coq): the consistency invariant (each listed child has that parent and conversely, no duplicates, previous/next links '
        'follow child order, detached nodes have no siblings, childless kinds have no children) is preserved by appendChild, insertBefore '
        '(every reference), removeChild, addElement, addText, addCDATA, succeeding or raising, on attached and free-standing trees; hence '
        'it holds after operation histories of ANY length (induction), starting e.g. from any number of unlinked nodes. Not-a-child '
        'removal/insertion yields NotFoundErr and changes nothing; a node has at most one parent; a moved node ends at the new place. '
        'Tied by lock-step correspondence of every stored link field after every step over bounded-exhaustive and random histories, and '
        'judged by an independent list-only reference model.',
   note='Axioms: none. The heap model performs the reads/writes of element.py in order; subtree walks and index order are abstracted '
        '(stated in Dom.v, validated by correspondence).',
   tech='Coq invariant proof over a pointer-heap model, induction over operation lists + lock-step correspondence',
   ref='5/C08'),
 'C09': dict(
   text='Proof (Coq): invariant Idx over the pointer-heap model of element.py/opendocument.py, preserved by removeChild, appendChild, '
        'insertBefore, addElement, addText/addCDATA on any nodes (text nodes included) and hence by every history (induction): the '
        'element index holds exactly the owned elements, each once; ownership is constant along parent links and means that the parent '
        'chain ends at the document root; so getElementsByType = exactly the attached elements of the type, and elements of detached '
        'subtrees never appear. getStyleByName only returns an attached, registered style of that name (always), and returns it whenever '
        'there is one (along histories with unique registered names). The fuel-bounded subtree walk is proved complete by a pigeonhole '
        'argument. Tied by lock-step correspondence of both dictionaries after every step and by a traversal oracle from doc.topnode, '
        'renderers interleaved.',
   note='Axioms: none. Element.getElementsByType (a plain recursive walk) is checked by the oracle only. Histories that make the document '
        'root a child are excluded (op_keeps_top).',
   tech='Coq invariant proof over a pointer-heap model, induction over operation lists + lock-step correspondence',
   ref='5/C09'),
 'C10': dict(
   text='Proof (Coq): model of _scanoneelement/_parseoneelement/_used_auto_styles (the while loop with its measure: unselected styles). '
        'Every automatic style (any element of office:automatic-styles with a style:name) referenced from below a scanned segment through '
        'a scanned attribute (lists split) is selected; every one referenced from a selected style is selected too (closure, any chain '
        'length); the selection is a sub-list of the document\'s own style nodes (unchanged, at most once). Table obligation re-proved on '
        'every run: the scanned attribute set (regenerated from the code) covers every attribute the ODF 1.2 schema types '
        'styleNameRef(s) (regenerated from the RNG). contentxml/stylesxml call sites tied byte-exactly.',
   note='Axioms: none. Style kinds share the style:name key as in the code.',
   tech='Coq proof (loop invariant + termination measure) + regenerated tables (code and RNG) + correspondence',
   ref='5/C10'),
 'C11': dict(
   text='Proof (Coq): loading as a fold of build_caches over the elements of content.xml then styles.xml (definition name; names held '
        'by the reference attributes that can name a style:style). For ANY element sequence: the names of the loaded definitions are '
        'pairwise distinct (the renaming loop provably ends on a free name: pigeonhole over length+1 candidates), and a reference to a name '
        'defined at or before the referring element holds afterwards a name that finds the last such definition (invariant by induction). '
        'Corollaries for the two parts: a reference made in styles.xml (master pages, styles) finds the styles.xml definition, one made in '
        'content.xml finds the content.xml definition, common styles and everything of content.xml are loaded unchanged - whatever names '
        'the parts share, M-prefixed ones included. Table obligations re-proved every run: (element, attribute) is redirected iff by the '
        'specification it can name a style:style. Tied by per-element correspondence of the extracted load_all with load(), and judged by '
        'an independent marker-resolution oracle over source, loaded document, saved package and a second generation.',
   note='Axioms: none. The abstraction of a package to the element list is done by the harness; style:style names are assumed unique '
        'within one part across families; other kinds of styles (list styles, page layouts) are not renamed by the code and not covered. Recorded finding: a reference in the automatic styles of styles.xml that stands in front of the definition it names is not followed when that definition is renamed (the hypothesis of C11_styles_part failing on a real package).',
   tech='Coq invariant proof by induction over the load sequence + regenerated tables + correspondence',
   ref='5/C11'),
 'C12': dict(
   text='Proof (Coq): the renderers are functions of the eight section trees; contentxml/stylesxml/settingsxml leave the document as it '
        'is, metaxml/xml/save leave it with the generator normalised (exactly one generator, the library\'s, other meta children kept in '
        'order; idempotent); after ANY sequence of rendering calls each renderer returns exactly what it returns on the fresh document and '
        'the document equals the original up to generator normalisation. Tied by byte-exact correspondence of every renderer and by a '
        'full-snapshot oracle (sections, topnode, index, queries) around every call of every sequence up to length 2/3.',
   note='Axioms: none. That rendering touches nothing outside the section trees is checked by the oracle, not proved.',
   tech='Coq proof (idempotence, induction over call sequences) + byte-exact correspondence',
   ref='5/C12'),
 'C13': dict(
   text='PARTIAL. Proved (Coq): every XML parser construction / parse-call site of the odf package is a defusedxml one (table '
        'regenerated from the working tree by an ast walk with import resolution, obligation re-checked every run); every entry point has '
        'such sites; load() parses the manifest and every listed part of the main document and of every embedded object folder (model of '
        'the manifest dispatch, tied by correspondence); the textual patch load() applies to every member before parsing it '
        '(__fixXmlPart, modelled as a string function and tied by correspondence) leaves the member unchanged up to the end of its '
        'document type declaration, for every string (C13_dtd_untouched), so what the package declares is what the parser sees; and, UNDER THE HYPOTHESIS that a guarded parser raises on a document declaring '
        'entities, an entry point whose reads all go through guarded sites fails as soon as one member it reads is dangerous. The '
        'hypothesis is run-time behaviour of defusedxml/expat which no Gallina model can exhibit: it is tested, exhaustively in both tiers, '
        'by the injection matrix (9 members x 10 injection kinds x 5 entry points, embedded objects of every document class) with a '
        'canary file and open()/urlopen watchers.',
   note='Axioms: none; one Section hypothesis (guarded_refuses) discharged into an explicit premise of C13_refuses. The ast walk does '
        'not see parsers reached through getattr/eval or C extensions.',
   tech='Coq proof over a regenerated call-site table + Section hypothesis about the parser + exhaustive injection matrix',
   ref='5/C13'),
 'C14': dict(
   text='Proof (Coq): invariant by induction over every history of prefix requests (get_nsprefix for unknown namespaces, unqualified '
        'names, formula/namespaced-token prefixes via __save_prefix) starting from the regenerated nsdict: the table written on root '
        'elements always has NCName prefixes, is a bijection, never binds "xmlns" or the empty namespace name; bindings are only added; '
        'hence (with the C02 round trip) the parse of a serialisation is the same under any two reachable tables. Known prefixes inside '
        'values get declared (proved); unknown ones do not (proved; known finding). Tied by correspondence of the two real dicts after '
        'random op histories and by a fresh-subprocess vs after-history infoset comparison.',
   note='Axioms: none. Decimal printing through Coq\'s DecimalN (N.to_uint), injectivity from its of_to lemma.',
   tech='Coq invariant proof by induction over operation histories + regenerated nsdict + correspondence',
   ref='5/C14'),
 'C15': dict(
   text='Proof (Coq): regular expressions over code points with a derivative matcher proved to decide the language (induction over the '
        'expression and the word); the converters of attrconverters.py by kind (identity, boolean, enumeration, anchored pattern, '
        'length-or-percent, NCName rewriting), each function classified from its source and its constants read from the source; the '
        'lexical space the schema gives each of the 3422 (element, attribute) instances. Proved for every instance and EVERY string: a '
        'value of the lexical space is accepted and stored unchanged; converting a stored value again is a no-op (every converter); a '
        'validating converter raises ValueError on every string outside the type; no pattern is applied to a prefix only. The table '
        'obligations (compatible / strict, decided by computation, with a sound syntactic inclusion test for patterns) are re-proved on '
        'every run; deviations are recorded item by item. Tied by correspondence of outcome and stored value on 34 000 (converter, '
        'value) pairs and an oracle using Python re on the schema\'s own patterns, through the API and through load().',
   note='Axioms: none. XML Schema built-in types are upper-bounded by "any string" (NCName/ID/IDREF: no colon, no blank), which only '
        'widens the acceptance claim.',
   tech='Coq proof (verified regex matcher, per-kind lemmas) + regenerated converter and schema tables + correspondence',
   ref='5/C15'),
 'C16': dict(
   text='Proof (Coq): addObject returns "./x" and the object is stored in folder "x/" (default, explicit, slashed names, nesting); every '
        'embedded object of the tree, at any depth, has content.xml and styles.xml in the folder its reference names, declared with its '
        'media type, its pictures below that folder; load() turns every object folder of a manifest (any number, any order, nested) into '
        'an object with that very folder, so load+save writes it back under the same path and media type, and every other member '
        'below object folders travels byte-identically; an object whose content.xml is not OpenDocument (plain MathML: `foreign`, a '
        'parameter of the model whose value the harness takes from the library\'s own __isOpenDocumentPart) is no sub-document, all its '
        'files are such members (C16_foreign_object_files). Tied by correspondence (addObject results, classification of manifest entries, '
        'archive) and an oracle resolving every returned reference / draw:object href against the archive.',
   note='Axioms: none. Objects attached child-first with default names get colliding folders (recorded finding if it reproduces).',
   tech='Coq proof over the package writer/reader model + correspondence',
   ref='5/C16'),
 'C17': dict(
   text='Proof (Coq): for every string and every pre-existing child list, extractText(addTextToElement(e,s)) = before ++ s; '
        'emitted text nodes hold no TAB/LF/double blank and are never adjacent; elements allowing text,s,tab,line-break accept '
        'every string. Unbounded (induction over the string with the encoder state generalised). Tied to teletype.py by an '
        'exhaustive+random correspondence of the encoder output and of the decoder; the save/load clause: reparse (what a parser '
        'returns for a child list: CDATA as text, neighbouring text as one node, empty text gone) leaves extractText unchanged on every '
        'CDATA-free tree, the nodes of one call are a fixed point of it, hence the string is recovered from the reloaded element after '
        'whatever children it had (C17_reparse_extract, C17_reparse_fixpoint, C17_saved); reparse is tied to real save()+load() on '
        'arbitrary child trees, the characters themselves are the C02 round trip.',
   note='Axioms: none (all seven theorems closed under the global context). Model: coq/model/Teletype.v (hand-written; the '
        'inner blank-counting loop is a state transition). Recorded finding: the save/load clause meets the C02 finding (discouraged code points come back as U+FFFD).',
   tech='Coq proof by induction (closed under the global context) + extracted-model correspondence',
   ref='5/C17'),
}

def main():
    m = {
     "version": 1, "setup_cmd": "./setup.sh",
     "hooks": {"guard": "EEA_ODFPY_VERIF",
               "enable": "no hooks are needed in /repo: checks import /repo's working tree (PYTHONPATH=/repo) and observe through the public API and the bytes produced; the guard variable is exported by ./check for completeness",
               "baseline_off_cmd": "cd /repo && /venv/bin/python -m pytest -ra -q -p no:cacheprovider --timeout=900 --continue-on-collection-errors",
               "source_commits": [], "add_only": True},
     "engines": [
       {"name": "coq-model", "path": "coq/", "serves_properties": sorted(CHECKS), "kind_free_text": "Gallina model, proofs and property theorems (Coq 8.16.1); tables regenerated from /repo in coq/gen"},
       {"name": "correspondence", "path": "ocaml/driver.ml + tools/props/", "serves_properties": sorted(CHECKS), "kind_free_text": "extracted model run against the /repo implementation on generated and corpus cases"},
       {"name": "impl-oracles", "path": "tools/props/", "serves_properties": sorted(CHECKS), "kind_free_text": "the property statement checked on the real code to find the concrete replay"}],
     "checks": [], "not_applicable": [],
     "notes": "DESIGN.md explains the approach; known_findings.json lists recorded defects and fix: commits."}
    for i in ids:
        if i in CHECKS:
            c = CHECKS[i]
            m['checks'].append({
              "property_id": i,
              "quick_cmd": "./check %s --tier quick" % i,
              "thorough_cmd": "./check %s --tier thorough" % i,
              "evidence_file": "/verif/evidence/%s.json" % i,
              "replay_cmd_template": "./check %s --replay {path}" % i,
              "engine": "coq-model",
              "level_claimed": {"category": "proof", "text": c['text'], "design_ref": c['ref']},
              "level_note": COMMON_NOTE + c['note'],
              "technique": c['tech']})
        else:
            m['not_applicable'].append({"property_id": i, "reason": "not yet claimed: model and theorems for this property are still being built in this development (see DESIGN.md section 9 work order); no check is registered until it is sound"})
    json.dump(m, open(os.path.join(VERIF, 'MANIFEST.json'), 'w'), indent=1)

if __name__ == '__main__':
    main()
