#!/bin/sh
# seed_sweep.sh: run every seeded change against the check of its property (quick tier); one line per seed in seeded/SWEEP.txt
out=/verif/seeded/SWEEP.txt; : > $out
for d in /verif/seeded/C??-m?; do
  b=$(basename $d); id=${b%%-*}; k=${b##*-m}
  git -C /repo diff --quiet || { echo "/repo dirty, stopping" >> $out; exit 2; }
  if ! git -C /repo apply --check $d/patch.diff 2>/dev/null; then echo "$b does-not-apply" >> $out; continue; fi
  git -C /repo apply $d/patch.diff
  res=$(cd /verif && ./check $id --tier quick 2>&1); rc=$?
  line=$(echo "$res" | grep "^VIOLATION" | head -1)
  summ=$(echo "$res" | grep "^$id tier=" | head -1)
  git -C /repo checkout -q -- .
  echo "$b exit=$rc ${line:-no-violation-line} | $summ" >> $out
done
echo done >> $out
