#!/venv/bin/python
# check.py — `./check <id> [--tier quick|thorough] [--replay file]`
# Protocol (DESIGN.md 3.3): regenerate tables from /repo -> build the Coq closure of
# props/<id>.v -> correspondence model vs implementation -> implementation-level
# oracle -> verdict + evidence.
import os, sys, json, time, argparse, importlib, traceback
sys.path.insert(0, os.path.dirname(os.path.abspath(__file__)))
import vlib
from vlib import VERIF, COQ, REPO

def main():
    ap = argparse.ArgumentParser()
    ap.add_argument('pid')
    ap.add_argument('--tier', default=os.environ.get('VERIF_TIER') or 'quick')
    ap.add_argument('--replay')
    a = ap.parse_args()
    if os.environ.get('VERIF_TIER') in ('quick', 'thorough'):
        a.tier = os.environ['VERIF_TIER']
    pid = a.pid
    try:
        seed = int(os.environ.get('VERIF_SEED', '20261001'))
    except ValueError:
        seed = 20261001
    # the implementation under test is /repo's working tree
    sys.path.insert(0, REPO)
    os.environ['PYTHONPATH'] = REPO
    os.environ['EEA_ODFPY_VERIF'] = '1'
    mod = importlib.import_module('props.' + pid)
    ctx = vlib.Ctx(pid, a.tier, seed)
    if a.replay:
        case = json.load(open(a.replay))
        with vlib.Lock():
            vlib.gen_tables(); vlib.build_driver()
        rc = mod.replay(ctx, case)
        ctx.cleanup()
        sys.exit(rc)

    t0 = time.time()
    proof_broken = []       # (what, detail)
    # ---- 1. tables + proofs --------------------------------------------------
    with vlib.Lock():
        gok, gchanged, glog = vlib.gen_tables()
        if not gok:
            proof_broken.append(('translator', 'gen_tables.py could not encode the working tree: ' + glog[-1500:]))
        hyg = vlib.hygiene()
        if hyg:
            proof_broken.append(('hygiene', 'forbidden declarations: ' + '; '.join(hyg[:10])))
        closure = vlib.deps_closure('props/%s.v' % pid)
        targets = [f + 'o' for f in closure if f != 'props/%s.v' % pid]
        mok, failed, mlog = vlib.make_targets(targets)
        failed_files = set(f for f, _ in failed)
        for f, msg in failed:
            proof_broken.append(('theorem', '%s: %s' % (f, msg)))
        pok, assumptions, plog = vlib.check_props(pid) if mok else (False, {}, 'dependencies failed')
        if mok and not pok:
            proof_broken.append(('theorem', 'props/%s.v: %s' % (pid, plog[-1200:])))
            failed_files.add('props/%s.v' % pid)
        if not mok:
            failed_files.add('props/%s.v' % pid)
        names, discharged = vlib.count_obligations(closure, failed_files)
        dok, dmsg = vlib.build_driver()
        if not dok:
            proof_broken.append(('extraction', dmsg))
    t_proof = time.time() - t0
    # ---- 2/3. correspondence and oracle ---------------------------------------
    try:
        mod.run(ctx)
    except Exception as e:
        tb = traceback.format_exc()
        ctx.corr_mismatch.append({'what': 'harness-exception', 'case': None, 'model': None, 'impl': tb[-3000:]})
    # ---- 4. verdict -----------------------------------------------------------
    os.makedirs(os.path.join(VERIF, 'replays'), exist_ok=True)
    rc = 0
    lines = []
    replay_cmd = './check %s --replay ' % pid
    if ctx.violations:
        v = ctx.violations[0]
        path = os.path.join(VERIF, 'replays', '%s-violation.json' % pid)
        json.dump({'property': pid, 'kind': 'input', 'what': v['what'], 'case': vlib.jsonable(v['case']),
                   'observed': vlib.jsonable(v['observed']), 'expected': vlib.jsonable(v['expected']),
                   'command': replay_cmd + path, 'no_failing_input_found': False,
                   'all': vlib.jsonable(ctx.violations[:10])}, open(path, 'w'), indent=1)
        lines.append('VIOLATION property=%s replay=%s' % (pid, path))
        rc = 1
    elif proof_broken or ctx.corr_mismatch:
        path = os.path.join(VERIF, 'replays', '%s-unproved.json' % pid)
        json.dump({'property': pid, 'kind': 'theorem' if proof_broken else 'correspondence',
                   'broken': vlib.jsonable(proof_broken), 'correspondence': vlib.jsonable(ctx.corr_mismatch[:5]),
                   'command': replay_cmd + path, 'no_failing_input_found': True}, open(path, 'w'), indent=1)
        lines.append('VIOLATION property=%s replay=%s no-failing-input-found' % (pid, path))
        rc = 1
    for f in ctx.findings:
        if f['id'] in ctx.known_hit:
            print('KNOWN-FINDING: property=%s %s [%s]' % (pid, f['what'], f['id']))
        else:
            ctx.notes.append('listed finding %s did not reproduce in this run' % f['id'])
    # ---- 5. evidence ----------------------------------------------------------
    wall = time.time() - t0
    tb = [
        'Coq 8.16.1 kernel + vm_compute (no native_compute)',
        'Print Assumptions: ' + '; '.join('%s: %s' % kv for kv in sorted(assumptions.items())),
        'translator tools/gen_tables.py (reads effective runtime values of /repo)',
        'extraction: ExtrOcamlBasic only, Separate Extraction, no Extract Constant; OCaml driver ocaml/driver.ml',
        'correspondence harness + implementation-level oracle in tools/props/%s.py' % pid,
    ] + list(getattr(mod, 'TRUSTED', []))
    ev = {
        'property_id': pid, 'tier': a.tier, 'seed': seed, 'level': 'proof',
        'coverage': {
            'obligations': len(names), 'discharged': len(discharged),
            'checker_cmd': 'cd /verif/coq && make -k %s && coqc -R . Odf props/%s.v   (then ./check %s for the tie to /repo)' % (' '.join(targets[-3:]), pid, pid),
            'trusted_base': tb,
            'theorems': getattr(mod, 'THEOREMS', []),
            'assumptions_per_theorem': assumptions,
            'closure_files': closure,
            'gen_changed': gchanged,
            'evaluations': ctx.corr_cases + ctx.oracle_cases,
            'correspondence_cases': ctx.corr_cases,
            'correspondence_mismatches': len(ctx.corr_mismatch),
            'oracle_cases': ctx.oracle_cases,
            'distinct_nontrivial': len(ctx.nontrivial),
            'rule': getattr(mod, 'RULE', ''),
            'distribution': ctx.dist,
            'samples': vlib.jsonable(ctx.samples) or ['(none)'],
            'exhaustive_parts': ctx.exhaustive,
            'known_findings_reproduced': sorted(ctx.known_hit),
            'notes': ctx.notes,
            'proof_broken': vlib.jsonable(proof_broken),
            'model_driver_calls': ctx.driver.calls if ctx.driver else 0,
            'proof_wall_s': round(t_proof, 2),
        },
        'assumptions': list(getattr(mod, 'ASSUMPTIONS', [])),
        'wall_s': round(wall, 2),
        'violations': len(ctx.violations) + (1 if (proof_broken or ctx.corr_mismatch) and not ctx.violations else 0),
    }
    os.makedirs(os.path.join(VERIF, 'evidence'), exist_ok=True)
    json.dump(ev, open(os.path.join(VERIF, 'evidence', '%s.json' % pid), 'w'), indent=1)
    for l in lines:
        print(l)
    print('%s tier=%s obligations=%d/%d corr=%d (mismatch %d) oracle=%d nontrivial=%d known=%d new=%d wall=%.1fs' % (
        pid, a.tier, len(discharged), len(names), ctx.corr_cases, len(ctx.corr_mismatch), ctx.oracle_cases,
        len(ctx.nontrivial), len(ctx.known_hit), len(ctx.violations), wall))
    if proof_broken:
        for w, d in proof_broken[:5]:
            print('  broken %s: %s' % (w, d[:400].replace('\n', ' | ')))
    for m in ctx.corr_mismatch[:3]:
        print('  correspondence differs: %s' % json.dumps(vlib.jsonable(m))[:600])
    for v in ctx.violations[:3]:
        print('  violation: %s' % json.dumps(vlib.jsonable(v))[:600])
    ctx.cleanup()
    sys.exit(rc)

if __name__ == '__main__':
    main()
