# xmllib.py — generators, tree notation, expat reader shared by the XML properties
# (C01, C02, C04, C05, C14).  Tree notation (Python side):
#   ('E', (ns, local), [((ns, local), value), ...], [children])  |  ('T', s)  |  ('C', s)
import io, xml.parsers.expat
from vlib import sx_str, sx_to_pystr

# ---------------------------------------------------------------- sexp ---
def q_sx(q): return '(%s %s)' % (sx_str(q[0] or ''), sx_str(q[1]))
def node_sx(t):
    if t[0] == 'T': return '(T %s)' % sx_str(t[1])
    if t[0] == 'C': return '(C %s)' % sx_str(t[1])
    return '(E %s (%s) (%s))' % (q_sx(t[1]), ' '.join('(%s %s)' % (q_sx(a), sx_str(v)) for a, v in t[2]),
                                  ' '.join(node_sx(k) for k in t[3]))
def env_sx(env): return '(' + ' '.join('(%s %s)' % (sx_str(ns), sx_str(p)) for ns, p in env) + ')'
def node_from_sx(x):
    if x[0] == 'T': return ('T', sx_to_pystr(x[1]))
    if x[0] == 'C': return ('C', sx_to_pystr(x[1]))
    q = (sx_to_pystr(x[1][0]), sx_to_pystr(x[1][1]))
    return ('E', q, [((sx_to_pystr(a[0][0]), sx_to_pystr(a[0][1])), sx_to_pystr(a[1])) for a in x[2]],
            [node_from_sx(k) for k in x[3]])

# ------------------------------------------------------------ generators ---
SIGNIF = '&<>"\']['
WS = ' \t\n\r'
CTRL = '\x00\x01\x08\x0b\x0c\x0e\x1f\x7f\x80\x84\x85\x86\x9f'
ODD = '\ud800\udbff\udfff\ufffe\uffff\ufffd\U0001fffe\U0001ffff\U0010ffff\U0010fffe\ud7ff\ue000'
LETTERS = 'ab zé中\U0001F600=;#x'
FIXED = [']]>', '&amp;', '&#13;', '<![CDATA[', ']]', '&#', '\r\n', '--', '?>', ']]]>', '"\'', '<a>', '&lt;']

def rand_text(rng, maxlen=24):
    n = min(maxlen, int(rng.expovariate(1 / 6.0)))
    out = []
    while len(out) < n:
        r = rng.random()
        if r < 0.30: out.append(rng.choice(SIGNIF))
        elif r < 0.45: out.append(rng.choice(WS))
        elif r < 0.53: out.append(rng.choice(CTRL))
        elif r < 0.60: out.append(rng.choice(ODD))
        elif r < 0.70: out.append(rng.choice(FIXED))
        else: out.append(rng.choice(LETTERS))
    return ''.join(out)

TEXTNS = 'urn:oasis:names:tc:opendocument:xmlns:text:1.0'
OFFICENS = 'urn:oasis:names:tc:opendocument:xmlns:office:1.0'
FOREIGN = ['urn:example:verif:one', 'http://example.org/ns/two&x', 'urn:x-verif:three', 'urn:q"uote\'s\tx']
ELEMS = [('', 'bare'), (FOREIGN[3], 'q'), (TEXTNS, 'p'), (TEXTNS, 'span'), (TEXTNS, 'h'), (OFFICENS, 'annotation'), (FOREIGN[0], 'elem'),
         (FOREIGN[1], 'e2'), (FOREIGN[2], 'x-y.z_1'), (TEXTNS, 'a')]
# attribute names without an attribute converter (so setAttrNS stores str(value) unchanged)
ATTRS = [('', 'plain'), ('', 'other'), (FOREIGN[3], 'qa'), (FOREIGN[0], 'a'), (FOREIGN[0], 'b'), (FOREIGN[1], 'a'), (FOREIGN[2], 'c-d'), (TEXTNS, 'verif-x'), (OFFICENS, 'verif-y')]

def rand_tree(rng, depth=0, maxdepth=4):
    q = rng.choice(ELEMS)
    atts = []
    for a in rng.sample(ATTRS, rng.choice([0, 0, 1, 1, 2, 3])):
        atts.append((a, rand_text(rng, 16)))
    kids = []
    if depth < maxdepth:
        for _ in range(rng.choice([0, 0, 1, 2, 3, 4])):
            r = rng.random()
            if r < 0.40: kids.append(('T', rand_text(rng)))
            elif r < 0.55: kids.append(('C', rand_text(rng)))
            else: kids.append(rand_tree(rng, depth + 1, maxdepth))
    return ('E', q, atts, kids)

# -------------------------------------------------------- real odfpy side ---
def build_real(t, via_api=True):
    """an odfpy node tree for notation t (attributes through setAttrNS; children
    through the DOM methods with checking off)"""
    from odf.element import Element, Text, CDATASection
    if t[0] == 'T': return Text(t[1])
    if t[0] == 'C': return CDATASection(t[1])
    e = Element(qname=t[1], check_grammar=False)
    for a, v in t[2]:
        e.setAttrNS(a[0], a[1], v)
    for k in t[3]:
        e.appendChild(build_real(k))
    return e

def walk_real(n):
    """notation of a real node, read through qname/attributes/childNodes/data"""
    from odf.element import Node
    if n.nodeType == Node.TEXT_NODE: return ('T', n.data)
    if n.nodeType == Node.CDATA_SECTION_NODE: return ('C', n.data)
    return ('E', (n.qname[0] or '', n.qname[1]), [((k[0] or '', k[1]), str(v)) for k, v in n.attributes.items()],
            [walk_real(c) for c in n.childNodes])

def real_toXml(n, level=0):
    f = io.StringIO(); n.toXml(level, f); return f.getvalue()

def current_env():
    from odf.element import Element
    return [(ns, p) for ns, p in Element.namespaces.items()]

# --------------------------------------------------------------- expat ---
def expat_parse(data):
    """independent reader: bytes -> ('ok', tree) | ('err', message). Text merged,
    attribute order kept, names as (ns, local)."""
    if isinstance(data, str):
        try: data = data.encode('utf-8')
        except UnicodeEncodeError as e: return ('err', 'not encodable as UTF-8: %s' % e.reason)
    p = xml.parsers.expat.ParserCreate(namespace_separator='\x01')
    p.ordered_attributes = True
    p.buffer_text = True
    stack = [('ROOT', None, [], [])]
    def name(n):
        return tuple(n.split('\x01', 1)) if '\x01' in n else ('', n)
    def start(n, atts):
        e = ('E', name(n), [(name(atts[i]), atts[i + 1]) for i in range(0, len(atts), 2)], [])
        stack[-1][3].append(e); stack.append(e)
    def end(n): stack.pop()
    def chars(s):
        k = stack[-1][3]
        if len(stack) == 1: return
        if k and k[-1][0] == 'T': k[-1] = ('T', k[-1][1] + s)
        else: k.append(('T', s))
    seen = {'dtd': False}
    def bad(*a): seen['dtd'] = True
    p.StartElementHandler = start; p.EndElementHandler = end; p.CharacterDataHandler = chars
    p.StartDoctypeDeclHandler = bad; p.ProcessingInstructionHandler = bad; p.CommentHandler = bad
    try:
        p.Parse(data, True)
    except xml.parsers.expat.ExpatError as e:
        return ('err', str(e))
    except (LookupError, ValueError) as e:
        return ('err', 'outside the modelled sub-language (encoding declaration): %s' % e)
    if seen['dtd']: return ('err', 'outside the modelled sub-language (DTD/PI/comment)')
    return ('ok', stack[0][3][0])

# ------------------------------------------------------ independent canon ---
def xml10_char(c):
    return c in (9, 10, 13) or 0x20 <= c <= 0xD7FF or 0xE000 <= c <= 0xFFFD or 0x10000 <= c <= 0x10FFFF

def canon_str(s, strict=True, filt=None):
    if strict: return ''.join(ch if xml10_char(ord(ch)) else '�' for ch in s)
    return filt(s)

def canon(t, strict=True, filt=None):
    """the tree a conforming parser must deliver for t (property C02): unrepresentable
    characters become U+FFFD, CDATA = text, neighbours merge, empties vanish"""
    if t[0] in 'TC': return ('T', canon_str(t[1], strict, filt))
    kids = []
    for k in t[3]:
        c = canon(k, strict, filt)
        if c[0] == 'T':
            if not c[1]: continue
            if kids and kids[-1][0] == 'T': kids[-1] = ('T', kids[-1][1] + c[1]); continue
        kids.append(c)
    return ('E', t[1], [(a, canon_str(v, strict, filt)) for a, v in t[2]], kids)

def tree_size(t):
    return 1 if t[0] in 'TC' else 1 + sum(tree_size(k) for k in t[3])

def tree_chars(t):
    if t[0] in 'TC': return set(t[1])
    s = set()
    for a, v in t[2]: s |= set(v)
    for k in t[3]: s |= tree_chars(k)
    return s
