# pkglib.py — an independent writer/reader of ODF packages for the harness
# (zipfile + hand-written XML; nothing of odfpy is used here).
import io, zipfile, struct, xml.parsers.expat

NS = {
 'office': 'urn:oasis:names:tc:opendocument:xmlns:office:1.0', 'text': 'urn:oasis:names:tc:opendocument:xmlns:text:1.0',
 'style': 'urn:oasis:names:tc:opendocument:xmlns:style:1.0', 'table': 'urn:oasis:names:tc:opendocument:xmlns:table:1.0',
 'draw': 'urn:oasis:names:tc:opendocument:xmlns:drawing:1.0', 'fo': 'urn:oasis:names:tc:opendocument:xmlns:xsl-fo-compatible:1.0',
 'xlink': 'http://www.w3.org/1999/xlink', 'dc': 'http://purl.org/dc/elements/1.1/', 'meta': 'urn:oasis:names:tc:opendocument:xmlns:meta:1.0',
 'number': 'urn:oasis:names:tc:opendocument:xmlns:datastyle:1.0', 'svg': 'urn:oasis:names:tc:opendocument:xmlns:svg-compatible:1.0',
 'config': 'urn:oasis:names:tc:opendocument:xmlns:config:1.0', 'manifest': 'urn:oasis:names:tc:opendocument:xmlns:manifest:1.0',
 'presentation': 'urn:oasis:names:tc:opendocument:xmlns:presentation:1.0', 'form': 'urn:oasis:names:tc:opendocument:xmlns:form:1.0',
 'chart': 'urn:oasis:names:tc:opendocument:xmlns:chart:1.0', 'math': 'http://www.w3.org/1998/Math/MathML',
}
MT_TEXT = 'application/vnd.oasis.opendocument.text'

def decls(prefixes, extra=None, sep=' '):
    d = [(p, NS[p]) for p in prefixes] + list((extra or {}).items())
    return ''.join('%sxmlns:%s="%s"' % (sep, p, u) for p, u in d)

STD = ['office', 'text', 'style', 'table', 'draw', 'fo', 'xlink', 'dc', 'meta', 'number', 'svg', 'config', 'form', 'presentation', 'chart']

def content_xml(body, autostyles='', fontdecls='', extra_ns=None, prefixes=STD, kind='text', scripts=''):
    return ('<?xml version="1.0" encoding="UTF-8"?>\n<office:document-content%s office:version="1.2">%s%s'
            '<office:automatic-styles>%s</office:automatic-styles><office:body><office:%s>%s</office:%s></office:body>'
            '</office:document-content>') % (decls(prefixes, extra_ns), scripts, fontdecls, autostyles, kind, body, kind)

def styles_xml(styles='', autostyles='', masterstyles='', fontdecls='', extra_ns=None, prefixes=STD):
    return ('<?xml version="1.0" encoding="UTF-8"?>\n<office:document-styles%s office:version="1.2">%s'
            '<office:styles>%s</office:styles><office:automatic-styles>%s</office:automatic-styles>'
            '<office:master-styles>%s</office:master-styles></office:document-styles>') % (decls(prefixes, extra_ns), fontdecls, styles, autostyles, masterstyles)

def meta_xml(inner='<meta:generator>OtherApp/1.0</meta:generator><dc:title>t</dc:title>', extra_ns=None):
    return ('<?xml version="1.0" encoding="UTF-8"?>\n<office:document-meta%s office:version="1.2"><office:meta>%s</office:meta>'
            '</office:document-meta>') % (decls(['office', 'meta', 'dc', 'xlink'], extra_ns), inner)

def settings_xml(inner='<config:config-item-set config:name="s"><config:config-item config:name="n" config:type="string">v</config:config-item></config:config-item-set>'):
    return ('<?xml version="1.0" encoding="UTF-8"?>\n<office:document-settings%s office:version="1.2"><office:settings>%s</office:settings>'
            '</office:document-settings>') % (decls(['office', 'config', 'xlink']), inner)

def manifest_xml(entries):
    """entries: list of (full_path, media_type)"""
    rows = ''.join('<manifest:file-entry manifest:full-path="%s" manifest:media-type="%s"/>' % (xml_attr(p), xml_attr(m)) for p, m in entries)
    return '<?xml version="1.0" encoding="UTF-8"?>\n<manifest:manifest xmlns:manifest="%s" manifest:version="1.2">%s</manifest:manifest>' % (NS['manifest'], rows)

def xml_attr(s):
    return s.replace('&', '&amp;').replace('<', '&lt;').replace('"', '&quot;')
def xml_text(s):
    return s.replace('&', '&amp;').replace('<', '&lt;').replace('>', '&gt;')

def make_package(members, manifest=None, mimetype=MT_TEXT, manifest_order=None):
    """members: ordered list of (path, bytes|str, media_type or None); returns bytes of a zip.
    manifest: explicit list of (path, mediatype) or None (derived: '/' + every member)."""
    buf = io.BytesIO()
    z = zipfile.ZipFile(buf, 'w')
    if mimetype is not None:
        zi = zipfile.ZipInfo('mimetype'); zi.compress_type = zipfile.ZIP_STORED
        z.writestr(zi, mimetype)
    if manifest is None:
        manifest = [('/', mimetype or MT_TEXT)] + [(p, mt if mt is not None else 'text/xml') for p, d, mt in members]
    if manifest_order is not None:
        manifest = [manifest[i] for i in manifest_order]
    for p, d, mt in members:
        if p.endswith('/'): continue
        z.writestr(zipfile.ZipInfo(p), d.encode('utf-8') if isinstance(d, str) else d, zipfile.ZIP_DEFLATED)
    z.writestr(zipfile.ZipInfo('META-INF/manifest.xml'), manifest_xml(manifest).encode('utf-8'), zipfile.ZIP_DEFLATED)
    z.close()
    return buf.getvalue()

def simple_package(body='<text:p>x</text:p>', **kw):
    c = content_xml(body, kw.get('autostyles', ''), kw.get('fontdecls', ''), kw.get('extra_ns'))
    s = styles_xml(kw.get('styles', ''), kw.get('styles_auto', ''), kw.get('masterstyles', ''), kw.get('styles_fonts', ''), kw.get('extra_ns'))
    members = [('content.xml', c, 'text/xml'), ('styles.xml', s, 'text/xml'), ('meta.xml', meta_xml(kw.get('meta', '<meta:generator>OtherApp/1.0</meta:generator><dc:title>t</dc:title>')), 'text/xml'),
               ('settings.xml', settings_xml(), 'text/xml')] + list(kw.get('extra_members', []))
    return make_package(members, mimetype=kw.get('mimetype', MT_TEXT))

# ------------------------------------------------------------------ reading ---
def read_package(data):
    """-> dict(order=[names], members={name: bytes}, infos={name: ZipInfo}, manifest=[(path, mt)] or None, raw=data)"""
    z = zipfile.ZipFile(io.BytesIO(data))
    order = [i.filename for i in z.infolist()]
    members = {}
    for i in z.infolist():
        members.setdefault(i.filename, z.read(i))
    infos = {i.filename: i for i in z.infolist()}
    man = None
    if 'META-INF/manifest.xml' in members:
        try: man = parse_manifest(members['META-INF/manifest.xml'])
        except Exception: man = None
    return {'order': order, 'members': members, 'infos': infos, 'manifest': man, 'raw': data}

def parse_manifest(data):
    out = []
    p = xml.parsers.expat.ParserCreate(namespace_separator=' ')
    def start(n, a):
        if n == NS['manifest'] + ' file-entry':
            out.append((a.get(NS['manifest'] + ' full-path'), a.get(NS['manifest'] + ' media-type')))
    p.StartElementHandler = start
    p.Parse(data, True)
    return out

def first_local_header(data):
    """raw parse of the first local file header: (signature_ok, method, extra_len, name, payload)"""
    sig, ver, flag, method, mtime, mdate, crc, csize, usize, nlen, elen = struct.unpack('<IHHHHHIIIHH', data[:30])
    name = data[30:30 + nlen]
    payload = data[30 + nlen + elen:30 + nlen + elen + csize]
    return (sig == 0x04034b50, method, elen, name.decode('utf-8', 'replace'), payload, flag)

def foreign_folders_sx(pk, d):
    """the folders of embedded objects whose content.xml is not an OpenDocument part (the value of the parameter `foreign` of the
    load dispatch), judged by the model (FixPart.is_odf_part, tied to odf.opendocument.__isOpenDocumentPart by the correspondence
    of the C05/C13 checks), as an s-expression list"""
    from vlib import sx_str
    out = []
    for p, _ in (pk['manifest'] or []):
        if p.startswith('Object ') and p.endswith('/content.xml') and p in pk['members']:
            try:
                if d.call('fix_part', sx_str(pk['members'][p].decode('utf-8')))[4] != '1': out.append(p[:-11])
            except UnicodeDecodeError: pass
    return '(' + ' '.join(sx_str(f) for f in out) + ')'
