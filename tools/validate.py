#!/usr/bin/env python3
# validate MANIFEST.json and evidence/*.json against the schemas (needs jsonschema: run with python3-vt)
import json, sys, glob, jsonschema
ms = json.load(open('/root/.vp/MANIFEST.schema.json')); es = json.load(open('/root/.vp/EVIDENCE.schema.json'))
m = json.load(open('/verif/MANIFEST.json'))
jsonschema.validate(m, ms)
ids = [json.loads(l)['id'] for l in open('/verif/properties.jsonl')]
claimed = [c['property_id'] for c in m['checks']]; na = [c['property_id'] for c in m.get('not_applicable', [])]
assert sorted(claimed + na) == sorted(ids), (sorted(set(ids) - set(claimed + na)), 'dup' if len(set(claimed+na)) != len(claimed+na) else '')
for f in sorted(glob.glob('/verif/evidence/*.json')):
    e = json.load(open(f)); jsonschema.validate(e, es)
    c = e['coverage']
    print(f.split('/')[-1], e['level'], e['tier'], 'obl', c.get('obligations'), c.get('discharged'), 'eval', c.get('evaluations'), 'nt', c.get('distinct_nontrivial'), 'viol', e.get('violations'), 'wall', e['wall_s'])
print('manifest ok: claimed', len(claimed), 'not_applicable', len(na))
