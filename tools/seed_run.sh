#!/bin/sh
# seed_run.sh <id> <k> [check ids...]: apply the seeded change to /repo, run the given checks (default: <id>), undo.
id=$1; k=$2; shift 2; checks=${*:-$id}
src=/verif/seeded/$id-m$k
git -C /repo diff --quiet || { echo "/repo is dirty"; exit 2; }
git -C /repo apply $src/patch.diff || { git -C /repo checkout -q -- .; echo "patch does not apply"; exit 2; }
for c in $checks; do
  out=$(cd /verif && ./check $c --tier quick 2>&1); rc=$?
  echo "== seed $id-m$k check $c exit=$rc"; echo "$out" | grep -v "^KNOWN-FINDING" | head -8
done
git -C /repo checkout -q -- . ; git -C /repo status --short | head -3
