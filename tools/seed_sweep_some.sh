#!/bin/sh
# seed_sweep_some.sh <seed-dir-names...>: as seed_sweep.sh, for the named seeds only; their lines in seeded/SWEEP.txt are replaced
out=/verif/seeded/SWEEP.txt
for b in "$@"; do
  d=/verif/seeded/$b; id=${b%%-*}
  git -C /repo diff --quiet || { echo "/repo dirty, stopping"; exit 2; }
  if ! git -C /repo apply --check $d/patch.diff 2>/dev/null; then line="$b does-not-apply"; else
    git -C /repo apply $d/patch.diff
    res=$(cd /verif && ./check $id --tier quick 2>&1); rc=$?
    v=$(echo "$res" | grep "^VIOLATION" | head -1); summ=$(echo "$res" | grep "^$id tier=" | head -1)
    git -C /repo checkout -q -- .
    line="$b exit=$rc ${v:-no-violation-line} | $summ"
  fi
  grep -v "^$b \|^done$" $out > $out.tmp; echo "$line" >> $out.tmp; sort -o $out.tmp $out.tmp; mv $out.tmp $out; echo done >> $out
  echo "$line"
done
