#!/venv/bin/python
# gen_tables.py — translator: re-extract odfpy's *data* from /repo's working tree
# (effective runtime values, read by importing the modules) into coq/gen/*.v.
# Files are rewritten only when their content changes. Fail closed: anything that
# cannot be encoded raises and the check reports the tie as broken.
import os, sys, json, hashlib
VERIF = os.path.dirname(os.path.dirname(os.path.abspath(__file__)))
GEN = os.path.join(VERIF, 'coq', 'gen')
REPO = os.environ.get('VERIF_REPO', '/repo')
sys.path.insert(0, REPO)

def write_if_changed(name, text):
    p = os.path.join(GEN, name)
    old = open(p).read() if os.path.exists(p) else None
    if old != text:
        open(p, 'w').write(text)
        print('CHANGED', name)

def main():
    os.makedirs(GEN, exist_ok=True)
    import odf
    assert os.path.realpath(odf.__file__).startswith(os.path.realpath(REPO)), odf.__file__
    from gen import ALL
    twin = {}
    for g in ALL:
        for name, text, data in g():
            write_if_changed(name, text)
            twin[name] = data
    json.dump(twin, open(os.path.join(GEN, 'twin.json'), 'w'), sort_keys=True)

if __name__ == '__main__':
    sys.path.insert(0, os.path.dirname(os.path.abspath(__file__)))
    main()
