# domlib.py — universes of real odfpy nodes, snapshots in the model's notation, operations,
# an independent list-based reference model, and history enumeration (C07, C08, C09, C12).
import itertools
import vlib

STYLENS = 'urn:oasis:names:tc:opendocument:xmlns:style:1.0'
OFFICENS = 'urn:oasis:names:tc:opendocument:xmlns:office:1.0'
TEXTNS = 'urn:oasis:names:tc:opendocument:xmlns:text:1.0'

class Universe:
    """a set of real nodes with stable ids. ids: document nodes first (preorder from topnode), then the free nodes"""
    def __init__(self, attached, extra_free=(), prelinked=False):
        from odf import text, style
        from odf.element import Text, CDATASection
        self.doc = None
        self.nodes = []          # id -> real node
        self.qtab = [(STYLENS, 'style'), (OFFICENS, 'styles'), (OFFICENS, 'automatic-styles')]
        self.ntab = []           # style names
        if attached:
            from odf.opendocument import OpenDocumentText
            self.doc = OpenDocumentText()
            self._walk(self.doc.topnode)
        # the two text nodes have equal content on purpose: nodes are found by identity, not by value
        free = [text.P(), text.P(), text.Span(), Text('t'), Text('t'), CDATASection('t'),
                style.Style(name='N1', family='paragraph'), text.List()] + list(extra_free)
        self.free_ids = []
        for n in free:
            self.free_ids.append(len(self.nodes)); self.nodes.append(n)
        self.names = {}
        if prelinked:
            # a non-trivial starting tree: P1 = [Span, T1, T2] (and P1 under office:text when attached)
            p1, sp, t1, t2 = free[0], free[2], free[3], free[4]
            p1.appendChild(sp); p1.appendChild(t1); p1.appendChild(t2)
            if attached: self.doc.text.appendChild(p1)
    def _walk(self, n):
        from odf.element import Node
        self.nodes.append(n)
        for c in n.childNodes: self._walk(c)
    def id_of(self, n):
        if n is None: return None
        for i, m in enumerate(self.nodes):
            if m is n: return i
        self.nodes.append(n)            # a node created by the operation (addText/addCDATA)
        return len(self.nodes) - 1
    def qid(self, q):
        q = (q[0], q[1])
        if q not in self.qtab: self.qtab.append(q)
        return self.qtab.index(q)
    def nid(self, name):
        if name not in self.ntab: self.ntab.append(name)
        return self.ntab.index(name)

    # ---- snapshot in the model's notation ---------------------------------------
    def snap_node(self, n):
        from odf.element import Node
        if n.nodeType == Node.TEXT_NODE: kind = 'T'
        elif n.nodeType == Node.CDATA_SECTION_NODE: kind = 'C'
        else: kind = ['E', str(self.qid(n.qname))]
        sn = 'N'
        if kind not in ('T', 'C') and tuple(n.qname) == (STYLENS, 'style'):
            nm = n.getAttrNS(STYLENS, 'name')
            if nm is not None: sn = str(self.nid(str(nm)))
        o = lambda x: 'N' if x is None else str(self.id_of(x))
        kids = [str(self.id_of(c)) for c in n.childNodes]
        return [kind, o(n.parentNode), kids, o(n.previousSibling), o(n.nextSibling),
                '1' if getattr(n, 'ownerDocument', None) is not None else '0', sn]
    def snapshot(self):
        # walking may discover new nodes (created text nodes): iterate until stable
        recs = []
        i = 0
        while i < len(self.nodes):
            recs.append(self.snap_node(self.nodes[i])); i += 1
        recs = [self.snap_node(n) for n in self.nodes]
        ed = []; sd = []
        if self.doc is not None:
            for q, l in self.doc.element_dict.items():
                ed.append([str(self.qid(q)), sorted((str(self.id_of(e)) for e in l), key=int)])
            for nm, e in self.doc._styles_dict.items():
                sd.append([str(self.nid(str(nm))), str(self.id_of(e))])
        return [recs, sorted(ed, key=lambda x: int(x[0])), sorted(sd, key=lambda x: int(x[0]))]

def canon_model_heap(hs):
    """normalise a heap snapshot coming from the driver the same way"""
    recs, ed, sd = hs
    ed = sorted(([q, sorted(l, key=int)] for q, l in ed), key=lambda x: int(x[0]))
    ed = [e for e in ed]
    return [recs, ed, sorted(sd, key=lambda x: int(x[0]))]

def drop_empty(ed):
    return [e for e in ed if e[1]]

# ---- operations ---------------------------------------------------------------------
def is_ancestor_or_self(a, n):
    while n is not None:
        if n is a: return True
        n = n.parentNode
    return False

def legal(u, op):
    """exclude the caller error of putting a node into itself or its own descendant"""
    if op[0] in ('append', 'insert', 'addelement'):
        return not is_ancestor_or_self(u.nodes[op[2]], u.nodes[op[1]])
    return True

def op_sx(u, op):
    import odf.grammar as grammar
    from odf.element import Node
    k = op[0]
    if k == 'append': return '(append %d %d)' % (op[1], op[2])
    if k == 'insert': return '(insert %d %d %s)' % (op[1], op[2], 'N' if op[3] is None else op[3])
    if k == 'remove': return '(remove %d %d)' % (op[1], op[2])
    p = u.nodes[op[1]]
    if k == 'addelement':
        c = u.nodes[op[2]]
        allowed = p.allowed_children is None or c.qname in p.allowed_children
        return '(addelement %d %d %d)' % (op[1], op[2], 1 if allowed else 0)
    if k == 'addtext':
        allowed = p.qname in grammar.allows_text
        return '(addtext %d %d %d %d)' % (op[1], 1 if allowed else 0, 1 if op[2] == '' else 0, 1 if op[3] else 0)
    raise ValueError(op)

def apply_real(u, op):
    """-> 'Ok' or ['Raise', name]"""
    import xml.dom
    from odf.element import IllegalChild, IllegalText
    k = op[0]
    try:
        if k == 'append': u.nodes[op[1]].appendChild(u.nodes[op[2]])
        elif k == 'insert': u.nodes[op[1]].insertBefore(u.nodes[op[2]], None if op[3] is None else u.nodes[op[3]])
        elif k == 'remove': u.nodes[op[1]].removeChild(u.nodes[op[2]])
        elif k == 'addelement': u.nodes[op[1]].addElement(u.nodes[op[2]])
        elif k == 'addtext':
            if op[3]: u.nodes[op[1]].addCDATA(op[2])
            else: u.nodes[op[1]].addText(op[2])
        return 'Ok'
    except IllegalChild: return ['Raise', 'IllegalChild']
    except IllegalText: return ['Raise', 'IllegalText']
    except xml.dom.NotFoundErr: return ['Raise', 'NotFoundErr']
    except xml.dom.HierarchyRequestErr: return ['Raise', 'HierarchyRequestErr']
    except Exception as e: return ['Raise', 'Other:' + type(e).__name__]

def all_ops(u, ids, parents=None):
    """every operation over the given node ids (parents: ids usable as receiver)"""
    from odf.element import Node
    ops = []
    parents = parents if parents is not None else ids
    for p in parents:
        for c in ids:
            if c == p: continue
            ops.append(('append', p, c)); ops.append(('remove', p, c))
            for r in ids:
                if r != p: ops.append(('insert', p, c, r))
            ops.append(('insert', p, c, None))
            if u.nodes[p].nodeType == Node.ELEMENT_NODE and u.nodes[c].nodeType == Node.ELEMENT_NODE:
                ops.append(('addelement', p, c))
        if u.nodes[p].nodeType == Node.ELEMENT_NODE:
            ops += [('addtext', p, 'x', False), ('addtext', p, '', False), ('addtext', p, 'y', True)]
    return ops

# ---- independent reference model (lists only) ------------------------------------------
class Ref:
    """children lists and nothing else; parent/sibling/first/last are *derived*"""
    def __init__(self, u):
        self.kids = {i: [u.id_of(c) for c in n.childNodes] for i, n in enumerate(u.nodes)}
    def parent(self, c):
        for p, l in self.kids.items():
            if c in l: return p
        return None
    def detach(self, c):
        p = self.parent(c)
        if p is not None: self.kids[p].remove(c)
    def apply(self, u, op, outcome, new_id=None):
        if outcome != 'Ok': return
        k = op[0]
        if k in ('append', 'addelement'):
            self.detach(op[2]); self.kids[op[1]].append(op[2])
        elif k == 'insert':
            if op[3] is None: self.detach(op[2]); self.kids[op[1]].append(op[2])
            elif op[3] != op[2]:
                self.detach(op[2]); self.kids[op[1]].insert(self.kids[op[1]].index(op[3]), op[2])
        elif k == 'remove':
            self.kids[op[1]].remove(op[2])
        elif k == 'addtext' and new_id is not None:
            self.kids[new_id] = []; self.kids[op[1]].append(new_id)
    def expected_outcome(self, u, op):
        """the DOM errors the property names: not-a-child -> NotFoundErr"""
        k = op[0]
        if k == 'remove' and op[2] not in self.kids.get(op[1], []): return ['Raise', 'NotFoundErr']
        if k == 'insert' and op[3] is not None and op[3] not in self.kids.get(op[1], []): return ['Raise', 'NotFoundErr']
        return None
    def check(self, u):
        """compare every public DOM attribute of every real node with what the lists say; returns list of complaints"""
        bad = []
        for i, n in enumerate(u.nodes):
            l = self.kids.setdefault(i, [])
            real = [u.id_of(c) for c in n.childNodes]
            if real != l: bad.append(('childNodes', i, real, l))
            if len(set(real)) != len(real): bad.append(('listed twice', i, real))
            fc = u.id_of(n.firstChild); lc = u.id_of(n.lastChild)
            if fc != (l[0] if l else None): bad.append(('firstChild', i, fc))
            if lc != (l[-1] if l else None): bad.append(('lastChild', i, lc))
            p = self.parent(i)
            if u.id_of(n.parentNode) != p: bad.append(('parentNode', i, u.id_of(n.parentNode), p))
            if p is None:
                exp_prev = exp_next = None
            else:
                sib = self.kids[p]; j = sib.index(i)
                exp_prev = sib[j - 1] if j > 0 else None
                exp_next = sib[j + 1] if j + 1 < len(sib) else None
            if u.id_of(n.previousSibling) != exp_prev: bad.append(('previousSibling', i, u.id_of(n.previousSibling), exp_prev))
            if u.id_of(n.nextSibling) != exp_next: bad.append(('nextSibling', i, u.id_of(n.nextSibling), exp_next))
        return bad

# ---- queries vs traversal (C09) -----------------------------------------------------------
def traverse(n, acc=None):
    from odf.element import Node
    if acc is None: acc = []
    acc.append(n)
    for c in n.childNodes:
        if c.nodeType == Node.ELEMENT_NODE: traverse(c, acc)
    return acc

def query_complaints(u, factories):
    """doc.getElementsByType / element.getElementsByType / getStyleByName vs a traversal from doc.topnode"""
    from odf.element import Node
    bad = []
    doc = u.doc
    attached = traverse(doc.topnode)
    for f in factories:
        q = f(check_grammar=False).qname
        got = doc.getElementsByType(f)
        want = [e for e in attached if e.qname == q]
        if sorted(map(id, got)) != sorted(map(id, want)):
            bad.append(('doc.getElementsByType', q[1], sorted(u.id_of(e) for e in got), sorted(u.id_of(e) for e in want)))
    for e in attached[:1] + [x for x in u.nodes if x.nodeType == Node.ELEMENT_NODE and x.childNodes][:4] + [x for x in u.nodes[-6:] if x.nodeType == Node.ELEMENT_NODE and x.childNodes]:
        for f in factories[:3]:
            q = f(check_grammar=False).qname
            got = e.getElementsByType(f); want = [x for x in traverse(e) if x.qname == q]
            if list(map(id, got)) != list(map(id, want)):
                bad.append(('element.getElementsByType', u.id_of(e), q[1], [u.id_of(x) for x in got], [u.id_of(x) for x in want]))
    names = set(u.ntab) | {'nope'}
    for nm in names:
        want = None
        for e in attached:
            if tuple(e.qname) == (STYLENS, 'style') and e.getAttrNS(STYLENS, 'name') == nm and e.parentNode is not None and \
               tuple(e.parentNode.qname) in ((OFFICENS, 'styles'), (OFFICENS, 'automatic-styles')):
                want = e
        try: got = doc.getStyleByName(nm)
        except Exception as ex: got = 'raised ' + type(ex).__name__
        if got is not want and not (want is None and got is None):
            bad.append(('getStyleByName', nm, got if isinstance(got, str) else u.id_of(got), u.id_of(want)))
    return bad
