#!/usr/bin/env python3
# mk_seed_meta.py — write seeded/<id>-m<k>/meta.json from NOTES.md, confirm.json (if any) and seeded/SWEEP.txt
import os, re, json, glob
V = os.path.dirname(os.path.dirname(os.path.abspath(__file__)))
sweep = {}
for l in open(os.path.join(V, 'seeded', 'SWEEP.txt')):
    m = re.match(r'(C\d\d-m\w) (.*)', l.strip())
    if m: sweep[m.group(1)] = m.group(2)
NEUTRALISED = {
 'C05-m1': 'needed the positional renumbering of object folders in _saveXmlObjects, removed by fix 2b3705d; with the change applied the property holds (demo passes)',
 'C16-m2': 'needed the positional renumbering of object folders in _saveXmlObjects, removed by fix 2b3705d; with the change applied the property holds',
 'C09-m2': 'needed an incomplete element index (appendChild/insertBefore not indexing), repaired by fix 9c0fd92; with a complete index the short-cut returns the same lists',
}
CROSS = {
 'C05-mD': 'the change is one row of the converter table; the check of C15 (values the schema allows are accepted, also through load()) reports it with a failing input: sh tools/seed_run.sh C05 D C15 -> exit 1. The C05 check does not vary attribute values',
}
for d in sorted(glob.glob(os.path.join(V, 'seeded', 'C??-m?'))):
    b = os.path.basename(d); pid = b.split('-')[0]
    notes = open(os.path.join(d, 'NOTES.md')).read() if os.path.exists(os.path.join(d, 'NOTES.md')) else ''
    title = notes.splitlines()[0].lstrip('# ').strip() if notes else b
    def para(head):
        m = re.search(r'^(%s)[^\n]*\n?(.*?)(?=\n\n|\Z)' % head, notes, re.S | re.M)
        return ' '.join((m.group(0) if m else '').split())[:900]
    conf = None
    if os.path.exists(os.path.join(d, 'confirm.json')):
        try: conf = json.load(open(os.path.join(d, 'confirm.json')))
        except Exception: conf = None
    res = sweep.get(b, 'not run')
    if 'does-not-apply' in res:
        status = 'obsolete: the code it changes was rewritten by a later fix: commit; not applicable to the current tree'
    elif 'no-failing-input-found' in res: status = 'detected as a broken obligation, no failing input found'
    elif 'VIOLATION' in res: status = 'detected with a failing input'
    elif 'exit=0' in res and b in NEUTRALISED: status = 'neutralised: ' + NEUTRALISED[b]
    elif 'exit=0' in res and b in CROSS: status = 'detected by another check: ' + CROSS[b]
    elif 'exit=0' in res: status = 'NOT detected'
    else: status = res
    meta = {'seed': b, 'property': pid, 'title': title, 'breaks': para('Clause broken') or para('Clause'),
            'needs_to_manifest': para('Needed to manifest') or para('What is needed') or para('Needs'),
            'confirmed': conf if conf is not None else 'confirmed by hand in a scratch worktree (tests pass with the change, demo fails with it and passes without)',
            'ran': 'git -C /repo apply seeded/%s/patch.diff; /verif/check %s --tier quick; git -C /repo checkout -- .' % (b, pid),
            'result': res, 'status': status}
    json.dump(meta, open(os.path.join(d, 'meta.json'), 'w'), indent=1)
    print(b, status)
