# c05lib.py — independent package tools for C05: a serialiser of notation trees with a free choice of prefixes / default
# namespace / declaration layout, structure-preserving mutations of packages, and the comparison of a source package with
# the package saved after loading it (expat + zipfile only; nothing of odfpy).
import re
import io, zipfile
import xmllib as X, pkglib as P

OFF = 'urn:oasis:names:tc:opendocument:xmlns:office:1.0'
STY = 'urn:oasis:names:tc:opendocument:xmlns:style:1.0'
META = 'urn:oasis:names:tc:opendocument:xmlns:meta:1.0'
XLINK = 'http://www.w3.org/1999/xlink'
XMLNS = 'http://www.w3.org/XML/1998/namespace'
PARTS = ('content.xml', 'styles.xml', 'meta.xml', 'settings.xml')

def esc_text(s): return s.replace('&', '&amp;').replace('<', '&lt;').replace('>', '&gt;').replace('\r', '&#13;')
def esc_attr(s): return esc_text(s).replace('"', '&quot;').replace('\t', '&#9;').replace('\n', '&#10;')

def namespaces_of(t, acc=None):
    acc = acc if acc is not None else []
    if t[0] != 'E': return acc
    for ns in [t[1][0]] + [a[0][0] for a in t[2]]:
        if ns and ns != XMLNS and ns not in acc: acc.append(ns)
    for k in t[3]: namespaces_of(k, acc)
    return acc

def serialise(t, prefixes=None, default_ns=None, newline_decls=False, rename=None, local_decls=False, spaced_eq=False):
    """XML text of a notation tree. prefixes: {ns: prefix} (generated if missing); default_ns: a namespace written without
    prefix on elements; rename: function prefix -> prefix; local_decls: declare each namespace where first used instead of on the root"""
    nss = namespaces_of(t)
    pm = dict(prefixes or {})
    for i, ns in enumerate(nss):
        if ns not in pm: pm[ns] = 'n%d' % i
    if rename: pm = {ns: rename(p) for ns, p in pm.items()}
    out = []
    def name(q, is_attr, scope):
        ns, l = q
        if ns == XMLNS: return 'xml:' + l
        if not ns: return l
        if ns == default_ns and not is_attr: return l
        return pm[ns] + ':' + l
    def go(t, root, declared):
        if t[0] != 'E':
            out.append(esc_text(t[1])); return
        need = []
        if root and not local_decls: need = list(nss)
        elif local_decls:
            for ns in [t[1][0]] + [a[0][0] for a in t[2]]:
                if ns and ns != XMLNS and ns not in declared and ns not in need: need.append(ns)
        decl = []
        for ns in need:
            eq = ' = ' if spaced_eq else '='
            if ns == default_ns: decl.append('xmlns%s"%s"' % (eq, esc_attr(ns)))
            decl.append('xmlns:%s%s"%s"' % (pm[ns], eq, esc_attr(ns)))
        declared = declared | set(need)
        if root and default_ns and not need: decl.append('xmlns="%s"' % esc_attr(default_ns))
        sep = '\n    ' if newline_decls is True else newline_decls if newline_decls else ' '       # (any white space separates attributes)
        atts = ['%s="%s"' % (name(a, True, declared), esc_attr(v)) for a, v in t[2]]
        pieces = decl + atts
        out.append('<' + name(t[1], False, declared) + ''.join((' ' if (i == 0 and newline_decls not in (False, True)) else sep) + x for i, x in enumerate(pieces)))
        if not t[3]:
            out.append('/>'); return
        out.append('>')
        for k in t[3]: go(k, False, declared)
        out.append('</' + name(t[1], False, declared) + '>')
    go(t, True, set())
    return '<?xml version="1.0" encoding="UTF-8"?>\n' + ''.join(out)

# ---------------------------------------------------------------------------------------------------------------------
def folders_of(pk):
    """'' plus every object folder (a directory entry of the manifest that has a content.xml or styles.xml member)"""
    out = ['']
    for path, mt in (pk['manifest'] or []):
        if path.endswith('/') and path != '/' and (path + 'content.xml' in pk['members'] or path + 'styles.xml' in pk['members']):
            out.append(path)
    return out

def parse_member(pk, name):
    if name not in pk['members']: return None
    t = X.expat_parse(pk['members'][name])
    return t[1] if t[0] == 'ok' else ('unparsable', t[1])

def bad(t): return t is None or t[0] == 'unparsable'

def section(root, local):
    if root is None or root[0] != 'E': return None
    for k in root[3]:
        if k[0] == 'E' and tuple(k[1]) == (OFF, local): return k
    return None

ELEMENT_ONLY = None      # set by the harness: qnames whose content model has no character data (white space there is ignorable)

def norm(t):
    """infoset normal form: attributes as a sorted list, adjacent text merged, empty text dropped, white space dropped
    where the schema gives the element element-only content"""
    if t[0] != 'E': return ('T', t[1])
    kids = []
    eo = ELEMENT_ONLY is not None and tuple(t[1]) in ELEMENT_ONLY
    for k in t[3]:
        n = norm(k)
        if n[0] == 'T':
            if not n[1] or (eo and not n[1].strip(' \t\r\n')): continue
            if kids and kids[-1][0] == 'T': kids[-1] = ('T', kids[-1][1] + n[1]); continue
        kids.append(n)
    return ('E', tuple(t[1]), sorted((tuple(a), v) for a, v in t[2]), kids)

def first_diff(a, b, path='/'):
    if a is None or b is None: return {'at': path, 'source': None if a is None else 'present', 'saved': None if b is None else 'present'} if (a is None) != (b is None) else None
    if a[0] != b[0] or (a[0] == 'E' and a[1] != b[1]): return {'at': path, 'source': str(a)[:160], 'saved': str(b)[:160]}
    if a[0] != 'E': return {'at': path, 'source_text': a[1][:80], 'saved_text': b[1][:80]} if a != b else None
    if a[2] != b[2]:
        da = [x for x in a[2] if x not in b[2]]; db = [x for x in b[2] if x not in a[2]]
        return {'at': path + a[1][1], 'source_attrs': da[:4], 'saved_attrs': db[:4]}
    if len(a[3]) != len(b[3]): return {'at': path + a[1][1], 'source_children': len(a[3]), 'saved_children': len(b[3])}
    for i, (x, y) in enumerate(zip(a[3], b[3])):
        d = first_diff(x, y, path + a[1][1] + '[%d]/' % i)
        if d: return d
    return None

def refs(t, refattrs, acc=None):
    acc = acc if acc is not None else set()
    if t[0] != 'E': return acc
    for a, v in t[2]:
        if tuple(a) in refattrs: acc |= set(v.split())
    for k in t[3]: refs(k, refattrs, acc)
    return acc

def needed_names(roots, autos, refattrs):
    need = set()
    for r in roots:
        if r is not None: refs(r, refattrs, need)
    changed = True
    while changed:
        changed = False
        for s in autos:
            if s[0] != 'E': continue
            nm = dict((tuple(a), v) for a, v in s[2]).get((STY, 'name'))
            if nm in need:
                new = refs(s, refattrs) - need
                if new: need |= new; changed = True
    return need

def unnamed(st):
    """an automatic style:style without its name (the loader may rename it; references follow: C11)"""
    n = norm(st)
    return ('E', n[1], [x for x in n[2] if x[0] != (STY, 'name')], n[3]) if n[1] == (STY, 'style') else n

def resolve(t, autos, refattrs):
    """t with every reference to an automatic style:style of the part replaced by the definition it names"""
    defs = {}
    for st in autos:
        if st[0] == 'E' and tuple(st[1]) == (STY, 'style'):
            nm = dict((tuple(a), v) for a, v in st[2]).get((STY, 'name'))
            if nm is not None: defs.setdefault(nm, repr(unnamed(st)))
    def go(t):
        if t[0] != 'E': return t
        atts = []
        for a, v in t[2]:
            if tuple(a) in refattrs and any(n in defs for n in v.split()):
                v = ''.join(('@' + defs[n] if n in defs else n) for n in re.split(r'(\s+)', v))       # (the white space between the names as it is)
            atts.append((a, v))
        return ('E', t[1], atts, [go(k) for k in t[3]])
    return go(t)

def compare(src, dst, refattrs, report):
    """report(what, where, observed, expected, match)"""
    sman = dict(src['manifest'] or []); dman = dict(dst['manifest'] or [])
    for folder in folders_of(src):
        sc, ss = parse_member(src, folder + 'content.xml'), parse_member(src, folder + 'styles.xml')
        dc, ds = parse_member(dst, folder + 'content.xml'), parse_member(dst, folder + 'styles.xml')
        if folder and folder not in dman:
            report('object-folder-lost', folder, sorted(dman)[:8], 'the folder is in the saved manifest', {'aspect': 'object'}); continue
        for part, s, d_, secs in (('content.xml', sc, dc, ['body']), ('styles.xml', ss, ds, ['styles', 'master-styles'])):
            if s is None: continue
            if bad(s): continue
            if tuple(s[1]) != (OFF, 'document-' + part[:-4]):
                # a part of another vocabulary - the content.xml of a formula object is MathML in most producers: it is the object's
                # body, and kept as it is
                d = 'the part is not saved' if bad(d_) else first_diff(norm(s), norm(d_))
                if d: report('foreign-root-part-differs', folder + part, d, 'the part as in the source', {'aspect': 'part', 'part': part, 'root': 'foreign'})
                continue
            if bad(d_):
                report('part-lost', folder + part, d_, 'the part is saved and parses', {'aspect': 'part', 'part': part}); continue
            sautos = (section(s, 'automatic-styles') or (0, 0, 0, []))[3]; dautos = (section(d_, 'automatic-styles') or (0, 0, 0, []))[3]
            for sec in secs:
                a, b = section(s, sec), section(d_, sec)
                if a is not None and sec in ('body', 'master-styles'): a = resolve(a, sautos, refattrs)
                if b is not None and sec in ('body', 'master-styles'): b = resolve(b, dautos, refattrs)
                na = norm(a) if a is not None else None; nb = norm(b) if b is not None else None
                if na is not None and not na[3] and not na[2] and nb is None: continue           # an empty section may be left out
                if na is None and nb is not None and not nb[3]: continue                          # or written empty
                if na is not None and nb is not None: na = ('E', na[1], [], na[3]); nb = ('E', nb[1], [], nb[3])   # attributes of the section element itself: reported apart
                d = first_diff(na, nb)
                if d: report('section-differs', folder + part + '#' + sec, d, 'equal infosets', {'aspect': 'section', 'section': sec})
            # referenced automatic styles of this part
            sa = section(s, 'automatic-styles'); da = section(d_, 'automatic-styles')
            if sa is not None:
                roots = [section(s, x) for x in (['body'] if part == 'content.xml' else ['master-styles'])]
                need = needed_names(roots, sa[3], refattrs)
                dl = [x for x in (da[3] if da is not None else []) if x[0] == 'E']
                have = [unnamed(resolve(x, dautos, refattrs)) for x in dl]
                for st in sa[3]:
                    if st[0] != 'E': continue
                    nm = dict((tuple(a), v) for a, v in st[2]).get((STY, 'name'))
                    if nm in need and unnamed(resolve(st, sautos, refattrs)) not in have:
                        same_name = [norm(h) for h in dl if dict((tuple(a), v) for a, v in h[2]).get((STY, 'name')) == nm and tuple(h[1]) == tuple(st[1])]
                        report('referenced-automatic-style-differs' if same_name else 'referenced-automatic-style-lost', folder + part + '#' + str(nm),
                               first_diff(norm(st), same_name[0]) if same_name else None, 'the definition as in the source', {'aspect': 'automatic-style'})
            # one name, one definition: a saved part that defines a name twice (same kind of style, same family) leaves every reference
            # to it ambiguous, whatever the source meant
            def twice(autos):
                seen = {}
                for x in autos:
                    if x[0] != 'E': continue
                    a = dict((tuple(k), v) for k, v in x[2])
                    if (STY, 'name') in a: seen.setdefault((tuple(x[1]), a.get((STY, 'family')), a[(STY, 'name')]), []).append(norm(x))
                return sorted(k for k, v in seen.items() if len(v) > 1 and any(y != v[0] for y in v))
            amb = [k for k in twice(dautos) if k not in twice(sautos)]
            if amb:
                report('automatic-style-name-ambiguous', folder + part, [(k[0][1], k[1], k[2]) for k in amb], 'one definition per name', {'aspect': 'automatic-style', 'kinds': sorted(set(k[0][1] for k in amb))})
            # font declarations
            sf = section(s, 'font-face-decls')
            if sf is not None:
                allf = []
                for dd in (dc, ds):
                    f = section(dd, 'font-face-decls') if not bad(dd) else None
                    if f is not None: allf += [norm(x) for x in f[3] if x[0] == 'E']
                for fdecl in sf[3]:
                    if fdecl[0] == 'E' and norm(fdecl) not in allf:
                        nm = dict((tuple(a), v) for a, v in fdecl[2]).get((STY, 'name'))
                        report('font-declaration-lost', folder + part + '#' + str(nm), None, 'the font declaration is kept', {'aspect': 'font-face', 'part': part})
        for part, sec in (('meta.xml', 'meta'), ('settings.xml', 'settings')):
            s, d_ = parse_member(src, folder + part), parse_member(dst, folder + part)
            if bad(s): continue
            a = section(s, sec)
            if a is None: continue
            na = norm(a)
            if sec == 'meta': na = ('E', na[1], na[2], [k for k in na[3] if not (k[0] == 'E' and k[1] == (META, 'generator'))])
            if not na[3]: continue
            if bad(d_):
                report('part-lost', folder + part, None, 'the part is saved', {'aspect': 'part', 'part': part, 'where': 'subdocument' if folder else 'document'}); continue
            b = section(d_, sec); nb = norm(b) if b is not None else None
            if nb is not None and sec == 'meta': nb = ('E', nb[1], nb[2], [k for k in nb[3] if not (k[0] == 'E' and k[1] == (META, 'generator'))])
            if nb is not None: na = ('E', na[1], [], na[3]); nb = ('E', nb[1], [], nb[3])
            d = first_diff(na, nb)
            if d: report('section-differs', folder + part + '#' + sec, d, 'equal infosets', {'aspect': 'section', 'section': sec})
    # every other file of the manifest
    special = set()
    for folder in folders_of(src):
        for p in PARTS: special.add(folder + p)
    for path, mt in (src['manifest'] or []):
        if path in special or path == '/' or path in folders_of(src): continue
        if path == 'META-INF/documentsignatures.xml': continue
        if path not in dman:
            report('manifest-entry-lost', path, None, 'listed in the saved manifest', {'aspect': 'member'}); continue
        if dman[path] != mt:
            report('media-type-changed', path, dman[path], mt, {'aspect': 'member'})
        if not path.endswith('/'):
            if path not in dst['members']: report('member-lost', path, None, 'the file is in the saved package', {'aspect': 'member'})
            elif path in src['members'] and dst['members'][path] != src['members'][path]:
                report('member-bytes-changed', path, len(dst['members'][path]), len(src['members'][path]), {'aspect': 'member'})
    # media types of the folders
    for path, mt in (src['manifest'] or []):
        if (path == '/' or path in folders_of(src)) and path in dman and dman[path] != mt:
            report('media-type-changed', path, dman[path], mt, {'aspect': 'folder'})

# ---------------------------------------------------------------------------------------------------------------------
def repack(pk, members=None, manifest=None, order=None):
    """a new zip with the members of pk replaced / extended"""
    members = dict(pk['members'], **(members or {}))
    man = manifest if manifest is not None else list(pk['manifest'] or [])
    names = [n for n in (order or pk['order']) if n in members and n not in ('mimetype', 'META-INF/manifest.xml')]
    names += [n for n in members if n not in names and n not in ('mimetype', 'META-INF/manifest.xml')]
    buf = io.BytesIO(); z = zipfile.ZipFile(buf, 'w')
    if 'mimetype' in members:
        zi = zipfile.ZipInfo('mimetype'); zi.compress_type = zipfile.ZIP_STORED; z.writestr(zi, members['mimetype'])
    for n in names:
        if n.endswith('/'): continue
        z.writestr(zipfile.ZipInfo(n), members[n], zipfile.ZIP_DEFLATED)
    z.writestr(zipfile.ZipInfo('META-INF/manifest.xml'), P.manifest_xml(man).encode('utf-8'), zipfile.ZIP_DEFLATED)
    z.close()
    return buf.getvalue()
