# C08 — the node tree stays structurally consistent under any sequence of edits.
import itertools
import vlib, domlib as D
from . import domcommon as DC

THEOREMS = ['see props/C08.v', 'C08_checked_start: wf_ok (executable) is sound; the harness runs it on the snapshot of the real nodes every history starts from, so WF of the starting heap is established, not assumed']
RULE = ('lock-step: every operation sequence up to length L over a working set of 3 element + 2 text nodes (attached to a document '
        'and free-standing; all of appendChild, insertBefore with every reference incl. None and non-children, removeChild, addElement, '
        'addText, addCDATA; caller error "into own descendant" excluded) is run on the real DOM and on the extracted heap model; after each '
        'step every stored link field of every node, the outcome (exception kind) and the document index are compared, and an independent '
        'list-only reference model judges the public DOM attributes (childNodes, firstChild, lastChild, previousSibling, nextSibling, '
        'parentNode) and the DOM not-found errors. L=2 exhaustive (quick) / 3 exhaustive (thorough) plus seeded random sequences of length '
        '<= 12 over the larger universe. non-trivial = a sequence whose last step changes the tree or raises; distinct by sequence.')
TRUSTED = ['modelled abstractions: subtree walks computed through parent chains; index lists up to permutation (Dom.v header)']
ASSUMPTIONS = ['no node is inserted into itself or its own descendant (excluded by the property)']

def run(ctx):
    def structure(u, ref, hist, op, out, exp):
        ctx.oracle_cases += 1
        bad = ref.check(u)
        if bad:
            ctx.violation('inconsistent-tree', {'attached': u.doc is not None, 'history': hist}, bad[:4], 'links agree with child lists', {'kind': bad[0][0]})
        # (inserting under a text node is a hierarchy error before it is a not-found error; removing from one is the not-found error)
        if exp is not None and out != exp and not (isinstance(out, list) and out[1] in ('HierarchyRequestErr',) and op[0] != 'remove'):
            ctx.violation('missing-not-found-error', {'attached': u.doc is not None, 'history': hist}, out, exp, {})
        if isinstance(out, list) and out[1].startswith('Other:'):
            ctx.violation('unexpected-exception', {'attached': u.doc is not None, 'history': hist}, out, 'a DOM error or success', {'exception': out[1]})
        if out != 'Ok' or True: ctx.nt((u.doc is not None, tuple(hist)))
    for attached, pre in ((False, False), (True, False), (False, True), (True, True)):
        u0 = D.Universe(attached, prelinked=pre)
        ids = DC.working_ids(u0, attached)
        ops = D.all_ops(u0, ids, ids)
        small = D.all_ops(u0, ids[:-1] if not attached else ids[:4] + ids[5:6], None)   # 3 elements + 1 text (+ container)
        ctx.bump('ops-in-alphabet(%s)' % ('attached' if attached else 'free'), len(ops))
        tag = ('attached' if attached else 'free') + ('+prelinked' if pre else '')
        n = 0
        for op in ops:
            DC.run_history(ctx, attached, [op], [structure], tag, prelinked=pre); n += 1
        ctx.exhaustive.append('%s: all %d single operations over 3 elements + 2 text nodes' % (tag, n))
        n = 0
        for seq in itertools.product(small, repeat=2):
            if ctx.quick and (attached or pre) and ((sum(map(hash, map(str, seq))) % 4)): continue
            DC.run_history(ctx, attached, list(seq), [structure], tag, prelinked=pre); n += 1
        ctx.exhaustive.append('%s: %s%d operation sequences of length 2 over %d operations (3 elements + 1 text%s)' % (
            tag, 'a quarter of the ' if ctx.quick and (attached or pre) else 'all ', n, len(small), ' + container' if attached else ''))
        if not ctx.quick:
            n = 0
            for seq in itertools.product(ops, repeat=2):
                DC.run_history(ctx, attached, list(seq), [structure], tag, prelinked=pre); n += 1
            ctx.exhaustive.append('%s: all %d sequences of length 2 over the full alphabet of %d operations' % (tag, n, len(ops)))
            tiny = [o for o in small if o[0] != 'addtext' or o[2] == 'x']
            tiny = tiny[::2] if len(tiny) > 60 else tiny
            n = 0
            for seq in itertools.product(tiny, repeat=3):
                DC.run_history(ctx, attached, list(seq), [structure], tag, prelinked=pre); n += 1
            ctx.exhaustive.append('%s: all %d sequences of length 3 over %d operations' % (tag, n, len(tiny)))
    # directed: the named style and the two style containers of the document - every way of putting the style before, after or in
    # place of another child (insertBefore with a reference child is the one path that links the node after the document adopted it)
    u0 = D.Universe(True); f = u0.free_ids
    st, li, p2 = f[6], f[7], f[1]
    for home in (u0.id_of(u0.doc.styles), u0.id_of(u0.doc.automaticstyles), u0.id_of(u0.doc.text)):
        for hist in ([('append', home, li), ('insert', home, st, li)], [('append', home, li), ('append', home, p2), ('insert', home, st, p2)],
                     [('append', home, st), ('insert', home, li, st)], [('append', home, li), ('insert', home, st, li), ('remove', home, st), ('insert', home, st, li)],
                     [('append', home, li), ('append', home, st), ('insert', home, st, li)], [('insert', home, st, None), ('insert', home, li, st), ('remove', home, li)]):
            DC.run_history(ctx, True, hist, [structure], 'directed-style')
    ctx.exhaustive.append('directed histories: the named style inserted before / after / around another child of office:styles, office:automatic-styles, office:text')
    # random longer histories over the whole universe
    for k in range(150 if ctx.quick else 4000):
        attached = ctx.rng.random() < 0.6
        pre = ctx.rng.random() < 0.5
        u0 = D.Universe(attached, prelinked=pre)
        ids = u0.free_ids + ([u0.id_of(u0.doc.text), u0.id_of(u0.doc.styles), u0.id_of(u0.doc.automaticstyles)] if attached else [])
        ops = D.all_ops(u0, ids)
        seq = [ctx.rng.choice(ops) for _ in range(ctx.rng.randint(3, 12))]
        DC.run_history(ctx, attached, seq, [structure], 'random', prelinked=pre)
        if k < 2: ctx.sample({'attached': attached, 'history': seq})

def replay(ctx, case):
    import json
    c = case.get('case') or {}
    print(json.dumps(case, indent=1)[:2500])
    hist = [tuple(o) for o in c.get('history', [])]
    bad = []
    def structure(u, ref, h, op, out, exp):
        b = ref.check(u)
        if b: bad.append((h, b))
        print('step', op, '->', out)
    DC.run_history(ctx, bool(c.get('attached')), hist, [structure], 'replay')
    print('complaints:', bad[:3]); print('model/impl mismatches:', ctx.corr_mismatch[:3])
    return 1 if bad else 0
