# C19 — updating user fields changes those fields and nothing else.
import io, os, zipfile
import vlib, xmllib as X, pkglib as P
from vlib import sx_str, sx_to_pystr

THEOREMS = ['C19_update (Forall2 updated)', 'C19_listing', 'C19_attr (regenerated VALUE_TYPES = value_attr)', 'C19_refused']
RULE = ('generated packages (independent writer) with 0-8 user-field declarations of every value type (string, float, percentage, currency, '
        'date, time, boolean, an unknown type), duplicate names across content.xml and a styles.xml header, next to other body content, '
        'pictures and extra members; update dictionaries: subsets, unknown names, empty, values with markup, quotes, blanks, TAB/LF. '
        'correspondence: list_fields_and_values of the updated package vs the extracted model run on the source declarations. oracle: '
        'new values listed for the named fields in the attribute of their type; every other declaration, the rest of content.xml / '
        'styles.xml (infoset, against a plain load+save of the same source), pictures and extra members unchanged; source bytes unchanged '
        'by update, list, get. non-trivial = an update that names at least one existing field; distinct by (declarations, dictionary).')
TRUSTED = ['load()/save() underneath are properties C04/C05; here they are compared against themselves (plain load+save of the same source)']
ASSUMPTIONS = ['values given to boolean fields are one of true/false/1/0/yes/no (others are refused with ValueError before anything is written)']

TYPES = {'string': 'string-value', 'float': 'value', 'percentage': 'value', 'currency': 'value', 'date': 'date-value', 'time': 'time-value',
         'boolean': 'boolean-value', 'verif-unknown': 'value'}
AIDX = {'value': 0, 'date-value': 1, 'time-value': 2, 'boolean-value': 3, 'string-value': 4}
SAMPLE = {'string': ['x', 'a b', '', 'Hello & <World> "q"'], 'float': ['1.5', '0', '-3'], 'percentage': ['0.25'], 'currency': ['9.99'],
          'date': ['2024-01-02', '1999-12-31T23:59:59'], 'time': ['PT12H30M00S'], 'boolean': ['true', 'false'], 'verif-unknown': ['u']}
NEWVALS = {'string': ['new', 'two  blanks', 'a<b>&"c"\'d\'', 'tab\there', 'line\nbreak', ''], 'float': ['2.75', '1e3'], 'percentage': ['0.5'],
           'currency': ['10.00'], 'date': ['2031-05-06'], 'time': ['PT01H02M03S'], 'boolean': ['true', 'false', 'Yes', '0'], 'verif-unknown': ['v2']}

def gen_decls(rng):
    n = rng.randint(0, 8)
    decls = []
    for i in range(n):
        t = rng.choice(list(TYPES))
        name = rng.choice(['f%d' % i, 'f%d' % i, 'shared', 'Name with blank', 'ümlaut', 'Rate', 'rate', 'RATE'])
        decls.append({'name': name, 'type': t, 'value': rng.choice(SAMPLE[t]), 'cur': 'EUR' if t == 'currency' else None})
    return decls

def decl_xml(d):
    extra = ' office:currency="%s"' % d['cur'] if d['cur'] else ''
    return '<text:user-field-decl office:value-type="%s" office:%s="%s" text:name="%s"%s/>' % (
        d['type'], TYPES[d['type']], P.xml_attr(d['value']), P.xml_attr(d['name']), extra)

def build_package(rng, decls, header_decls, mimetype=P.MT_TEXT):
    body = '<text:user-field-decls>%s</text:user-field-decls><text:p text:style-name="P1">Before <text:user-field-get text:name="f0">x</text:user-field-get> after &amp; &lt;</text:p><text:p/>' % ''.join(decl_xml(d) for d in decls)
    master = ''
    if header_decls:
        master = ('<style:master-page style:name="Standard" style:page-layout-name="pm1"><style:header><text:user-field-decls>%s</text:user-field-decls>'
                  '<text:p>head</text:p></style:header></style:master-page>') % ''.join(decl_xml(d) for d in header_decls)
    auto = '<style:style style:name="P1" style:family="paragraph"><style:paragraph-properties fo:text-align="center"/></style:style>'
    sauto = '<style:page-layout style:name="pm1"><style:page-layout-properties fo:page-width="21cm"/></style:page-layout>' if header_decls else ''
    extra = [('Pictures/p.png', b'\x89PNG fake bytes', 'image/png'), ('Thumbnails/thumbnail.png', b'thumb', ''), ('extra/data.bin', b'\x00\x01\x02', 'application/octet-stream')]
    return P.simple_package(body, autostyles=auto, masterstyles=master, styles_auto=sauto, extra_members=extra, mimetype=mimetype)

def listing(data):
    from odf.userfield import UserFields
    return UserFields(io.BytesIO(data)).list_fields_and_values()

def plain_resave(data):
    from odf.opendocument import load
    d = load(io.BytesIO(data)); out = io.BytesIO(); d.write(out); return out.getvalue()

def strip_decl_values(t):
    """infoset with the value attributes of user-field-decl elements blanked (they are judged separately)"""
    if t[0] != 'E': return t
    atts = t[2]
    if t[1] == (X.TEXTNS, 'user-field-decl'):
        atts = [(a, v) for a, v in atts if not (a[0] == X.OFFICENS and a[1] in AIDX)]
    return ('E', t[1], atts, [strip_decl_values(k) for k in t[3]])

def run(ctx):
    from odf.userfield import UserFields
    d = ctx.get_driver()
    for i in range(60 if ctx.quick else 1200):
        decls = gen_decls(ctx.rng)
        header = [dict(x) for x in decls if x['name'] == 'shared'][:1] if ctx.rng.random() < 0.4 else []
        if header: header[0]['value'] = ctx.rng.choice(SAMPLE[header[0]['type']])
        # every kind of text document in turn: a template stays a template, a master document a master document
        mt = ['application/vnd.oasis.opendocument.text', 'application/vnd.oasis.opendocument.text-template', 'application/vnd.oasis.opendocument.text-master', 'application/vnd.oasis.opendocument.text-web'][i % 4]
        src = build_package(ctx.rng, decls, header, mt)
        alld = decls + header            # load order: content.xml before styles.xml
        names = sorted(set(x['name'] for x in alld))
        data = {}
        for nm in ctx.rng.sample(names, ctx.rng.randint(0, len(names))) if names else []:
            t = [x['type'] for x in alld if x['name'] == nm][0]
            data[nm] = ctx.rng.choice(NEWVALS[t])
        if ctx.rng.random() < 0.5: data['no-such-field'] = 'zzz'
        if i % 4 == 2 and names: data[names[i % len(names)].swapcase()] = 'case-variant'      # another name, not this field
        strs = [x['name'] for x in alld if x['type'] == 'string' and x['value'] != '']
        if strs and i % 3 == 0: data[strs[i % len(strs)]] = ''          # blanking a field is an update like any other
        before = bytes(src)
        out = io.BytesIO()
        try:
            UserFields(io.BytesIO(src), out).update(dict(data)); raised = None
        except ValueError: raised = 'ValueError'
        except Exception as e: raised = 'Other:' + type(e).__name__
        # model
        msrc = '(' + ' '.join('(%s %s ((%d %s)) ())' % (sx_str(x['name']), sx_str(x['type']), AIDX[TYPES[x['type']]],
                                                         sx_str('false' if x['type'] == 'boolean' and x['value'] == 'false' else x['value'])) for x in alld) + ')'
        mdata = '(' + ' '.join('(%s %s)' % (sx_str(k), sx_str(v)) for k, v in data.items()) + ')'
        m = d.call('uf_update', mdata, msrc)
        case = {'decls': alld, 'data': data}
        if raised:
            ctx.corr('update outcome', case, m, ['Raise', raised]); continue
        got = [(a, b, c) for a, b, c in listing(out.getvalue())]
        mrows = [(sx_to_pystr(r[0]), sx_to_pystr(r[1]), None if r[2] == 'None' else sx_to_pystr(r[2][1])) for r in m[1]] if m[0] == 'Ok' else m
        ctx.corr('list_fields_and_values after update', case, mrows, got)
        # ---- oracle -----------------------------------------------------------------------------
        ctx.oracle_cases += 1
        if src != before: ctx.violation('source-modified', case, 'source bytes changed', 'unchanged', {})
        want = []
        for x in alld:
            v = x['value']
            if x['name'] in data:
                v = data[x['name']]
                if x['type'] == 'boolean': v = {'yes': 'true', '1': 'true', 'true': 'true', 'no': 'false', '0': 'false', 'false': 'false'}[v.lower()]
            want.append((x['name'], x['type'], v))
        if sorted(got, key=str) != sorted(want, key=str) or [g[0] for g in got] != [w[0] for w in want]:
            ctx.violation('fields-after-update', case, got, want, {})
        # everything else: as a plain load+save of the same source
        ref = P.read_package(plain_resave(src)); upd = P.read_package(out.getvalue())
        for part in ('content.xml', 'styles.xml', 'settings.xml'):
            a = X.expat_parse(ref['members'][part]); b = X.expat_parse(upd['members'].get(part, b''))
            if a[0] != 'ok' or b[0] != 'ok' or strip_decl_values(a[1]) != strip_decl_values(b[1]):
                ctx.violation('rest-of-document-changed', dict(case, part=part), 'differs from plain load+save', 'same infoset outside the value attributes', {'part': part})
        for name in ('mimetype', 'Pictures/p.png', 'Thumbnails/thumbnail.png', 'extra/data.bin'):
            if upd['members'].get(name) != ref['members'].get(name):
                ctx.violation('member-changed', dict(case, member=name), upd['members'].get(name), ref['members'].get(name), {'member': name})
        if sorted(upd['manifest'] or []) != sorted(ref['manifest'] or []):
            ctx.violation('manifest-changed', case, upd['manifest'], ref['manifest'], {})
        # one UserFields object used for several operations: each one starts from the source again
        o1 = io.BytesIO(); o2 = io.BytesIO()
        uo = UserFields(io.BytesIO(src), o1)
        d1 = {k: v for k, v in list(data.items())[:1]}
        d2 = {k: v for k, v in list(data.items())[1:]}
        try:
            uo.update(dict(d1)); uo.dest_file = o2; uo.update(dict(d2))
            after_both = uo.list_fields_and_values()
            want2 = []
            for x in alld:
                v = x['value']
                if x['name'] in d2:
                    v = d2[x['name']]
                    if x['type'] == 'boolean': v = {'yes': 'true', '1': 'true', 'true': 'true', 'no': 'false', '0': 'false', 'false': 'false'}[v.lower()]
                want2.append((x['name'], x['type'], v))
            got2 = list(listing(o2.getvalue()))
            if got2 != want2:
                ctx.violation('second-update-of-same-object', dict(case, first=d1, second=d2), got2, want2, {})
            srcl = list(listing(src))
            if list(after_both) != srcl:
                ctx.violation('listing-after-update-of-same-object', dict(case, first=d1, second=d2), list(after_both), srcl, {})
        except ValueError:
            pass
        # reading never modifies the source
        u = UserFields(io.BytesIO(src)); u.list_fields(); u.list_values(names[:2]); u.get(names[0] if names else 'x'); u.get_type_and_value('nope')
        if src != before: ctx.violation('source-modified', case, 'source bytes changed by list/get', 'unchanged', {})
        if any(k in names for k in data): ctx.nt((repr(alld), repr(sorted(data.items()))))
        ctx.bump('decls=%d' % len(alld)); ctx.bump('named=%d' % sum(1 for k in data if k in names))
        if i < 2: ctx.sample({'decls': alld, 'update': data, 'listing_after': got})
    # tie of the VALUE_TYPES table as the oracle sees it
    from odf.userfield import VALUE_TYPES
    for t, (ns, local) in VALUE_TYPES.items():
        ctx.oracle_cases += 1
        if TYPES.get(t) != local: ctx.violation('value-types-table', t, local, TYPES.get(t), {})

def replay(ctx, case):
    import json
    print(json.dumps(case, indent=1)[:3000]); return 1
