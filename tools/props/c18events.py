# c18events.py — record the writer calls of a real ODF2XHTML conversion and express them as the events of coq/model/HtmlDoc.v.
# Nothing in /repo is changed: the four writer primitives and writeout() are wrapped on the converter *instance*.
import re
from xml.sax.saxutils import escape, unescape, quoteattr
from vlib import sx_str

DOCTYPE = '<!DOCTYPE html PUBLIC "-//W3C//DTD XHTML 1.1//EN" "http://www.w3.org/TR/xhtml11/DTD/xhtml11.dtd">\n'
CSS_OPEN = '/*<![CDATA[*/\n'
CSS_CLOSE = '/*]]>*/\n'
SPLIT = ']]]]><![CDATA[>'

class Recorder:
    """wraps, on the instance, the four writer primitives (to know the calls) and the two sinks every string ends up in
    (_wlines: the output; collectnote: the body of the current note), so that literal writes are seen as they are written"""
    def __init__(self, conv):
        self.c = conv; self.main = []; self.notes = {}; self.depth = 0
        o_open, o_close, o_empty, o_data = conv.opentag, conv.closetag, conv.emptytag, conv.writedata
        o_lines, o_note = conv._wlines, conv.collectnote
        def note(): return self.notes.setdefault(conv.currentnote, {'events': [], 'text': []})
        def in_note(): return getattr(conv._wfunc, '__name__', '') == 'note_sink' or conv._wfunc is self.note_sink
        def prim(orig, mk):
            def f(*a, **k):
                ev = mk(*a, **k)
                if ev is not None: (note()['events'] if in_note() else self.main).append(ev)
                self.depth += 1
                try: return orig(*a, **k)
                finally: self.depth -= 1
            return f
        conv.opentag = prim(o_open, lambda tag, attrs={}, block=False: ('open', tag, list(attrs.items()), bool(block)))
        conv.closetag = prim(o_close, lambda tag, block=True: ('close', tag, bool(block)))
        conv.emptytag = prim(o_empty, lambda tag, attrs={}: ('empty', tag, list(attrs.items())))
        conv.writedata = prim(o_data, lambda: (('data', ''.join(conv.data)) if ''.join(conv.data) != '' else None))
        def line_sink(s):
            if s != '' and self.depth == 0: self.main.append(('raw', s))
            return o_lines(s)
        def note_sink(s):
            if s != '':
                note()['text'].append(s)
                if self.depth == 0: note()['events'].append(('raw', s))
            return o_note(s)
        self.note_sink = note_sink
        conv._wlines = line_sink; conv.collectnote = note_sink

class Unmodelled(Exception):
    pass

def unsplit(s): return s.replace(SPLIT, ']]>')

def model_events(rec):
    """recorded calls -> (prologue, events of HtmlDoc.hev); raises Unmodelled with the raw text no event stands for"""
    notes = {k: (v['events'], ''.join(v['text'])) for k, v in rec.notes.items()}
    def conv_list(evs, top):
        out = []; i = 0; prologue = ''
        while i < len(evs):
            e = evs[i]
            if e[0] != 'raw': out.append(e); i += 1; continue
            s = e[1]
            if top and not out and DOCTYPE.startswith(prologue + s): prologue += s; i += 1; continue
            if s == CSS_OPEN:
                j = i + 1; mid = []
                while j < len(evs) and not (evs[j][0] == 'raw' and evs[j][1] == CSS_CLOSE):
                    if evs[j][0] != 'raw': raise Unmodelled('a writer call inside the style sheet: %r' % (evs[j],))
                    mid.append(evs[j][1]); j += 1
                if j == len(evs): raise Unmodelled('style sheet not closed')
                out.append(('css', unsplit(''.join(mid)))); i = j + 1; continue
            if s == '&#160;': out.append(('nbsp',)); i += 1; continue
            m = re.match(r'^<title>(.*)</title>\n$', s, re.S)
            if m and '<' not in m.group(1):
                out.append(('open', 'title', [], False))
                if m.group(1): out.append(('data', unescape(m.group(1))))
                out.append(('close', 'title', True)); i += 1; continue
            m = re.match(r'^<meta (name|http-equiv)="([\w-]+)" content=(.*)/>\n$', s, re.S)
            if m:
                q = m.group(3)
                if len(q) >= 2 and q[0] == q[-1] and q[0] in '"\'':
                    v = unescape(q[1:-1], {'&quot;': '"', '&#10;': '\n', '&#13;': '\r', '&#9;': '\t'})
                    if quoteattr(v) == q:
                        out.append(('empty', 'meta', [(m.group(1), m.group(2)), ('content', v)])); i += 1; continue
            m = re.match(r'^<link rel="stylesheet" type="text/css" href="([^"<&]*)"( media="([^"<&]*)")?/>\n$', s)
            if m:
                a = [('rel', 'stylesheet'), ('type', 'text/css'), ('href', m.group(1))] + ([('media', m.group(3))] if m.group(2) else [])
                out.append(('empty', 'link', a)); i += 1; continue
            hit = [k for k, (ne, nt) in notes.items() if nt == s and nt != '']
            if hit and '<' in s:
                sub, _ = conv_list(notes[hit[0]][0], False); out += sub; i += 1; continue
            if '<' not in s and escape(unescape(s)) == s:
                out.append(('data', unescape(s))); i += 1; continue
            raise Unmodelled(s[:200])
        return out, prologue
    return conv_list(rec.main, True)

def events_sx(evs):
    def atts(a): return '(' + ' '.join('(%s %s)' % (sx_str(k), sx_str(v)) for k, v in a) + ')'
    out = []
    for e in evs:
        if e[0] == 'open': out.append('(open %s %s %d)' % (sx_str(e[1]), atts(e[2]), 1 if e[3] else 0))
        elif e[0] == 'close': out.append('(close %s %d)' % (sx_str(e[1]), 1 if e[2] else 0))
        elif e[0] == 'empty': out.append('(empty %s %s)' % (sx_str(e[1]), atts(e[2])))
        elif e[0] == 'data': out.append('(data %s)' % sx_str(e[1]))
        elif e[0] == 'nbsp': out.append('(nbsp)')
        elif e[0] == 'css': out.append('(css %s)' % sx_str(e[1]))
        else: raise ValueError(e)
    return '(' + ' '.join(out) + ')'

def expected_parse(evs):
    """what the theorem says a parser sees: the tag calls in order, and the character data between them"""
    tags = []; text = []
    for e in evs:
        if e[0] == 'open': tags.append(('s', e[1], sorted(e[2]))); text.append('\n' if e[3] else '')
        elif e[0] == 'close': tags.append(('e', e[1])); text.append('\n' if e[2] else '')
        elif e[0] == 'empty': tags.append(('s', e[1], sorted(e[2]))); tags.append(('e', e[1])); text.append('\n')
        elif e[0] == 'data': text.append(e[1])
        elif e[0] == 'nbsp': text.append(' ')
        elif e[0] == 'css': text.append('/**/\n' + e[1] + '/**/\n')
    return tags, ''.join(text)

def expat_parse(s):
    import xml.parsers.expat
    p = xml.parsers.expat.ParserCreate()
    tags = []; text = []
    p.StartElementHandler = lambda n, a: tags.append(('s', n, sorted(a.items())))
    p.EndElementHandler = lambda n: tags.append(('e', n))
    p.CharacterDataHandler = lambda d: text.append(d)
    p.Parse(s.encode('utf-8'), True)
    return tags, ''.join(text)
