# C14 — namespaces keep their identity; output is independent of process history.
import io, os, sys, json, subprocess
import vlib, xmllib as X, pkglib as P
from vlib import sx_str, sx_to_pystr
from . import c14_docs, C01

THEOREMS = [
 'C14_invariant: for all op histories, env_ok F (nsp (reach ops)) /\\ env_ok2 (nsp (reach ops))  (NCName prefixes, bijection, no xmlns, no empty namespace)',
 'C14_empty_namespace_never_bound', 'C14_monotone: bindings are only added',
 'C14_history: xml_parse of the serialisation is the same under any two reachable tables',
 'C14_unqualified: tag_of env ([], l) = l', 'C14_value_prefix: a known prefix inside a value gets its namespace declared under that prefix',
 'C14_value_prefix_unknown: an unknown prefix inside a value declares nothing (known finding)',
]
RULE = ('correspondence: random histories of get_nsprefix / cnv_formula(__save_prefix) calls on the real process state vs the extracted '
        'ns_step from the same starting tables (nsdict and Element.namespaces compared entry by entry, returned prefixes compared). '
        'oracle: a fixed family of documents (API-built with foreign namespaces, unqualified attributes, formulas; synthetic packages; all '
        'tests/examples packages) rendered in a FRESH subprocess and again in this process after a shuffled history of library uses: '
        'infosets compared; every root element\'s declarations checked for prefix/namespace bijection, no empty namespace, formula '
        'prefixes declared and bound to the same namespace as in the source. non-trivial = a history step that changes a table, or a '
        'document rendering compared.')
TRUSTED = ['modelled, not verified: dict.setdefault / insertion order, str(int), str.split']
ASSUMPTIONS = ['namespace names handed to the library contain no code point the filter replaces (op_ok); such names come from XML parsers or constants']

def real_tables():
    from odf.element import Element
    from odf.namespaces import nsdict
    return list(nsdict.items()), list(Element.namespaces.items())

def run(ctx):
    from odf.element import Element
    from odf.attrconverters import cnv_formula
    from odf import text
    d = ctx.get_driver()
    # ---- fresh-process reference ---------------------------------------------------
    child = subprocess.run([vlib.PY, os.path.join(os.path.dirname(__file__), 'c14_docs.py')], env=vlib.env_for_repo(),
                           stdout=subprocess.PIPE, stderr=subprocess.PIPE, text=True, timeout=600)
    if child.returncode != 0:
        ctx.corr_mismatch.append({'what': 'fresh subprocess failed', 'case': None, 'model': None, 'impl': child.stderr[-2000:]}); return
    child_out = json.loads(child.stdout)
    fresh = child_out['docs']
    judge_value_prefixes(ctx, child_out['value_prefix'], 'fresh process')
    # ---- correspondence: op histories ------------------------------------------------
    probe = text.P()
    pool = ['urn:verif:c14:%d' % i for i in range(12)] + ['', None, X.TEXTNS, 'http://www.w3.org/1999/xlink', 'urn:q"uote\'s', 'urn:amp&<>']
    args = ['of:=A1', 'ooow:x', 'nocolon', 'unknownp:rest', 'xlink:href', ':lead', 'ns42:x', 'msoxl:=SUM(A1)', 'of:', 'text:p:q']
    # one package of the family loaded ahead of the histories: the namespaces every such package uses (office, meta, dc, config ...)
    # are in the table of used namespaces from here on, so that a load inside a history adds its foreign namespace and nothing else
    from odf.opendocument import load as load_
    load_(io.BytesIO(C01.foreign_package('ext', 'urn:verif:warm')))
    for h in range(60 if ctx.quick else 1500):
        nd0, nsp0 = real_tables()
        ops = []; rets = []
        for _ in range(ctx.rng.randint(1, 6)):
            if h % 3 == 0 and ctx.rng.random() < 0.4:
                # a package that binds a prefix of the library's own making (nsK, as a file written in another run does) to a foreign
                # namespace: K a little ahead of, at, or behind the size of the table. To the tables, loading it is a request for a prefix
                # for that namespace and nothing else - the prefix the file uses plays no part
                from odf.opendocument import load
                ns = 'urn:verif:rnd:%d' % ctx.rng.randint(0, 10 ** 6) if ctx.rng.random() < 0.7 else ctx.rng.choice(pool[:12])
                k = len(real_tables()[0]) + ctx.rng.choice([-1, 0, 1, 1, 2, 3])
                load(io.BytesIO(C01.foreign_package('ns%d' % k, ns)))
                ops.append(['P', ns]); rets.append(None); ctx.bump('history-op=load(ns%+d)' % (k - len(real_tables()[0]) + 1))
            elif ctx.rng.random() < 0.65:
                ns = ctx.rng.choice(pool) if ctx.rng.random() < 0.8 else 'urn:verif:rnd:%d' % ctx.rng.randint(0, 10 ** 6)
                rets.append(probe.get_nsprefix(ns)); ops.append(['P', ns or ''])
            else:
                a = ctx.rng.choice(args)
                cnv_formula((X.TEXTNS, 'formula'), a, probe); ops.append(['S', a]); rets.append(None)
        nd1, nsp1 = real_tables()
        m = d.call('ns_run', X.env_sx(nd0), X.env_sx(nsp0), '(' + ' '.join('(%s %s)' % (o[0], sx_str(o[1])) for o in ops) + ')')
        mnd = [(sx_to_pystr(a), sx_to_pystr(b)) for a, b in m[0]]; mnsp = [(sx_to_pystr(a), sx_to_pystr(b)) for a, b in m[1]]
        ctx.corr('nsdict after history', ops, mnd, nd1)
        ctx.corr('Element.namespaces after history', ops, mnsp, nsp1)
        if (nd1, nsp1) != (nd0, nsp0): ctx.nt(('ops', repr(ops)))
        ctx.bump('history-len=%d' % len(ops))
    ctx.sample({'ops': ops, 'tables_after': [nd1[-2:], nsp1[-2:]]})
    # returned prefix of a single call
    for ns in pool + ['urn:verif:single']:
        nd0, nsp0 = real_tables()
        ctx.corr('get_nsprefix return value', ns, sx_to_pystr(d.call('ns_prefix', X.env_sx(nd0), X.env_sx(nsp0), sx_str(ns or ''))), probe.get_nsprefix(ns))
    # ---- history, then the same document family ----------------------------------------
    from odf.opendocument import load
    steps = [lambda: load(io.BytesIO(C01.foreign_package('ext', 'urn:verif:H1'))), lambda: load(io.BytesIO(C01.foreign_package('ext', 'urn:verif:H2'))),
             lambda: load(io.BytesIO(C01.foreign_package('h3', 'urn:verif:H3', unq=True, default_ns=True))),
             lambda: Element(qname=('urn:verif:hist:%d' % ctx.rng.randint(0, 999), 'n'), check_grammar=False),
             lambda: Element(qname=(X.TEXTNS, 'p'), qattributes={(None, 'plain'): 'v', ('', 'p2'): 'w'}, check_grammar=False),
             lambda: c14_docs.render_all()]
    ctx.rng.shuffle(steps)
    for s in steps:
        try: s()
        except Exception as e: ctx.bump('history-step-raised:' + type(e).__name__)
    after = c14_docs.render_all()
    for name in sorted(fresh):
        ctx.oracle_cases += 1
        f, a = fresh[name], after.get(name)
        if a is None or 'raised' in f or 'raised' in (a or {}):
            if a != f: ctx.violation('history-dependence', name, a, f, {'cause': 'raised-differently'})
            continue
        fi = json.loads(json.dumps(f['infoset'])); ai = json.loads(json.dumps(a['infoset']))
        if fi != ai:
            ctx.violation('history-dependence', {'document': name}, 'infoset after history differs from fresh process', 'same infoset', {'cause': 'infoset'})
        for tag, decls in (('fresh', f['decls']), ('after-history', a['decls'])):
            check_decls(ctx, name + ' (' + tag + ')', decls)
        ctx.nt(('doc', name))
    # ---- prefixes inside attribute values -------------------------------------------------
    value_prefixes(ctx)
    unqualified_stay(ctx)

def unqualified_stay(ctx):
    """an attribute without a prefix is in no namespace, on an ODF element, on a MathML element, on a foreign element alike - before
    and after load and save"""
    from odf.opendocument import load
    MATH = 'http://www.w3.org/1998/Math/MathML'
    body = ('<text:p plain="u" other="v">c</text:p><text:p><draw:frame><draw:object><math:math display="block"><math:mi mathvariant="bold">x</math:mi></math:math>'
            '</draw:object></draw:frame></text:p><text:p><ext:box kind="k" ext:q="w">y</ext:box></text:p>')
    want = {('p', 'plain'): 'u', ('p', 'other'): 'v', ('math', 'display'): 'block', ('mi', 'mathvariant'): 'bold', ('box', 'kind'): 'k'}
    doc = load(io.BytesIO(P.simple_package(body, extra_ns={'math': MATH, 'ext': 'urn:verif:ext'})))
    for label, data in (('contentxml()', doc.contentxml()), ('xml()', doc.xml())):
        t = X.expat_parse(data); ctx.oracle_cases += 1
        if t[0] != 'ok':
            ctx.violation('not-well-formed', label, t[1], 'well-formed', {'cause': 'illformed'}); continue
        found = {}
        def walk(n):
            if n[0] != 'E': return
            for a, v in n[2]:
                if (n[1][1], a[1]) in want: found[(n[1][1], a[1])] = (a[0], v)
            for k in n[3]: walk(k)
        walk(t[1])
        bad = {k: found.get(k) for k in want if found.get(k) != ('', want[k])}
        if bad: ctx.violation('unqualified-attribute-moved', {'rendering': label, 'source': body}, {str(k): v for k, v in bad.items()}, 'each in no namespace, value kept', {})
        ctx.nt(('unqualified', label))

def check_decls(ctx, name, decls):
    decls = [tuple(x) for x in decls]
    if decls and decls[0][0] == 'ILLFORMED':
        ctx.violation('not-well-formed', name, decls[0][1], 'well-formed', {'cause': 'illformed'}); return
    pf = [p for p, u in decls]; us = [u for p, u in decls]
    if len(set(pf)) != len(pf): ctx.violation('prefix-bound-twice', name, sorted(p for p in set(pf) if pf.count(p) > 1), 'each prefix once', {})
    if len(set(us)) != len(us): ctx.violation('namespace-bound-twice', name, sorted(u for u in set(us) if us.count(u) > 1), 'each namespace once', {})
    if any(not u for u in us): ctx.violation('empty-namespace-bound', name, decls, 'never', {})

def value_prefixes(ctx):
    judge_value_prefixes(ctx, c14_docs.value_prefix_results(), 'after history')

def judge_value_prefixes(ctx, results, when):
    """the prefix used in the value must be declared and bound to the namespace the source bound it to"""
    for r in results:
        ctx.oracle_cases += 1
        val = r['value']; decls = dict(tuple(x) for x in r['decls'])
        used = val.split(':', 1)[0] if val and ':' in val else None
        if val is None or used is None:
            ctx.violation('value-prefix', {'case': r['case'], 'formula': r['formula'], 'when': when}, val, 'value kept', {'kind': r['case']}); continue
        if decls.get(used) != r['uri']:
            ctx.violation('value-prefix', {'case': r['case'], 'formula': r['formula'], 'declared_in_source': r['prefix'] + '=' + r['uri'], 'when': when},
                          {'value': val, 'prefix_bound_to': decls.get(used)}, 'prefix %r declared and bound to %s' % (used, r['uri']), {'kind': r['case']})
        ctx.nt(('value-prefix', r['case'], when))

def find_formula(t):
    if t[0] != 'E': return None
    for a, v in t[2]:
        if a[1] == 'formula': return v
    for k in t[3]:
        r = find_formula(k)
        if r is not None: return r
    return None

def replay(ctx, case):
    print(json.dumps(case, indent=1)[:3000]); return 1
