# C16 — references to embedded sub-documents resolve to where they are stored.
import io, os
import vlib, xmllib as X, pkglib as P
from vlib import sx_str, sx_to_pystr
from . import pkgcommon as PC, C03

THEOREMS = ['C16_reference', 'C16_stored_where_referenced', 'C16_object_pictures', 'C16_load_save', 'C16_other_files']
RULE = ('attachment histories (several objects, default and explicit names with and without leading slash, nesting, objects with pictures, '
        'parent-first and child-first order) and loaded packages whose object folders are numbered non-contiguously / above 99 / nested / '
        'listed in any manifest order. correspondence: folder and reference returned by addObject vs add_object; classification of every '
        'manifest entry by load() vs classify; archive vs save_m. oracle: strip "./" from each returned reference: that folder holds the '
        'object\'s content.xml and styles.xml (the object is recognised by a marker paragraph) and is declared with its media type, its '
        'pictures are below it; after load+save every draw:object href of the source still names a folder holding the same marker, '
        'pictures and other files of the folder byte-identical. non-trivial = at least one embedded object; distinct by history.')
TRUSTED = C03.TRUSTED
ASSUMPTIONS = ['objects are attached parent first when default names are used (child-first attachment is exercised and reported separately)',
               'object folders are distinct (two objects given the same explicit name are a caller error)']

def marker(doc, text_):
    from odf import text
    from odf.opendocument import OpenDocument
    top = doc.body.firstChild
    try: top.addElement(text.P(text=text_), check_grammar=False)
    except Exception: doc.body.addElement(text.P(text=text_), check_grammar=False)

def run(ctx):
    from odf.opendocument import OpenDocumentText, OpenDocumentChart, OpenDocumentSpreadsheet, load
    from odf import text, draw
    d = ctx.get_driver()
    # ---- API histories --------------------------------------------------------------------------
    for i in range(60 if ctx.quick else 1000):
        child_first = ctx.rng.random() < 0.15
        h = PC.Hist(ctx, ctx.scratch, parent_first=True)
        for k, doc in enumerate(h.docs[1:]):
            marker(doc, 'MARK-%d' % k)
            # reference / folder vs the model
        # correspondence of addObject itself on fresh objects
        par = OpenDocumentText(); par.folder = ctx.rng.choice(['', '/Object 3', '/X y'])
        # siblings with folders of every kind: numbered as a loaded package may have them, named by a caller, default ones
        for _ in range(ctx.rng.randint(0, 4)):
            k_ = OpenDocumentChart(); k_.folder = ctx.rng.choice([par.folder + '/Object %d' % ctx.rng.randint(1, 6), '/Name', par.folder + '/Object 2', par.folder + '/Object 3']); par.childobjects.append(k_)
        nm = ctx.rng.choice([None, None, None, 'Name', '/Slashed', 'Object 12', ''])
        ch = OpenDocumentChart(); taken = [k_.folder for k_ in par.childobjects]
        ref = par.addObject(ch, nm)
        m = d.call('pkg_addobject', sx_str(par.folder), '(' + ' '.join(sx_str(t_) for t_ in taken) + ')', 'None' if nm is None else '(Some %s)' % sx_str(nm))
        ctx.corr('addObject folder/reference', {'parent_folder': par.folder, 'sibling_folders': taken, 'name': nm}, [sx_to_pystr(m[0]), sx_to_pystr(m[1])], [ch.folder, ref])
        try:
            data = h.save()
            if i % 3 == 2: data = h.save()        # the same document saved again: the second package is judged
        except Exception as e:
            ctx.oracle_cases += 1
            ctx.violation('save-raised', {'history': C03.describe(h)}, repr(e)[:300], 'a package', {'exception': type(e).__name__}); continue
        PC.corr_package(ctx, h.root, data, 'C16')
        pk = P.read_package(data)
        case = {'history': C03.describe(h), 'saved': 2 if i % 3 == 2 else 1}
        for dsub in h.docs[1:]:
            if dsub.settings.childNodes and C03.reachable(h.root, dsub) and dsub.folder[1:] + '/settings.xml' not in pk['members']:
                ctx.violation('object-settings-lost', dict(case, object=dsub.folder), sorted(m for m in pk['members'] if m.startswith(dsub.folder[1:] + '/')), 'settings.xml in the folder of the object', {})
        for k, doc in enumerate(h.docs[1:]):
            ctx.oracle_cases += 1
            ref = h.refs[id(doc)]
            folder = ref[2:] + '/' if ref.startswith('./') else None
            ok = folder is not None and folder + 'content.xml' in pk['members'] and folder + 'styles.xml' in pk['members'] and \
                 ('MARK-%d' % k).encode() in pk['members'][folder + 'content.xml'] and dict(pk['manifest']).get(folder) == doc.mimetype
            if not ok:
                ctx.violation('reference-does-not-resolve', dict(case, object=k, reference=ref), {'members': [n for n in pk['order'] if 'content.xml' in n]},
                              'content.xml + styles.xml of that object in the named folder, declared ' + doc.mimetype, {'order': 'parent-first'})
            for dd, nm_, dt, mt in h.picrefs:
                if dd is doc and pk['members'].get(folder + nm_ if folder else nm_) != dt:
                    ctx.violation('object-picture-not-in-its-folder', dict(case, object=k, picture=nm_), sorted(n for n in pk['order'] if nm_ in n), (folder or '') + nm_, {})
        if len(h.docs) > 1: ctx.nt(repr(case))
        if i < 2: ctx.sample(case)
    # ---- every attached object has a folder of its own ---------------------------------------------
    def distinct(label, parent, case):
        ctx.oracle_cases += 1
        folders = [k.folder for k in parent.childobjects]
        if len(set(folders)) != len(folders):
            ctx.violation('two-objects-one-folder', dict(case, how=label), folders, 'a folder of its own for every attached object', {'how': label})
        b = io.BytesIO()
        import warnings
        with warnings.catch_warnings():
            warnings.simplefilter('ignore')
            try: parent.write(b)
            except Exception as e:
                ctx.violation('save-raised', dict(case, how=label), repr(e)[:200], 'a package', {'exception': type(e).__name__}); return
        names = P.read_package(b.getvalue())['order']
        dups = sorted(set(n for n in names if names.count(n) > 1))
        if dups: ctx.violation('member-name-twice', dict(case, how=label), dups[:4], 'each member once', {'how': label})
    for explicit in ('Object 1', 'Object 2', 'Object 3', '/Object 2'):
        for before in (0, 1, 2):
            if int(explicit[-1]) <= before: continue          # (a name the caller gives twice is the caller's error, like a node put into itself)
            par = OpenDocumentText(); marker(par, 'P')
            for _ in range(before): par.addObject(OpenDocumentChart())
            par.addObject(OpenDocumentSpreadsheet(), explicit)
            r1 = par.addObject(OpenDocumentChart()); r2 = par.addObject(OpenDocumentChart())
            distinct('an explicit name that looks like a default one, then default names', par, {'explicit': explicit, 'objects_before': before, 'then': [r1, r2]})
    par = OpenDocumentText(); sub = OpenDocumentChart(); ra = par.addObject(sub); rb = par.addObject(sub)
    distinct('the same sub-document attached twice', par, {'references': [ra, rb]})
    for nums in ([2], [3, 7], [1, 3], [2, 1]):
        c = lambda n: P.content_xml('<text:p>OBJ-%d</text:p>' % n); s_ = P.styles_xml()
        members = [('content.xml', P.content_xml(''.join('<text:p><draw:frame><draw:object xlink:href="./Object %d"/></draw:frame></text:p>' % n for n in nums)), 'text/xml'), ('styles.xml', s_, 'text/xml')]
        for n in nums: members += [('Object %d/' % n, '', C03.MIMEC), ('Object %d/content.xml' % n, c(n), 'text/xml'), ('Object %d/styles.xml' % n, s_, 'text/xml')]
        doc = load(io.BytesIO(P.make_package(members)))
        r = doc.addObject(OpenDocumentChart())
        distinct('a loaded package, then addObject', doc, {'loaded_object_numbers': nums, 'new_reference': r})
    # ---- loaded packages ---------------------------------------------------------------------------
    for i in range(40 if ctx.quick else 600):
        nums = ctx.rng.sample([1, 2, 3, 5, 7, 10, 12, 42, 100, 2024], ctx.rng.randint(1, 4))
        c = lambda n: P.content_xml('<text:p>OBJ-%d</text:p>' % n); s = P.styles_xml()
        body = ''.join('<text:p><draw:frame><draw:object xlink:href="./Object %d"/></draw:frame></text:p>' % n for n in nums)
        members = [('content.xml', P.content_xml(body), 'text/xml'), ('styles.xml', s, 'text/xml'), ('meta.xml', P.meta_xml(), 'text/xml')]
        extra_files = {}; with_settings = set(); mathml = set()
        for n in nums:
            if i % 4 == 2 and n == nums[0]:
                # a formula as office suites write it: content.xml is plain MathML (no office:document-content around it), no styles.xml
                fm = '<?xml version="1.0" encoding="UTF-8"?>\n<math xmlns="http://www.w3.org/1998/Math/MathML"><semantics><mi>OBJ-%d</mi><annotation encoding="StarMath 5.0">x</annotation></semantics></math>' % n
                members += [('Object %d/' % n, '', PC.MIMES.get('formula', 'application/vnd.oasis.opendocument.formula')), ('Object %d/content.xml' % n, fm, 'text/xml'),
                            ('Object %d/settings.xml' % n, P.settings_xml(), 'text/xml')]
                mathml.add(n); with_settings.add(n); extra_files['Object %d/content.xml' % n] = (fm.encode(), 'text/xml')
                continue
            members += [('Object %d/' % n, '', C03.MIMEC if n % 2 else PC.MIMES['sheet']), ('Object %d/content.xml' % n, c(n), 'text/xml')]
            if not (i % 3 == 1 and n == nums[0]):           # every third package: an object written without a styles.xml of its own
                members.append(('Object %d/styles.xml' % n, s, 'text/xml'))
            if (i + n) % 2:          # settings of its own (as a chart or a formula written by an office suite has)
                members.append(('Object %d/settings.xml' % n, P.settings_xml(), 'text/xml')); with_settings.add(n)
            if ctx.rng.random() < 0.6:
                members.append(('Object %d/Pictures/p.png' % n, b'PIC%d' % n, 'image/png')); extra_files['Object %d/Pictures/p.png' % n] = (b'PIC%d' % n, 'image/png')
            if (i + n) % 3 == 0:      # a preview picture of its own, in its own folder
                members.append(('Object %d/Thumbnails/thumbnail.png' % n, b'THUMB%d' % n, 'image/png')); extra_files['Object %d/Thumbnails/thumbnail.png' % n] = (b'THUMB%d' % n, 'image/png')
            if ctx.rng.random() < 0.3:
                members.append(('Object %d/data.bin' % n, b'BIN%d' % n, 'application/octet-stream')); extra_files['Object %d/data.bin' % n] = (b'BIN%d' % n, 'application/octet-stream')
            if ctx.rng.random() < 0.3:
                members += [('Object %d/Object 1/' % n, '', C03.MIMEC), ('Object %d/Object 1/content.xml' % n, c(1000 + n), 'text/xml'), ('Object %d/Object 1/styles.xml' % n, s, 'text/xml')]
        if i % 5 == 0:      # pictures of the top document in a folder below Pictures/, the folders listed in the manifest
            members += [('Pictures/', '', ''), ('Pictures/sub/', '', ''), ('Pictures/sub/q.png', b'QPIC', 'image/png')]; extra_files['Pictures/sub/q.png'] = (b'QPIC', 'image/png')
        order = list(range(len(members) + 1)); ctx.rng.shuffle(order)
        src = P.make_package(members, manifest_order=order)
        sp = P.read_package(src)
        # classification of every manifest entry: model vs what load() does with it (observed through the result)
        try: doc = load(io.BytesIO(src))
        except Exception as e:
            ctx.oracle_cases += 1
            ctx.violation('load-raised', {'manifest': sp['manifest']}, repr(e)[:200], 'the package loads', {'exception': type(e).__name__}); continue
        msx = '(' + ' '.join('(%s %s)' % (sx_str(p), sx_str(mt or '')) for p, mt in sp['manifest']) + ')'
        loaded_objs = sorted(k.folder[1:] + '/' for k in doc.childobjects)
        fsx = P.foreign_folders_sx(sp, d)
        model_objs = sorted(p for p, mt in sp['manifest'] if d.call('pkg_classify', msx, fsx, sx_str(p)) == 'object')
        ctx.corr('load(): which manifest entries are embedded objects', [p for p, _ in sp['manifest']], model_objs, loaded_objs)
        model_extra = sorted(p for p, mt in sp['manifest'] if d.call('pkg_classify', msx, fsx, sx_str(p)) == 'extra')
        ctx.corr('load(): which manifest entries are opaque members', [p for p, _ in sp['manifest']], model_extra, sorted(o.filename for o in doc._extra))
        out = io.BytesIO(); doc.write(out)
        pk = P.read_package(out.getvalue())
        case = {'object_numbers': nums, 'manifest_order': order}
        ctx.oracle_cases += 1
        t = X.expat_parse(pk['members']['content.xml'])
        hrefs = sorted(find_hrefs(t[1])) if t[0] == 'ok' else []
        if hrefs != sorted('./Object %d' % n for n in nums):
            ctx.violation('object-references-changed', case, hrefs, sorted('./Object %d' % n for n in nums), {})
        for n in nums:
            folder = 'Object %d/' % n
            got = pk['members'].get(folder + 'content.xml', b'')
            if ('OBJ-%d<' % n).encode() not in got or dict(pk['manifest']).get(folder) != dict(sp['manifest']).get(folder) or (n not in mathml and folder + 'styles.xml' not in pk['members']):
                ctx.violation('reference-does-not-resolve', dict(case, object=n), {'content': got[-120:].decode('utf-8', 'replace'), 'manifest': dict(pk['manifest']).get(folder)},
                              'the same sub-document in ' + folder, {'order': 'loaded'})
        for n in sorted(with_settings):
            if 'Object %d/settings.xml' % n not in pk['members'] or b'config:name="n"' not in pk['members']['Object %d/settings.xml' % n]:
                ctx.violation('object-settings-lost', dict(case, object=n), sorted(m for m in pk['members'] if m.startswith('Object %d/' % n)), 'Object %d/settings.xml with the settings of the source' % n, {})
        for path, (bts, mt) in extra_files.items():
            if pk['members'].get(path) != bts or dict(pk['manifest']).get(path) != mt:
                ctx.violation('object-file-lost', dict(case, member=path), {'present': path in pk['members'], 'manifest': dict(pk['manifest']).get(path)}, 'byte-identical under the same path and media type', {})
        ctx.nt(repr(case))
    # ---- child attached before its parent (reported separately) ------------------------------------------
    root = OpenDocumentText(); mid = OpenDocumentSpreadsheet(); leaf = OpenDocumentChart()
    marker(mid, 'MID'); marker(leaf, 'LEAF')
    r_leaf = mid.addObject(leaf); r_mid = root.addObject(mid)
    b = io.BytesIO()
    import warnings
    with warnings.catch_warnings():
        warnings.simplefilter('ignore'); root.write(b)
    pk = P.read_package(b.getvalue())
    ctx.oracle_cases += 1
    for ref, mk in ((r_leaf, b'LEAF'), (r_mid, b'MID')):
        f = ref[2:] + '/'
        if mk not in pk['members'].get(f + 'content.xml', b'') or pk['order'].count(f + 'content.xml') != 1:
            ctx.violation('reference-does-not-resolve', {'history': 'leaf attached to mid before mid was attached to the root', 'reference': ref},
                          [n for n in pk['order'] if n.endswith('content.xml')], 'one content.xml with the right sub-document in ' + f, {'order': 'child-first'})

def find_hrefs(t):
    out = []
    if t[0] != 'E': return out
    if t[1][1] == 'object':
        out += [v for a, v in t[2] if a[1] == 'href']
    for k in t[3]: out += find_hrefs(k)
    return out

def replay(ctx, case):
    import json
    print(json.dumps(case, indent=1)[:3000]); return 1
