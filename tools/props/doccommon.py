# doccommon.py — real documents in the model's notation, renderer correspondence, style graphs
import io
import vlib, xmllib as X
from vlib import sx_str, sx_to_pystr

SECTS = ['meta', 'scripts', 'fontfacedecls', 'settings', 'styles', 'automaticstyles', 'masterstyles', 'body']

def doc_sx(doc):
    return '(%s %s)' % (sx_str(doc.mimetype), ' '.join(X.node_sx(X.walk_real(getattr(doc, a))) for a in SECTS))

def corr_render(ctx, doc, kinds=('content', 'styles', 'settings', 'meta', 'xml'), tag=''):
    """bytes produced by the real renderers vs the extracted model on the same document"""
    d = ctx.get_driver()
    out = {}
    for k in kinds:
        dsx = doc_sx(doc)           # the model sees the document as it is before the call
        if k == 'content': real = doc.contentxml().decode('utf-8', 'surrogatepass')
        elif k == 'styles': real = doc.stylesxml()
        elif k == 'settings': real = doc.settingsxml()
        elif k == 'meta': real = doc.metaxml()
        else:
            try: real = doc.xml().decode('utf-8', 'surrogatepass')
            except UnicodeDecodeError: real = None
        env = X.env_sx(X.current_env())
        m = d.call('doc_render', k, env, dsx)
        if k in ('meta', 'xml'):
            model = sx_to_pystr(m[1])
            meta_after = X.walk_real(doc.meta)
            ctx.corr('office:meta after %sxml() %s' % (k, tag), None, X.node_from_sx(m[0]), meta_after)
        else:
            model = sx_to_pystr(m)
        if real is not None:
            ctx.corr('%sxml() bytes %s' % (k, tag), None, model, real)
        out[k] = real
    return out

# ---- style graphs (C10) ---------------------------------------------------------------------------
def style_graph(rng):
    """a real text document whose body / master pages / automatic styles refer to automatic styles of every kind through
    many different reference attributes; returns (doc, expectations) where expectations = {'content': names, 'styles': names}
    computed by an independent walk below"""
    from odf.opendocument import OpenDocumentText
    from odf import style, text, number, table, draw
    from odf.element import Element
    doc = OpenDocumentText()
    names = []
    def auto(el, nm):
        doc.automaticstyles.addElement(el); names.append(nm); return nm
    n = rng.randint(3, 9)
    used_keys = set()
    for i in range(n):
        k = rng.choice(['para', 'text', 'list', 'num', 'pl', 'cell', 'graphic'])
        nm = '%s%d' % (k[0].upper(), i)
        if names and rng.random() < 0.25:      # the same name for a style of ANOTHER kind (L1 the list style, L1 the paragraph style)
            cand = rng.choice(names)
            if (k, cand) not in used_keys: nm = cand
        used_keys.add((k, nm))
        if k == 'para': auto(style.Style(name=nm, family='paragraph'), nm)
        elif k == 'text': auto(style.Style(name=nm, family='text'), nm)
        elif k == 'cell': auto(style.Style(name=nm, family='table-cell'), nm)
        elif k == 'graphic': auto(style.Style(name=nm, family='graphic'), nm)
        elif k == 'list': auto(text.ListStyle(name=nm), nm)
        elif k == 'num':
            ns = number.NumberStyle(name=nm); ns.addElement(number.Number(decimalplaces=2)); auto(ns, nm)
        elif k == 'pl': auto(style.PageLayout(name=nm), nm)
    return doc, names

def add_reference(rng, doc, names, where, attr, target):
    """put an element carrying attribute attr=(ns, local) -> target somewhere in `where` ('body' | 'master' | 'auto:<name>')"""
    from odf import text, style
    from odf.element import Element
    e = Element(qname=(X.TEXTNS, 'span'), check_grammar=False)
    e.setAttrNS(attr[0], attr[1], target)
    if isinstance(target, str) and getattr(rng, '_second', None):
        a2, t2 = rng._second; e.setAttrNS(a2[0], a2[1], t2)      # a second style reference on the same element
    if where == 'body':
        p = text.P(); p.addElement(e, check_grammar=False); doc.text.addElement(p)
    elif where == 'master':
        mp = None
        for m in doc.masterstyles.childNodes: mp = m
        if mp is None:
            mp = style.MasterPage(name='MP', pagelayoutname='plx'); doc.masterstyles.addElement(mp)
        h = style.Header(); p = text.P(); p.addElement(e, check_grammar=False); h.addElement(p); mp.addElement(h, check_grammar=False)
    else:
        nm = where.split(':', 1)[1]
        for s in doc.automaticstyles.childNodes:
            if s.getAttrNS('urn:oasis:names:tc:opendocument:xmlns:style:1.0', 'name') == nm:
                mode = where.split(':', 1)[0]
                if mode == 'autoattr' or (mode == 'auto' and rng.random() < 0.5): s.setAttrNS(attr[0], attr[1], target)
                elif mode == 'autodeep':                      # on an element inside an element inside the style (style:map, tab stops, drop caps sit there)
                    w = Element(qname=(X.TEXTNS, 'span'), check_grammar=False); w.addElement(e, check_grammar=False); s.addElement(w, check_grammar=False)
                else: s.addElement(e, check_grammar=False)

def refs_in(tree, refattrs):
    """names referenced (tokens of every reference attribute) in a notation tree, the root included"""
    out = set()
    if tree[0] != 'E': return out
    for a, v in tree[2]:
        if tuple(a) in refattrs: out |= set(v.split())
    for k in tree[3]: out |= refs_in(k, refattrs)
    return out

def needed(roots, autos, refattrs):
    """independent fixpoint: names needed from `roots` (trees whose *children* are scanned) through the automatic styles"""
    STY = 'urn:oasis:names:tc:opendocument:xmlns:style:1.0'
    need = set()
    for r in roots:
        for k in r[3]: need |= refs_in(k, refattrs)
    changed = True
    while changed:
        changed = False
        for s in autos:
            if s[0] != 'E': continue
            nm = dict((tuple(a), v) for a, v in s[2]).get((STY, 'name'))
            if nm in need:
                new = refs_in(s, refattrs) - need
                if new: need |= new; changed = True
    return need
