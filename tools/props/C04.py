# C04 — saving a document and loading it back reproduces the document.
import io, json, os
import vlib, xmllib as X, pkglib as P
from vlib import sx_str, sx_to_pystr
from . import schemagen, doccommon as DC

THEOREMS = ['C04_roundtrip: load_doc (xml_parse of the four rendered parts) = expected d, under sections_ok, parseability (doc_ok) and NoDup of the registered style names',
            'C04_load_of_parts, C04_generator (exactly one generator), C04_attach_identity (any tree, any depth), C04_example (the pipeline evaluated on a concrete document)',
            'C04_loaded_is_reloaded, C04_second_generation: for a canonical document whose parts use automatic styles of different names, saving the loaded document gives the four parts of the first package byte for byte', 'C04_selection_exact: the selected names are exactly the closure of the references']
RULE = ('documents of every document class built through the element factories from schema-directed random trees (children from the '
        'content models, attribute values the converters accept, arbitrary text incl. markup characters and CDATA), with automatic styles '
        'referenced from body / master pages / other styles / nowhere, pictures and an embedded sub-document. oracle: the tree of the built '
        'document (qname / attributes / childNodes / data) vs the tree of load(save(doc)), section by section, normalised as a conforming '
        'parser does; meta = the original children minus generators plus exactly one generator naming the library; every referenced '
        'automatic style present and equal (up to a rename when both parts use it); pictures (name, bytes, media type) and sub-documents '
        '(recursively) equal; the package saved from the loaded document vs the first one, parsed independently (expat + zip reader). '
        'correspondence: the parts of the saved package through the extracted xml_parse + load_doc vs the sections of the loaded document. '
        'non-trivial = a document with at least 10 elements; distinct by shape.')
TRUSTED = ['attribute values pass the converters unchanged on load (that is C15; the generator only uses values that are fixed points)']
ASSUMPTIONS = ['no text directly inside the eight section elements (the schema has none there)']

SECTS = DC.SECTS
STY = schemagen.STY
META = 'urn:oasis:names:tc:opendocument:xmlns:meta:1.0'

def snapshot(doc):
    s = {'mime': doc.mimetype, 'sections': {a: X.walk_real(getattr(doc, a)) for a in SECTS}, 'pictures': {}, 'objects': []}
    for name, (kind, what, mt) in doc.Pictures.items():
        s['pictures'][name] = (what if isinstance(what, bytes) else None, mt)
    for o in doc.childobjects: s['objects'].append((getattr(o, 'folder', None), snapshot(o)))
    return s

def A(e): return dict((tuple(a), v) for a, v in e[2])
def strip_name(t):
    return ('E', t[1], sorted((a, v) for a, v in A(t).items() if a != (STY, 'name')), t[3])

def compare(ctx, case, before, after, refattrs, path=''):
    import odf.opendocument as O
    if before['mime'] != after['mime']:
        ctx.violation('mimetype-changed', dict(case, where=path), after['mime'], before['mime'], {})
    for a in SECTS:
        b = X.canon(before['sections'][a]); l = X.canon(after['sections'][a])
        if a == 'meta':
            kids = [k for k in b[3] if not (k[0] == 'E' and tuple(k[1]) == (META, 'generator'))]
            b = ('E', b[1], b[2], kids + [('E', (META, 'generator'), [], [('T', O.TOOLSVERSION)])])
            ngen = sum(1 for k in l[3] if k[0] == 'E' and tuple(k[1]) == (META, 'generator'))
            if ngen != 1: ctx.violation('generator-count', dict(case, where=path), ngen, 1, {'where': 'subdocument' if path else 'document'})
        if a == 'masterstyles' and case.get('shared_styles') and not path:
            continue        # covered by the finding reported below (references renamed to the second copy)
        if a == 'automaticstyles':
            autos = before['sections'][a]
            need = DC.needed([before['sections']['body'], before['sections']['masterstyles'], before['sections']['styles']], autos[3], refattrs)
            lk = [k for k in l[3] if k[0] == 'E']
            for s in X.canon(autos)[3]:
                if s[0] != 'E': continue
                nm = A(s).get((STY, 'name'))
                if nm in need and not any(strip_name(x) == strip_name(s) for x in lk):
                    ctx.violation('referenced-style-lost', dict(case, where=path, style=nm), None, s, {})
            for x in lk:
                if not any(strip_name(x) == strip_name(s) for s in X.canon(autos)[3] if s[0] == 'E'):
                    ctx.violation('style-invented', dict(case, where=path), x, 'a style of the document', {})
            continue
        if b != l:
            ctx.violation('section-differs', dict(case, where=path, section=a), _first_diff(b, l), 'equal trees', {'section': a, 'where': 'subdocument' if path else 'document'})
    if sorted(before['pictures']) != sorted(after['pictures']):
        ctx.violation('pictures-differ', dict(case, where=path), sorted(after['pictures']), sorted(before['pictures']), {})
    else:
        for n in before['pictures']:
            if before['pictures'][n] != after['pictures'][n]:
                ctx.violation('picture-differs', dict(case, where=path, name=n), str(after['pictures'][n])[:80], str(before['pictures'][n])[:80], {})
    if path: return
    # the embedded sub-documents, each under the folder its reference names: load() attaches the objects of an object to the top document
    # (under their full folder), so the two trees are compared as what they stand for - the set of folders and what each holds
    def flat(s):
        out = []
        for f, o in s['objects']: out += [(f, dict(o, objects=[]))] + flat(o)
        return sorted(out, key=lambda x: str(x[0]))
    fb, fa = flat(before), flat(after)
    if [f for f, _ in fb] != [f for f, _ in fa]:
        ctx.violation('objects-differ', dict(case, where=path), [f for f, _ in fa], [f for f, _ in fb], {})
    else:
        for (f1, o1), (f2, o2) in zip(fb, fa):
            compare(ctx, case, o1, o2, refattrs, path + (f1 or '?'))

def _first_diff(a, b, path='/'):
    if a[0] != b[0] or (a[0] == 'E' and tuple(a[1]) != tuple(b[1])): return {'at': path, 'built': str(a)[:200], 'loaded': str(b)[:200]}
    if a[0] != 'E': return {'at': path, 'built': a[1][:80], 'loaded': b[1][:80]} if a != b else None
    if a[2] != b[2]: return {'at': path + a[1][1], 'built_attrs': a[2], 'loaded_attrs': b[2]}
    if len(a[3]) != len(b[3]): return {'at': path + a[1][1], 'built_children': len(a[3]), 'loaded_children': len(b[3])}
    for i, (x, y) in enumerate(zip(a[3], b[3])):
        d = _first_diff(x, y, path + a[1][1] + '[%d]/' % i)
        if d: return d
    return None

def packages_equal(ctx, case, pk1, pk2):
    if sorted(pk1['members']) != sorted(pk2['members']):
        ctx.violation('second-generation-members', case, sorted(pk2['members']), sorted(pk1['members']), {}); return
    if sorted(pk1['manifest'] or []) != sorted(pk2['manifest'] or []):
        ctx.violation('second-generation-manifest', case, pk2['manifest'], pk1['manifest'], {})
    for n in pk1['members']:
        if n.endswith('.xml') and n != 'META-INF/manifest.xml':
            t1 = X.expat_parse(pk1['members'][n]); t2 = X.expat_parse(pk2['members'][n])
            if t1[0] != 'ok' or t2[0] != 'ok' or X.canon(t1[1]) != X.canon(t2[1]):
                d = _first_diff(X.canon(t1[1]), X.canon(t2[1])) if t1[0] == t2[0] == 'ok' else (t1[1], t2[1])
                cause = 'style-used-by-both-parts' if (n.endswith('content.xml') or n.endswith('styles.xml')) and _shared_styles(pk1) else 'other'
                # a list style, number style or page layout used by both parts is loaded once (at its place among the styles of
                # content.xml), so the second styles.xml lists the same automatic styles in another order: recognised as exactly that
                if cause == 'other' and _shared_named(pk1) and t1[0] == t2[0] == 'ok' and _sorted_autos(X.canon(t1[1])) == _sorted_autos(X.canon(t2[1])):
                    cause = 'shared-automatic-style-order'
                ctx.violation('second-generation-differs', dict(case, member=n), d, 'equal infosets', {'cause': cause})
        elif n != 'META-INF/manifest.xml' and pk1['members'][n] != pk2['members'][n]:
            ctx.violation('second-generation-bytes', dict(case, member=n), None, 'identical bytes', {})

def _shared_styles(pk):
    """names of automatic styles written to both content.xml and styles.xml of the first package"""
    out = []
    try:
        c = X.expat_parse(pk['members']['content.xml'])[1]; s = X.expat_parse(pk['members']['styles.xml'])[1]
        names = []
        for t in (c, s):
            sec = [k for k in t[3] if k[0] == 'E' and k[1][1] == 'automatic-styles']
            names.append(set(A(x).get((STY, 'name')) for x in (sec[0][3] if sec else []) if x[0] == 'E' and tuple(x[1]) == (STY, 'style')))
        out = sorted(n for n in names[0] & names[1] if n)
    except Exception: pass
    return out

def _auto_keys(t):
    sec = [k for k in t[3] if k[0] == 'E' and k[1][1] == 'automatic-styles']
    return [(tuple(x[1]), A(x).get((STY, 'name'))) for x in (sec[0][3] if sec else []) if x[0] == 'E' and A(x).get((STY, 'name'))]
def _shared_named(pk):
    """(element type, name) of named automatic styles of any kind written to both content.xml and styles.xml"""
    try:
        c = X.expat_parse(pk['members']['content.xml'])[1]; s = X.expat_parse(pk['members']['styles.xml'])[1]
        return sorted(set(_auto_keys(c)) & set(_auto_keys(s)))
    except Exception: return []
def _sorted_autos(t):
    """the tree with the children of office:automatic-styles in a fixed order"""
    if t[0] != 'E': return t
    kids = [_sorted_autos(k) for k in t[3]]
    if t[1][1] == 'automatic-styles': kids = sorted(kids, key=repr)
    return (t[0], t[1], t[2], kids)

def directed(i):
    """three fixed documents, run before the random ones in every tier: several meta:generator elements (i = -3), an automatic
    style:style used by the body and by a page header (i = -2), and an automatic list style used by both, after a style only
    the header uses (i = -1)"""
    from odf.opendocument import OpenDocumentText
    from odf import style, text, meta, dc
    doc = OpenDocumentText()
    if i == -7:
        # one name, three kinds of automatic style (names are unique per kind, not across kinds): a paragraph style, a list style and a
        # number style all called N1, each referenced from the body - the number style through a cell style - in both orders of declaration
        from odf import number, table
        for k, nm in enumerate(('N1', 'N2')):
            ps = style.Style(name=nm, family='paragraph'); ps.addElement(style.ParagraphProperties(textalign='end'))
            ls = text.ListStyle(name=nm); ls.addElement(text.ListLevelStyleBullet(level='1', bulletchar=u'\u2013'))
            ns = number.NumberStyle(name=nm); ns.addElement(number.Number(minintegerdigits='2'))
            for e in ((ps, ls, ns) if k == 0 else (ns, ls, ps)): doc.automaticstyles.addElement(e)
            ce = style.Style(name='ce%d' % k, family='table-cell', datastylename=nm); doc.automaticstyles.addElement(ce)
            doc.text.addElement(text.P(stylename=nm, text='paragraph ' + nm))
            li = text.List(stylename=nm); it = text.ListItem(); it.addElement(text.P(text='item')); li.addElement(it); doc.text.addElement(li)
            t = table.Table(name='t%d' % k); t.addElement(table.TableColumn()); tr = table.TableRow(); t.addElement(tr)
            tc = table.TableCell(stylename='ce%d' % k, valuetype='float', value='7'); tc.addElement(text.P(text='07')); tr.addElement(tc); doc.text.addElement(t)
        return doc
    if i == -6:
        # objects two levels deep, each attached when its parent has its folder: a spreadsheet holding a chart, next to a second object
        from odf.opendocument import OpenDocumentSpreadsheet, OpenDocumentChart
        from odf import draw, table, chart
        sheet = OpenDocumentSpreadsheet(); t = table.Table(name='inner'); sheet.spreadsheet.addElement(t)
        ch = OpenDocumentChart(); ch.chart.addElement(chart.Chart(attributes={'class': 'chart:bar'}))
        other = OpenDocumentChart(); other.chart.addElement(chart.Chart(attributes={'class': 'chart:line'}))
        for o in (sheet, other):
            p = text.P(); doc.text.addElement(p); fr = draw.Frame(); p.addElement(fr); fr.addElement(draw.Object(href=doc.addObject(o)))
        sh = table.Shapes(); t.addElement(sh); fr = draw.Frame(); sh.addElement(fr); fr.addElement(draw.Object(href=sheet.addObject(ch)))
        tr = table.TableRow(); t.addElement(tr); tc = table.TableCell(); tr.addElement(tc); tc.addElement(text.P(text='cell'))
        return doc
    if i == -5:
        # an object written inline: draw:object holds a whole office:document, with sections of its own (the schema's alternative to a folder)
        from odf import draw, office, chart
        doc.text.addElement(text.P(text='before'))
        p = text.P(); doc.text.addElement(p); fr = draw.Frame(); p.addElement(fr); ob = draw.Object(); fr.addElement(ob)
        inner = office.Document(mimetype='application/vnd.oasis.opendocument.chart'); ob.addElement(inner)
        ist = office.AutomaticStyles(); inner.addElement(ist); ist.addElement(style.Style(name='ch1', family='chart'))
        ib = office.Body(); inner.addElement(ib); ic = office.Chart(); ib.addElement(ic); ic.addElement(chart.Chart(attributes={'class': 'chart:bar'}, stylename='ch1'))
        p.addText(' behind the frame'); doc.text.addElement(text.P(text='after'))
        return doc
    if i == -4:
        # mixed content: white space before the first, between and after the last child element; a paragraph of blanks only
        p = text.P(); p.addText(' '); p.addElement(text.Span(text='a')); p.addText(' '); p.addElement(text.Span(text='b')); p.addText('  \n')
        doc.text.addElement(p); q = text.P(); q.addText('   '); doc.text.addElement(q); h = text.H(outlinelevel=1); h.addElement(text.Span(text='c')); h.addText('\t'); doc.text.addElement(h)
        return doc
    if i == -3:
        # generators of other applications next to the library's own (neighbours, and one behind another element): all replaced by one
        doc.meta.addElement(meta.Generator(text='Other/1.0')); doc.meta.addElement(meta.Generator(text='Third/2.0'))
        doc.meta.addElement(dc.Title(text='t')); doc.meta.addElement(meta.Generator(text='Fourth/4'))
        doc.text.addElement(text.P(text='x'))
        return doc
    doc.automaticstyles.addElement(style.PageLayout(name='pm1'))
    mp = style.MasterPage(name='Standard', pagelayoutname='pm1'); doc.masterstyles.addElement(mp)
    h = style.Header(); mp.addElement(h)
    if i == -2:
        t1 = style.Style(name='T1', family='text'); t1.addElement(style.TextProperties(fontweight='bold')); doc.automaticstyles.addElement(t1)
        p = text.P(text='body '); p.addElement(text.Span(stylename='T1', text='bold')); doc.text.addElement(p)
        p = text.P(text='header '); p.addElement(text.Span(stylename='T1', text='bold')); h.addElement(p)
    else:
        g2 = style.Style(name='P9', family='paragraph'); g2.addElement(style.ParagraphProperties(textalign='center')); doc.automaticstyles.addElement(g2)
        l7 = text.ListStyle(name='L7'); l7.addElement(text.ListLevelStyleBullet(level='1', bulletchar=u'\u2022')); doc.automaticstyles.addElement(l7)
        for where in (doc.text, h):
            li = text.List(stylename='L7'); it = text.ListItem(); it.addElement(text.P(text='item')); li.addElement(it); where.addElement(li)
        h.addElement(text.P(stylename='P9', text='centred header'))
    return doc

def run(ctx):
    from odf.opendocument import load
    d = ctx.get_driver()
    twin = json.load(open(os.path.join(vlib.COQ, 'gen', 'twin.json')))
    refattrs = set(tuple(x) for x in twin['GenStyleRefs.v']['schema']) | {(STY, 'list-style-name')}
    n = 30 if ctx.quick else 800
    g = schemagen.Gen(ctx.rng, twin['GenGrammar.v'])
    for i in range(-7, n):
        doc = directed(i) if i < 0 else g.document()
        before = snapshot(doc)
        case = {'i': i, 'seed': ctx.seed, 'mime': doc.mimetype, 'elements': sum(X.tree_size(before['sections'][a]) for a in SECTS)}
        ctx.oracle_cases += 1
        buf = io.BytesIO()
        try: doc.write(buf)
        except Exception as e:
            ctx.violation('save-failed', case, repr(e), 'the built document can be saved', {}); continue
        data1 = buf.getvalue()
        try: doc2 = load(io.BytesIO(data1))
        except Exception as e:
            ctx.violation('load-failed', case, repr(e), 'the saved package loads', {}); continue
        after = snapshot(doc2)
        case['shared_styles'] = _shared_styles(P.read_package(data1))
        if case['shared_styles']:
            lnames = [A(x).get((STY, 'name')) for x in after['sections']['automaticstyles'][3] if x[0] == 'E']
            ctx.violation('style-duplicated-on-load', case, {'automatic_style_names_after_load': lnames}, 'one copy of each automatic style', {'cause': 'style-used-by-both-parts'})
        compare(ctx, case, before, after, refattrs)
        # ---- correspondence: the parts through xml_parse + load_doc -----------------------------------------------
        pk1 = P.read_package(data1)
        def part(nm):
            return '(Some %s)' % sx_str(pk1['members'][nm].decode('utf-8')) if nm in pk1['members'] else 'None'
        m = d.call('doc_load_xml', sx_str(doc.mimetype), part('settings.xml'), part('meta.xml'), part('content.xml'), part('styles.xml'))
        if m and m[0] == 'ERROR':
            ctx.corr('model load of the saved package', case, m, 'ok')
        else:
            for a, t in zip(SECTS, m[1:]):
                ctx.corr('loaded section %s' % a, case, X.node_from_sx(t), after['sections'][a])
        # ---- second generation -----------------------------------------------------------------------------------------
        buf2 = io.BytesIO()
        try: doc2.write(buf2)
        except Exception as e:
            ctx.violation('second-save-failed', case, repr(e), 'the loaded document can be saved', {}); continue
        if not case['shared_styles']: packages_equal(ctx, case, pk1, P.read_package(buf2.getvalue()))
        if case['elements'] >= 10: ctx.nt((doc.mimetype, case['elements'], tuple(sorted(g.stats.items()))[:6]))
        ctx.bump('class=' + doc.mimetype.split('.')[-1]); ctx.bump('pictures=%d' % len(before['pictures'])); ctx.bump('objects=%d' % len(before['objects']))
        ctx.bump('elements<%d' % (10 ** len(str(case['elements']))))
        if i < 2: ctx.sample(case)
    ctx.exhaustive.append('element types used by the generator: %d' % len(g.stats))

def replay(ctx, case):
    print(json.dumps(case, indent=1)[:3000]); return 1
