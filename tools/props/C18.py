# C18 — the XHTML and MoinMoin converters are total, complete and escape everything.
import io, json, os, tempfile, re
import vlib, xmllib as X, pkglib as P
from . import c18events as EV
from vlib import sx_str, sx_to_pystr

THEOREMS = ['C18_text_stays_text: what writedata() emits for a string is lexed back as that string, never leaving text mode (every string of XML characters)',
            'C18_attribute_stays_attribute: what quoteattr emits is lexed back as one attribute with that value', 'C18_escaped_has_no_markup_start',
            'C18_output_tokens: ANY sequence of writer calls (opentag, closetag, emptytag, writedata, the text:s character reference, the internal style sheet) is lexed into exactly one token per tag call with the attribute values and the character data as given - for all strings at once; C18_tags_are_the_calls',
            'C18_output_well_formed: under the tag-stack discipline (checked by the model\'s wellnested on the recorded calls of every conversion) the token stream builds a tree',
            'C18_style_sheet_stays_text: the CDATA section of the style sheet ends where the writer ends it, whatever the style properties contain',
            'PARTIAL: which calls the 200 handlers make (totality, completeness, the discipline itself) is decided by the oracle and by the recorded calls of each conversion, not by a theorem']
RULE = ('documents from the converters\' vocabulary, written as packages by the harness: paragraphs, headings of level 1-10, spans, links '
        '(with any target, also empty), ordered / unordered / nested lists, tables, frames with text boxes and images, footnotes and '
        'endnotes, text:s / text:tab / text:line-break, soft page breaks, with text, attribute strings (link targets, image names, '
        'alternative texts, metadata: title, language, creator, keywords) and style names drawn from an alphabet of markup characters '
        '(& < > " \' ] and non-ASCII); spreadsheets and presentations with the same inline content; XHTML with CSS generation on and off. '
        'oracle: odf2xhtml() must return (no exception) a string that expat accepts; the sequence of its text tokens (white space '
        'collapsed) must contain the tokens of the source document in document order; no element or attribute beyond those the '
        'converter writes appears because of document strings (injection markers). ODF2MoinMoin.toString(): no exception, tokens in order. '
        'correspondence: the writer primitives (escape, quoteattr, opentag, closetag, emptytag) on the same strings through the extracted model; '
        'and for EVERY conversion the writer calls are recorded (the primitives and the two output sinks are wrapped on the converter instance, '
        'nothing in /repo changes), expressed as events of HtmlDoc.v, and the real output must equal the DOCTYPE line followed by h_render of '
        'those events, the events must be wellnested, and expat must see exactly the tags and the character data C18_output_tokens predicts; '
        'style properties (fo:font-family) carry markup strings too, "]]>" included. '
        'non-trivial = a document with a markup character in some string; distinct by shape.')
TRUSTED = ['the handlers of the converters are exercised, not modelled (1700 lines of SAX handlers); what is modelled and proved is the writer layer every handler goes through, and the whole output as a sequence of calls of that layer',
           'tools/props/c18events.py: the translation of recorded calls and literal writes (title line, meta lines, note bodies, escaped literals) into events; a literal it cannot express is reported, not skipped']
ASSUMPTIONS = ['tokens are compared after white-space collapsing; text the converter legitimately adds (footnote numbers, list bullets in MoinMoin) is ignored by the subsequence test']

TXT = P.NS['text']; OFF = P.NS['office']
ALPHA = ['a', 'b', 'é', '中', '&', '<', '>', '"', "'", ']', ' ', 'x&y', '<b>', 'a"b', "it's", ']]>', 'a[b[0]]>1', '-->', '&amp;', '&#60;']
class G:
    def __init__(self, rng): self.rng = rng; self.k = 0; self.tokens = []; self.notes = []; self.hot = False; self.sink = None; self.prev_word = None; self.gaps = []
    def word(self):
        self.k += 1
        w = 'w%dq' % self.k              # a number of its own between two letters: found again whatever stands next to it
        if self.rng.random() < 0.4:
            m = self.rng.choice(ALPHA); self.hot = self.hot or any(c in m for c in '&<>"\'')
            w = w + m.strip() + 'z'
        return w
    def text(self, n=None):
        ws = [self.word() for _ in range(n or self.rng.randint(1, 3))]
        self.first_word = ws[0]; self.prev_word = ws[-1] if self.sink is None else None
        if self.sink is None: self.tokens += ws
        elif self.sink != 'ignore': self.sink += ws
        if len(ws) > 1 and self.rng.random() < 0.1:          # part of the text in a CDATA section: character data like any other
            return P.xml_text(ws[0] + ' ') + '<![CDATA[' + ' '.join(ws[1:]).replace(']]>', ']]]]><![CDATA[>') + ']]>'
        return P.xml_text(' '.join(ws))
    def title(self):
        old = self.sink; self.sink = 'ignore'; t = self.text(1); self.sink = old; return t      # an image title is not body text
    def attr(self):
        s = self.word(); return P.xml_attr(s)
    def inline(self, depth=0):
        r = self.rng.random()
        if r < 0.45 or depth > 2: return self.text()
        if 0.45 <= r < 0.72 or r >= 0.88: self.prev_word = None          # (a gap is judged only between two pieces of plain text)
        if r < 0.6: return '<text:span text:style-name="%s">%s</text:span>' % (self.rng.choice(['T1', 'T2', 'T&lt;3']), self.inline(depth + 1))
        if r < 0.72:
            href = self.rng.choice(['http://example.org/?a=1&amp;b=2', '', '#anchor', 'x&quot;y', '../a b.odt'])
            return '<text:a xlink:type="simple" xlink:href="%s">%s</text:a>' % (href, self.inline(depth + 1))
        if r < 0.88:
            # white space elements stand where they stand: between the word before and the word after
            before = self.prev_word if self.sink is None else None
            el = '<text:s text:c="%d"/>' % self.rng.randint(1, 3) if r < 0.78 else '<text:tab/>' if r < 0.84 else '<text:line-break/>'
            if r < 0.78 and self.rng.random() < 0.3: el = '<text:s/>'
            t = self.text(1)
            if before is not None and self.sink is None: self.gaps.append((before, self.first_word, el[6:el.find(' ') if ' ' in el else -2]))
            return el + t
        if r < 0.97: return self.inline_note()
        return self.text() + self.inline(depth + 1)
    def inline_note(self):
        cls = self.rng.choice(['footnote', 'endnote'])
        old = self.sink; self.sink = self.notes if old is None else old       # note bodies are collected at the end of the output
        # a note body is a sequence of paragraphs and lists; a citation may be empty (the mark is then the text:label)
        mk_list = lambda: '<text:list><text:list-item><text:p>%s</text:p></text:list-item></text:list>' % self.text()
        where = self.rng.choice(['none', 'none', 'none', 'first', 'last'])
        body = mk_list() if where == 'first' else ''                   # (generated in document order: the tokens are compared in order)
        body += ''.join('<text:p>%s</text:p>' % self.text() for _ in range(self.rng.choice([1, 1, 2, 3])))
        if where == 'last': body += mk_list()
        if self.rng.random() < 0.15:
            body += '<table:table table:name="n"><table:table-column/><table:table-row><table:table-cell office:value-type="string"><text:p>%s</text:p></table:table-cell></table:table-row></table:table>' % self.text(1)
        self.sink = old
        cit = self.rng.choice(['1', '1', '*', '2', 'i', ''])      # marks repeat, as they do across footnotes and endnotes
        return ('<text:note text:id="ftn%d" text:note-class="%s"><text:note-citation%s>%s</text:note-citation><text:note-body>%s</text:note-body></text:note>'
                % (self.k, cls, ' text:label="*"' if cit == '' else '', cit, body))
    def para(self):
        self.prev_word = None
        return '<text:p text:style-name="%s">%s</text:p>' % (self.rng.choice(['P1', 'Standard', 'P&amp;2'] + HEADING_STYLES[self.k % len(HEADING_STYLES):][:1]), ''.join(self.inline() for _ in range(self.rng.randint(1, 3))))
    def sublist(self, depth):
        # the schema allows paragraphs, headings and lists inside a list item - nothing else
        if depth > 2: return self.para()
        items = ''.join('<text:list-item>%s</text:list-item>' % (self.para() + (self.sublist(depth + 1) if self.rng.random() < 0.3 else '')) for _ in range(self.rng.randint(1, 2)))
        return '<text:list>%s</text:list>' % items
    def block(self, depth=0, r=None, level=None):
        r = self.rng.random() if r is None else r
        if r < 0.4 or depth > 2: return self.para()
        if r < 0.55 and level is None and self.rng.random() < 0.25:       # the level is optional: it is 1 then
            self.prev_word = None
            return '<text:h>%s</text:h>' % self.inline()
        if r < 0.55: return '<text:h text:outline-level="%d"%s>%s</text:h>' % (level or self.rng.randint(1, 10), self.rng.choice(['', ' text:style-name="%s"' % HEADING_STYLES[self.k % len(HEADING_STYLES)]]), self.inline())
        if r < 0.7:
            items = ''.join('<text:list-item>%s</text:list-item>' % (self.para() + (self.sublist(depth + 1) if self.rng.random() < 0.3 else '')) for _ in range(self.rng.randint(1, 3)))
            return '<text:list%s>%s</text:list>' % (self.rng.choice([' text:style-name="L1"', ' text:style-name="WW8Num1.1"', ' text:style-name="WW8Num1.1"', '']), items)
        if r < 0.85:
            def cell():
                c = self.para()
                if depth < 2 and self.rng.random() < 0.15:        # a table nested in the cell
                    c += '<table:table table:name="%s" table:is-sub-table="true"><table:table-column/><table:table-row><table:table-cell office:value-type="string">%s</table:table-cell></table:table-row></table:table>' % (self.attr(), self.para())
                return '<table:table-cell office:value-type="string">%s</table:table-cell>' % c
            row = lambda: '<table:table-row>%s</table:table-row>' % ''.join(cell() for _ in range(2))
            k_ = self.rng.random()
            if k_ < 0.15:                                       # a row group next to a plain row
                rows = '<table:table-row-group>%s</table:table-row-group>%s' % (row(), row())
            elif k_ < 0.4:                                      # header rows and a row group
                rows = '<table:table-header-rows>%s</table:table-header-rows><table:table-rows>%s</table:table-rows>' % (row(), ''.join(row() for _ in range(self.rng.randint(1, 2))))
            else:
                rows = ''.join(row() for _ in range(self.rng.randint(1, 2)))
            return '<table:table table:name="%s"><table:table-column table:number-columns-repeated="2"/>%s</table:table>' % (self.attr(), rows)
        if r < 0.93:
            inner = self.para()
            kind = self.rng.random()
            if kind < 0.25:                                     # a frame anchored to the page: a child of office:text
                return '<draw:frame draw:name="%s" text:anchor-type="page" svg:width="5cm" svg:height="2cm"><draw:text-box>%s</draw:text-box></draw:frame>' % (self.attr(), inner)
            if kind < 0.5 and depth < 2:                        # a table inside the text box
                inner += '<table:table table:name="%s"><table:table-column/><table:table-row><table:table-cell office:value-type="string">%s</table:table-cell></table:table-row></table:table>' % (self.attr(), self.para())
            return '<text:p><draw:frame draw:name="%s" text:anchor-type="paragraph" svg:width="5cm" svg:height="2cm"><draw:text-box>%s</draw:text-box></draw:frame></text:p>' % (self.attr(), inner)
        if r < 0.96:                                            # text, a frame anchored as a character, text
            before = self.text(1); name = self.attr(); box = self.para(); after = self.text(1)
            return '<text:p>%s<draw:frame draw:name="%s" text:anchor-type="as-char" svg:width="5cm" svg:height="2cm"><draw:text-box>%s</draw:text-box></draw:frame>%s</text:p>' % (before, name, box, after)
        img = '<draw:image xlink:href="Pictures/p1.png" xlink:type="simple"/>' if self.rng.random() < 0.6 else '<draw:image><office:binary-data>iVBORw0KGgo=</office:binary-data></draw:image>'      # (the picture inside the content)
        return '<text:p><draw:frame draw:name="%s" svg:width="1cm" svg:height="1cm">%s<svg:title>%s</svg:title></draw:frame></text:p>' % (self.attr(), img, self.title())

# style names the converters look at: 'Heading N' is a heading of level N - and 'Heading' plus anything else is a paragraph style like any other
HEADING_STYLES = ['Heading_20_1', 'Heading_20_2', 'Heading_20_1_20_Appendix', 'Heading_20_TOC', 'Heading_20_1.1', 'Heading_20_', 'Heading']
FORCED = [0.1, 0.5, 0.6, 0.8, 0.9, 0.945, 0.99]          # one block of every kind in turn, headings of every level in turn
def make_doc(rng, kind='text', i=0):
    g = G(rng)
    if kind == 'text':
        body = ''.join(g.block() for _ in range(rng.randint(0, 3)))
        body += g.block(r=FORCED[i % len(FORCED)]) + g.block(r=0.5, level=i % 10 + 1)
        if i % 5 == 3:                       # a dozen notes in a row: they are numbered, and numbers sort differently as strings
            body += '<text:p>%s</text:p>' % ''.join(g.inline_note() for _ in range(12))
        if i % 3 == 2:                       # bookmarks and references to them (the name of the bookmark referred to is optional)
            g.prev_word = None
            body += ('<text:p><text:bookmark text:name="bm &amp; 1"/>%s<text:bookmark-start text:name="bm2"/>%s<text:bookmark-end text:name="bm2"/>' % (g.text(1), g.text(1))
                     + '<text:bookmark-ref text:ref-name="bm &amp; 1" text:reference-format="text">%s</text:bookmark-ref>' % g.text(1)
                     + '<text:bookmark-ref text:reference-format="page">%s</text:bookmark-ref></text:p>' % g.text(1))
        body += ''.join(g.block() for _ in range(rng.randint(0, 2)))
    else: body = ''
    meta = ('<meta:generator>Other/1.0</meta:generator><dc:title>%s</dc:title><dc:language>%s</dc:language><dc:creator>%s</dc:creator><meta:keyword>%s</meta:keyword>'
            % (P.xml_text(rng.choice(['Title', 'A & B', 'x <y>', 'q"uote'])), P.xml_text(rng.choice(['en', 'en-US', 'e"n', 'x&y'])),
               P.xml_text(rng.choice(['Me', 'O\'Neil', 'a"b', 'A & B <c>'])), P.xml_text(rng.choice(['k', 'k&l']))))
    # style properties end up in the internal style sheet: their strings are document strings too
    fam = [rng.choice(['Arial', "'Times New Roman', serif", 'a]]>b', ']]>', 'x<y', 'a&b', 'q"uote', 'serif]]', '</style>', 'é中']) for _ in range(2)]
    if any(c in f for f in fam for c in '<>&"]'): g.hot = True
    autos = ('<style:style style:name="P1" style:family="paragraph"><style:paragraph-properties fo:text-align="center"/><style:text-properties fo:font-family="%s"/></style:style>'
             '<style:style style:name="P&amp;2" style:family="paragraph"/><style:style style:name="T1" style:family="text"><style:text-properties fo:font-weight="bold" fo:font-family="%s"/></style:style>'
             '<style:style style:name="T2" style:family="text"><style:text-properties style:text-position="%s"/></style:style><style:style style:name="T&lt;3" style:family="text"/>'
             '<text:list-style style:name="L1"><text:list-level-style-bullet text:level="1" text:bullet-char="•"/></text:list-style>'
             '<text:list-style style:name="WW8Num1.1"><text:list-level-style-number text:level="1" style:num-format="1"/><text:list-level-style-number text:level="2" style:num-format="a"/></text:list-style>'
             # data styles of every kind, with the text properties a "negative numbers in red" format has
             + ''.join('<number:%s style:name="N%d"><style:text-properties fo:color="#ff0000"/><number:text>-</number:text></number:%s>' % (n, k_, n)
                       for k_, n in enumerate(['number-style', 'percentage-style', 'time-style', 'currency-style', 'date-style', 'boolean-style', 'text-style']))) % (P.xml_attr(fam[0]), P.xml_attr(fam[1]), rng.choice(['super', 'sub', '33% 58%', '33.3% 58%', '-33%', 'super 58%', '0% 100%']))
    if kind == 'text' and i % 4 == 1:
        body = re.sub(r'(</text:p>|</text:h>|</text:list>|</table:table>)(?=<text:p|<text:h|<text:list|<table:table|$)', r'\1\n  ', body)      # as a pretty-printer writes it
    if kind == 'text':
        # font declarations as writers make them - svg:font-family is optional - and an outline style with the text properties of its numbers
        fonts = ('<office:font-face-decls><style:font-face style:name="F1" svg:font-family="%s" style:font-family-generic="swiss"/><style:font-face style:name="F2" style:font-pitch="variable"/>'
                 '<style:font-face style:name="F3" svg:font-family="Courier" style:font-family-generic="modern" style:font-pitch="fixed"/></office:font-face-decls>') % P.xml_attr(fam[0])
        outline = ('<text:outline-style style:name="Outline"><text:outline-level-style text:level="1" style:num-format="1"><style:list-level-properties text:space-before="1cm"/>'
                   '<style:text-properties fo:font-weight="bold"/></text:outline-level-style></text:outline-style>')
        data = P.simple_package(body, autostyles=autos, meta=meta, extra_members=[('Pictures/p1.png', b'\x89PNG', 'image/png')],
                                fontdecls=fonts if i % 2 == 0 else '', styles_fonts=fonts if i % 3 == 0 else '',
                                styles=outline + '<style:default-style style:family="paragraph"/><style:style style:name="Standard" style:family="paragraph"/>'
                                       + ''.join('<style:style style:name="%s" style:family="paragraph" style:parent-style-name="Standard"/>' % n for n in HEADING_STYLES))
    elif kind == 'spreadsheet':
        cells = ''.join('<table:table-row><table:table-cell office:value-type="string">%s</table:table-cell></table:table-row>' % g.para() for _ in range(rng.randint(1, 4)))
        c = P.content_xml('<table:table table:name="%s">%s</table:table>' % (g.attr(), cells), autos, kind='spreadsheet')
        data = P.make_package([('content.xml', c, 'text/xml'), ('styles.xml', P.styles_xml(), 'text/xml'), ('meta.xml', P.meta_xml(meta), 'text/xml')], mimetype='application/vnd.oasis.opendocument.spreadsheet')
        g.tokens = [t for t in g.tokens]        # tokens generated for the body are not used
    else:
        pages = ''.join('<draw:page draw:name="%s" draw:master-page-name="Default"><draw:frame svg:width="5cm" svg:height="2cm"><draw:text-box>%s</draw:text-box></draw:frame></draw:page>' % (g.attr(), g.para()) for _ in range(rng.randint(1, 3)))
        c = P.content_xml(pages, autos, kind='presentation')
        s = P.styles_xml(masterstyles='<style:master-page style:name="Default" style:page-layout-name="pm1"/>', autostyles='<style:page-layout style:name="pm1"/>')
        data = P.make_package([('content.xml', c, 'text/xml'), ('styles.xml', s, 'text/xml'), ('meta.xml', P.meta_xml(meta), 'text/xml')], mimetype='application/vnd.oasis.opendocument.presentation')
    return data, g

def tokens_of_text(s):
    return [t for t in re.split(r'\s+', s) if t]

def xhtml_tokens(tree):
    """the visible text of the output, text nodes concatenated in document order"""
    out = []
    def go(t):
        if t[0] != 'E': out.append(t[1]); return
        if t[1][1] in ('style', 'script', 'title', 'head'): return
        for k in t[3]: go(k)
    go(tree); return ''.join(out)

def subsequence(need, have):
    """how many of the tokens of `need` occur in the string `have`, in order"""
    pos = 0; i = 0
    for w in need:
        j = have.find(w, pos)
        if j < 0: break
        pos = j + len(w); i += 1
    return i

def writer_correspondence(ctx):
    """escape / quoteattr / opentag / closetag / emptytag of a real ODF2XHTML instance vs the extracted model"""
    from odf.odf2xhtml import ODF2XHTML
    from xml.sax.saxutils import escape, quoteattr
    d = ctx.get_driver()
    conv = ODF2XHTML(generate_css=False, embedable=False)
    out = []
    conv._wfunc = lambda s: out.append(s)
    strings = ['', 'plain', 'a&b', '<tag>', 'x>y', 'q"uote', "it's", 'both "\' kinds', 'tab\there', 'line\nbreak', 'cr\rhere', ']]>', '&amp;', 'é中\U0001F600', ' lead', 'trail ']
    for _ in range(30 if ctx.quick else 300):
        strings.append(''.join(ctx.rng.choice('ab &<>"\'\t\n]é;#x') for _ in range(ctx.rng.randint(0, 12))))
    for s in strings:
        ctx.corr('escape', s, sx_to_pystr(d.call('h_escape', sx_str(s))), escape(s))
        ctx.corr('quoteattr', s, sx_to_pystr(d.call('h_quoteattr', sx_str(s))), quoteattr(s))
    for i in range(20 if ctx.quick else 200):
        tag = ctx.rng.choice(['p', 'span', 'a', 'img', 'td'])
        atts = [(k, ctx.rng.choice(strings)) for k in ctx.rng.sample(['class', 'href', 'alt', 'id', 'style'], ctx.rng.randint(0, 3))]
        block = ctx.rng.random() < 0.5
        asx = '(' + ' '.join('(%s %s)' % (sx_str(k), sx_str(v)) for k, v in atts) + ')'
        del out[:]; conv.opentag(tag, dict(atts), block)
        ctx.corr('opentag', [tag, atts, block], sx_to_pystr(d.call('h_opentag', sx_str(tag), asx, '1' if block else '0')), ''.join(out))
        del out[:]; conv.closetag(tag, block)
        ctx.corr('closetag', [tag, block], sx_to_pystr(d.call('h_closetag', sx_str(tag), '1' if block else '0')), ''.join(out))
        del out[:]; conv.emptytag(tag, dict(atts))
        ctx.corr('emptytag', [tag, atts], sx_to_pystr(d.call('h_emptytag', sx_str(tag), asx)), ''.join(out))

def writer_events(ctx, d, rec, out, case):
    """the recorded writer calls of this conversion as events of HtmlDoc.v: the real output must be what the model renders
    for them (correspondence), they must satisfy the hypotheses of C18_output_well_formed, and an independent parser must
    see what C18_output_tokens says it sees"""
    try:
        evs, prologue = EV.model_events(rec)
    except EV.Unmodelled as u:
        ctx.corr('every piece of output is one of the modelled writer calls', case, str(u), None); return
    m = d.call('h_doc', EV.events_sx(evs))
    ctx.corr('output of the conversion = h_render of its writer calls', case, prologue + sx_to_pystr(m[0]), out)
    if m[1] != '1':
        ctx.violation('tag-stack-discipline-broken', case, [e[:2] for e in evs if e[0] in ('open', 'close', 'empty')][:60], 'every closetag closes the innermost open tag; one root', {'aspect': 'well-formed'})
    ctx.bump('events: names and strings within the theorem (ev_ok) ' + ('yes' if m[2] == '1' else 'no'))
    if m[2] == '1' and m[1] == '1':
        try:
            got = EV.expat_parse(out)
        except Exception:
            return                                   # reported by the oracle above
        want = EV.expected_parse(evs)
        if got[0] != want[0]:
            k = next((i for i, (a, b) in enumerate(zip(got[0], want[0])) if a != b), min(len(got[0]), len(want[0])))
            ctx.violation('parser-sees-other-tags-than-written', case, got[0][k:k + 2], want[0][k:k + 2], {'aspect': 'injection'})
        elif got[1].rstrip() != want[1].rstrip():
            ctx.violation('parser-sees-other-text-than-written', case, got[1][-200:], want[1][-200:], {'aspect': 'injection'})

def run(ctx):
    writer_correspondence(ctx)
    d = ctx.get_driver()
    from odf.odf2xhtml import ODF2XHTML
    from odf.odf2moinmoin import ODF2MoinMoin
    n = 40 if ctx.quick else 600
    tmpdir = tempfile.mkdtemp(prefix='c18-')
    try:
        for i in range(n):
            kind = ctx.rng.choice(['text', 'text', 'text', 'spreadsheet', 'presentation'])
            if kind != 'text':
                # body tokens of a spreadsheet/presentation come from the paragraphs generated inside make_doc
                pass
            data, g = make_doc(ctx.rng, kind, i)
            fn = os.path.join(tmpdir, 'd%d.od%s' % (i, {'text': 't', 'spreadsheet': 's', 'presentation': 'p'}[kind]))
            open(fn, 'wb').write(data)
            case = {'i': i, 'seed': ctx.seed, 'kind': kind, 'content.xml': P.read_package(data)['members']['content.xml'].decode('utf-8')[-1500:]}
            need = list(g.tokens) if kind == 'text' else [t for t in g.tokens]
            for css in (True, False):
                ctx.oracle_cases += 1
                conv = ODF2XHTML(generate_css=css, embedable=False)
                rec = EV.Recorder(conv)
                try:
                    out = conv.odf2xhtml(fn)
                except Exception as e:
                    ctx.violation('xhtml-raised', dict(case, css=css), repr(e)[:200], 'a string', {'exception': type(e).__name__}); continue
                writer_events(ctx, d, rec, out, dict(case, css=css))
                import xml.parsers.expat
                try:
                    tree = parse_any(out)
                except xml.parsers.expat.ExpatError as e:
                    ctx.violation('xhtml-not-well-formed', dict(case, css=css), str(e) + ' :: ' + context(out, e), 'well-formed XML', {'aspect': 'well-formed'}); continue
                have = xhtml_tokens(tree)
                got = subsequence(need, have)
                if got < len(need):
                    ctx.violation('xhtml-text-lost', dict(case, css=css), {'missing_from': need[got], 'matched': got, 'of': len(need)}, 'every token in order', {'aspect': 'complete'})
                # ... and once: every generated word carries a number of its own
                seen_n = re.findall(r'w(\d+)q', have)
                twice = sorted(set(t for t in need + g.notes if seen_n.count(re.match(r'w(\d+)q', t).group(1)) > 1))
                if twice: ctx.violation('xhtml-text-duplicated', dict(case, css=css), twice[:5], 'every word of the document once', {'aspect': 'complete'})
                for a_, b_, el_ in g.gaps:
                    i_ = have.find(a_); j_ = have.find(b_, i_ + len(a_)) if i_ >= 0 else -1
                    if i_ >= 0 and j_ >= 0 and not re.fullmatch(r'[\s\u00a0]+', have[i_ + len(a_):j_]):
                        ctx.violation('xhtml-white-space-misplaced', dict(case, css=css), {'between': [a_, b_], 'found': have[i_ + len(a_):j_][:40], 'element': 'text:' + el_}, 'white space between the two words', {'aspect': 'complete'}); break
                gotn = subsequence(g.notes, have)
                if gotn < len(g.notes):
                    ctx.violation('xhtml-note-text-lost', dict(case, css=css), {'missing_from': g.notes[gotn]}, 'every footnote token, in order', {'aspect': 'complete'})
                bad = [e for e in all_elements(tree) if e not in ALLOWED_XHTML]
                if bad: ctx.violation('xhtml-structure-changed', dict(case, css=css), sorted(set(bad))[:5], 'only the converter\'s own elements', {'aspect': 'injection'})
            if kind == 'text':
                ctx.oracle_cases += 1
                try:
                    mm = ODF2MoinMoin(fn).toString()
                    have = tokens_of_text(mm)
                    flat = ' '.join(have)
                    miss = [w for w in need + g.notes if w not in flat]
                    seen_m = re.findall(r'w(\d+)q', mm)
                    twice = sorted(set(t for t in need + g.notes if seen_m.count(re.match(r'w(\d+)q', t).group(1)) > 1))
                    if twice: ctx.violation('moinmoin-text-duplicated', case, twice[:5], 'every word of the document once', {'aspect': 'complete'})
                    if miss: ctx.violation('moinmoin-text-lost', case, miss[:4], 'every token present', {'aspect': 'complete'})
                except Exception as e:
                    ctx.violation('moinmoin-raised', case, repr(e)[:200], 'a string', {'exception': type(e).__name__})
            if g.hot: ctx.nt((kind, len(g.tokens), i))
            ctx.bump('kind=' + kind)
        # a note inside the body of a note: the schema allows it (no office suite offers it)
        nested = ('<text:p>w1q<text:note text:id="f1" text:note-class="footnote"><text:note-citation>1</text:note-citation><text:note-body><text:p>w2q'
                  '<text:note text:id="f2" text:note-class="endnote"><text:note-citation>i</text:note-citation><text:note-body><text:p>w3q</text:p></text:note-body></text:note>'
                  'w4q</text:p></text:note-body></text:note>w5q</text:p>')
        fn = os.path.join(tmpdir, 'nested.odt'); open(fn, 'wb').write(P.simple_package(nested))
        for css in (True, False):
            ctx.oracle_cases += 1
            case = {'directed': 'a note inside a note', 'content.xml': nested, 'css': css}
            try:
                have = xhtml_tokens(parse_any(ODF2XHTML(generate_css=css, embedable=False).odf2xhtml(fn)))
                lost = [w for w in ('w1q', 'w2q', 'w3q', 'w4q', 'w5q') if w not in have]
                if lost: ctx.violation('xhtml-text-lost', case, lost, 'every word of the document', {'aspect': 'complete', 'feature': 'note-inside-note'})
            except Exception as e:
                ctx.violation('xhtml-raised', case, repr(e)[:200], 'a string', {'exception': type(e).__name__, 'feature': 'note-inside-note'})
        # styles that are odd and loadable: two styles that name each other as parent; a fill image that is not declared
        import signal
        class Slow(Exception): pass
        def alarm(*_): raise Slow()
        odd = {'parent styles in a circle': ('<style:style style:name="PA" style:family="paragraph" style:parent-style-name="PB"/><style:style style:name="PB" style:family="paragraph" style:parent-style-name="PA"><style:text-properties fo:color="#ff0000"/></style:style>',
                                               '<text:p text:style-name="PA">w1q</text:p><text:p text:style-name="PB">w2q</text:p>'),
               'a fill image that is not declared': ('<style:style style:name="gr1" style:family="graphic"><style:graphic-properties draw:fill="bitmap" draw:fill-image-name="Nope"/></style:style>',
                                                     '<text:p>w1q<draw:frame draw:style-name="gr1" svg:width="1cm" svg:height="1cm"><draw:text-box><text:p>w2q</text:p></draw:text-box></draw:frame></text:p>')}
        for label, (autos_, body_) in odd.items():
            fn = os.path.join(tmpdir, 'odd.odt'); open(fn, 'wb').write(P.simple_package(body_, autostyles=autos_))
            for css in (True, False):
                ctx.oracle_cases += 1
                case = {'directed': label, 'automatic-styles': autos_, 'body': body_, 'css': css}
                old_h = signal.signal(signal.SIGALRM, alarm); signal.alarm(20)
                try:
                    have = xhtml_tokens(parse_any(ODF2XHTML(generate_css=css, embedable=False).odf2xhtml(fn)))
                    if 'w1q' not in have or 'w2q' not in have: ctx.violation('xhtml-text-lost', case, have[:80], 'both words', {'aspect': 'complete'})
                except Slow:
                    ctx.violation('xhtml-does-not-terminate', case, 'no result after 20 s', 'a string', {'aspect': 'total'})
                except Exception as e:
                    ctx.violation('xhtml-raised', case, repr(e)[:200], 'a string', {'exception': type(e).__name__})
                finally:
                    signal.alarm(0); signal.signal(signal.SIGALRM, old_h)
        # MoinMoin: a span that holds nothing but the blank between two words
        fn = os.path.join(tmpdir, 'blank.odt')
        open(fn, 'wb').write(P.simple_package('<text:p>w1q<text:span text:style-name="T1"> </text:span>w2q<text:span text:style-name="T1"><text:s/></text:span>w3q<text:span><text:tab/></text:span>w4q</text:p>',
                                              autostyles='<style:style style:name="T1" style:family="text"><style:text-properties fo:font-weight="bold"/></style:style>'))
        ctx.oracle_cases += 1
        try:
            mm = ODF2MoinMoin(fn).toString()
            if not re.search(r'w1q\s+w2q\s+w3q\s+w4q', mm):
                ctx.violation('moinmoin-white-space-lost', {'directed': 'spans that hold only white space'}, mm[:120], 'white space between the words', {'aspect': 'complete'})
        except Exception as e:
            ctx.violation('moinmoin-raised', {'directed': 'spans that hold only white space'}, repr(e)[:200], 'a string', {'exception': type(e).__name__})
    finally:
        import shutil; shutil.rmtree(tmpdir, ignore_errors=True)

ALLOWED_XHTML = {'html', 'head', 'meta', 'title', 'style', 'body', 'p', 'h1', 'h2', 'h3', 'h4', 'h5', 'h6', 'span', 'a', 'ul', 'ol', 'li', 'table', 'tr', 'td', 'th', 'col', 'colgroup',
                 'div', 'img', 'br', 'sup', 'sub', 'link', 'dl', 'dt', 'dd', 'hr', 'fieldset', 'legend', 'tbody', 'thead', 'caption', 'em', 'strong', 'b', 'i', 'u', 'pre', 'blockquote', 'object'}

def parse_any(s):
    """expat over the converter's output (it starts with a DOCTYPE, which the C02 reader refuses)"""
    import xml.parsers.expat
    p = xml.parsers.expat.ParserCreate()
    stack = [('E', ('', 'ROOT'), [], [])]
    def start(n, a):
        e = ('E', ('', n.split(':')[-1]), list(a.items()), []); stack[-1][3].append(e); stack.append(e)
    def end(n): stack.pop()
    def chars(d): stack[-1][3].append(('T', d))
    p.StartElementHandler = start; p.EndElementHandler = end; p.CharacterDataHandler = chars
    p.Parse(s.encode('utf-8') if isinstance(s, str) else s, True)
    return stack[0][3][0]

def all_elements(t, acc=None):
    acc = acc if acc is not None else []
    if t[0] == 'E':
        acc.append(t[1][1])
        for k in t[3]: all_elements(k, acc)
    return acc

def context(out, e):
    lines = out.split('\n')
    ln = getattr(e, 'lineno', 1)
    return lines[ln - 1][max(0, e.offset - 60): e.offset + 40] if 0 < ln <= len(lines) else ''

def replay(ctx, case):
    print(json.dumps(case, indent=1)[:3000]); return 1
