# C20 — the list-style builder yields one correct level definition per specification.
import io, re
import vlib, xmllib as X
from vlib import sx_str, sx_to_pystr

THEOREMS = ['C20_levels', 'C20_number', 'C20_bullet', 'C20_dichotomy', 'C20_string', 'C20_spacing (props/C20.v)']
RULE = ('correspondence: generated specification lists (format character at start/middle/end/absent/several, non-ASCII bullets, markup '
        'characters, 1-10 levels, both display modes, every delimiter for the string form, spacings with every CSS unit in both cases, '
        'with and without blanks, integer and fractional numbers) through styleFromList / styleFromString and through the extracted '
        'model; compared: number, kind, level, format, prefix, suffix, display-levels, bullet, and the space-before / min-label-width '
        'strings recomputed with Python floats from the model\'s factor and unit. oracle: the property clauses read off the returned '
        'element (children, attributes), acceptance by automaticstyles.addElement, serialisation + expat. non-trivial = a list with at '
        'least one numbering level and one bullet level, or a spacing with a unit; distinct by input.')
TRUSTED = ['modelled, not verified: re.search on the two patterns, float(), str(float), float multiplication (the model is parametric in them)']
ASSUMPTIONS = ['specifications are non-empty strings; the spacing starts with a number (CSS length)']

TEXTNS = X.TEXTNS; STYLENS = 'urn:oasis:names:tc:opendocument:xmlns:style:1.0'
UNITS = ['cm', 'mm', 'in', 'pt', 'pc', 'px', 'em', 'ex', 'CM', 'Pt', '']

def rand_spec(rng):
    fmt = '1IiAa'
    other = '*-+.)(#>•●§bxYZ 0z&<"' + '\u0131\u0130\u212a\u017f\uff21\uff11' + '\u0302\u0338\u093c\ufe0f'      # dotless i, dotted I, Kelvin sign, long s, full-width A and 1: not format characters
    k = rng.random()
    n = rng.randint(0, 3)
    pre = ''.join(rng.choice(other) for _ in range(n))
    suf = ''.join(rng.choice(other + fmt) for _ in range(rng.randint(0, 3)))
    if k < 0.55: return pre + rng.choice(fmt) + suf
    s = pre + ''.join(rng.choice(other) for _ in range(rng.randint(0, 2)))
    return s or rng.choice(other)

def describe(ls):
    """what the returned text:list-style element says, level by level"""
    out = []
    for lv in ls.childNodes:
        q = lv.qname[1]
        props = [c for c in lv.childNodes if c.qname[1] == 'list-level-properties']
        sb = props[0].getAttrNS(TEXTNS, 'space-before') if props else None
        mw = props[0].getAttrNS(TEXTNS, 'min-label-width') if props else None
        if q == 'list-level-style-number':
            out.append({'level': lv.getAttrNS(TEXTNS, 'level'), 'kind': 'num', 'fmt': lv.getAttrNS(STYLENS, 'num-format'),
                        'prefix': lv.getAttrNS(STYLENS, 'num-prefix') or '', 'suffix': lv.getAttrNS(STYLENS, 'num-suffix') or '',
                        'display': lv.getAttrNS(TEXTNS, 'display-levels'), 'sb': sb, 'mw': mw, 'nprops': len(props)})
        elif q == 'list-level-style-bullet':
            out.append({'level': lv.getAttrNS(TEXTNS, 'level'), 'kind': 'bul', 'char': lv.getAttrNS(TEXTNS, 'bullet-char'), 'sb': sb, 'mw': mw, 'nprops': len(props)})
        else:
            out.append({'kind': 'other:' + q})
    return out

def model_view(m, num, unit):
    out = []
    for lv in m:
        level, kind, factor = int(lv[0]), lv[1], int(lv[2])
        sb = str(num * factor) + unit; mw = str(num) + unit
        if kind[0] == 'num':
            out.append({'level': str(level), 'kind': 'num', 'fmt': chr(int(kind[1])), 'prefix': sx_to_pystr(kind[2]), 'suffix': sx_to_pystr(kind[3]),
                        'display': str(int(kind[4])), 'sb': sb, 'mw': mw, 'nprops': 1})
        else:
            out.append({'level': str(level), 'kind': 'bul', 'char': chr(int(kind[1])), 'sb': sb, 'mw': mw, 'nprops': 1})
    return out

def run(ctx):
    from odf import easyliststyle as E
    from odf.opendocument import OpenDocumentText
    d = ctx.get_driver()
    # delimiters of several characters, and a last specification that ends in one of the delimiter's characters (the string is not
    # ambiguous: the delimiter as a whole occurs only between the specifications)
    for specs, dl in ((['*', '1:'], '::'), (['1.', '*', 'x-'], '->'), (['a)', 'i>'], '>>'), (['1.', 'A.', '.'], '..,'), (['-', 'a:', '1,'], ':,'), (['*'], '**-'), (['1)', 'o', 'a|'], '||')):
        for show in (True, False):
            ctx.oracle_cases += 1
            want = describe(E.styleFromList('D', specs, '0.5cm', show))
            try: got = describe(E.styleFromString('D', dl.join(specs), dl, '0.5cm', show))
            except Exception as e: got = ['Raise', type(e).__name__]
            if dl.join(specs).split(dl) != specs: raise RuntimeError('harness: ambiguous directed string %r' % (dl.join(specs),))
            if got != want:
                ctx.violation('string-form-differs', {'specs': specs, 'delimiter': dl, 'spacing': '0.5cm', 'show_all': show}, got, want, {'delimiter': dl})
    N = 600 if ctx.quick else 12000
    for i in range(N):
        specs = [rand_spec(ctx.rng) for _ in range(ctx.rng.randint(1, 10))]
        show = ctx.rng.random() < 0.5
        numtxt = ctx.rng.choice(['0.5', '1', '2.25', '.75', '10', '0', '3.', '1.5 ', ' 2', '0.125', '0.004', '1.333', '0.1', '0.3333333', '12.5', '0.07'])
        if ctx.rng.random() < 0.3: numtxt = '%d.%s' % (ctx.rng.randint(0, 20), ''.join(ctx.rng.choice('0123456789') for _ in range(ctx.rng.randint(1, 6))))     # any number of decimals
        unit = ctx.rng.choice(UNITS)
        spacing = numtxt + ctx.rng.choice(['', '', ' ']) + unit
        # spacing -> (number text, unit): model vs re
        mcss = d.call('el_css', sx_str(spacing))
        mo = re.compile("([^a-z]+)\\s*([a-z]+)?", re.IGNORECASE).search(spacing)
        ctx.corr('cssLengthPattern', spacing, None if mcss == 'None' else (sx_to_pystr(mcss[1][0]), sx_to_pystr(mcss[1][1])),
                 (mo.group(1), mo.group(2) or '') if mo else None)
        try:
            ls = E.styleFromList('L%d' % i, specs, spacing, show); impl = describe(ls)
        except Exception as e:
            impl = ['Raise', type(e).__name__]; ls = None
        m = d.call('el_list', '(' + ' '.join(sx_str(s) for s in specs) + ')', '1' if show else '0')
        num = float(mo.group(1)); un = mo.group(2) or ''
        ctx.corr('styleFromList', {'specs': specs, 'spacing': spacing, 'show_all': show}, model_view(m[1], num, un) if m[0] == 'Ok' else ['Raise', m[1]], impl)
        # string form with a delimiter that occurs in no specification
        delims = [c for c in [',', ';', '|', '/', '~', '\t', '.', '$', '^', '*', '+', '?', '\\', '[', '(', ')', '#', '!', ' ', '::', '{', '-'] if all(c not in s for s in specs)]
        if delims:
            dl = delims[i % len(delims)] if i % 2 else ctx.rng.choice(delims)          # every delimiter in turn, and random ones
            try: impl2 = describe(E.styleFromString('L%d' % i, dl.join(specs), dl, spacing, show))
            except Exception as e: impl2 = ['Raise', type(e).__name__]
            if impl2 != impl:          # the string form is the list form of its pieces, whatever the delimiter
                ctx.violation('string-form-differs', {'specs': specs, 'delimiter': dl, 'spacing': spacing, 'show_all': show}, impl2, impl, {'delimiter': dl})
            m2 = d.call('el_fromstring', sx_str(dl.join(specs)), str(ord(dl)), '1' if show else '0') if len(dl) == 1 else None
            if m2 is not None: ctx.corr('styleFromString', {'specs': specs, 'delim': dl}, model_view(m2[1], num, un) if m2[0] == 'Ok' else ['Raise', m2[1]], impl2)
        # ---- oracle: the property on the real result --------------------------------------
        ctx.oracle_cases += 1
        case = {'specs': specs, 'spacing': spacing, 'show_all': show}
        if ls is None:
            ctx.violation('builder-raised', case, impl, 'a list style', {'exception': impl[1]}); continue
        if len(impl) != len(specs) or [x.get('level') for x in impl] != [str(k + 1) for k in range(len(specs))]:
            ctx.violation('levels', case, [x.get('level') for x in impl], '1..n in order', {})
        for k, (spec, got) in enumerate(zip(specs, impl)):
            pos = [j for j, c in enumerate(spec) if c in '1IiAa']
            if pos:
                j = pos[0]
                want = {'kind': 'num', 'fmt': spec[j], 'prefix': spec[:j], 'suffix': spec[j + 1:], 'display': str(k + 1 if show else 1)}
            else:
                want = {'kind': 'bul', 'char': spec[0]}
            if any(got.get(a) != b for a, b in want.items()):
                ctx.violation('level-definition', dict(case, level=k + 1), {a: got.get(a) for a in want}, want, {'kind': want['kind']})
            if got.get('sb') != str(num * (k + 1)) + un or got.get('mw') != str(num) + un or got.get('nprops') != 1:
                ctx.violation('indentation', dict(case, level=k + 1), [got.get('sb'), got.get('mw')], [str(num * (k + 1)) + un, str(num) + un], {})
        try:
            doc = OpenDocumentText(); doc.automaticstyles.addElement(ls)
            r = X.expat_parse(doc.contentxml())
            if r[0] != 'ok': ctx.violation('serialisation', case, r[1], 'well-formed', {})
        except Exception as e:
            ctx.violation('grammar-refuses-result', case, type(e).__name__ + ': ' + str(e), 'accepted', {})
        if any(x['kind'] == 'num' for x in impl) and any(x['kind'] == 'bul' for x in impl) or un: ctx.nt((tuple(specs), spacing, show))
        if i < 2: ctx.sample({'specs': specs, 'spacing': spacing, 'show_all': show, 'levels': impl})
        ctx.bump('levels=%d' % len(specs)); ctx.bump('unit=%s' % (un or '-'))

def replay(ctx, case):
    import json
    from odf import easyliststyle as E
    print(json.dumps(case, indent=1)[:2000])
    c = case['case']
    print(describe(E.styleFromList('L', c['specs'], c['spacing'], c['show_all']))); return 1
