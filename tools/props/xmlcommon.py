# shared by C01 / C02: correspondence streams for the XML layer and the oracles
import io, itertools
import vlib, xmllib as X
from vlib import sx_str, sx_to_pystr

SIG12 = '&<>"\'] \t\n\r\x01a'

def discouraged(c):
    return 0x7f <= c <= 0x84 or 0x86 <= c <= 0x9f or (c >= 0x1fffe and (c & 0xfffe) == 0xfffe)

def explain_diff(want, got, path='/'):
    """list of (path, kind) for every difference between two canonical trees;
    kind = 'discouraged' when the difference is exactly: XML-representable but
    'discouraged' code points replaced by U+FFFD"""
    out = []
    def cmp_str(a, b, p):
        if a == b: return
        if len(a) == len(b) and all(x == y or (y == '�' and discouraged(ord(x))) for x, y in zip(a, b)):
            out.append((p, 'discouraged'))
        else:
            out.append((p, 'other'))
    def go(a, b, p):
        if a[0] != b[0]: out.append((p, 'other')); return
        if a[0] == 'T': cmp_str(a[1], b[1], p); return
        if a[1] != b[1]: out.append((p, 'other')); return
        if [x[0] for x in a[2]] != [x[0] for x in b[2]]: out.append((p + '@', 'other'))
        else:
            for (n, v), (_, w) in zip(a[2], b[2]): cmp_str(v, w, p + '@' + n[1])
        if len(a[3]) != len(b[3]): out.append((p + '*', 'other')); return
        for i, (x, y) in enumerate(zip(a[3], b[3])): go(x, y, p + '%d/' % i)
    go(want, got, path)
    return out

# strings built around the markers the printers themselves write (a textual post-processing of the output would trip here)
DIRECTED = ['<![CDATA[', 'x<![CDATA[', '<![CDATA[]]>', 'a<![CDATA[]]>b', ']]><![CDATA[', '<![CDATA[<![CDATA[', ']]>]]>', ']]]]><![CDATA[>', '&#13;', '&#13;\r', '\r<![CDATA[',
            'Berlin\n', 'a\n', 'http://x/y#z\n', '\nBerlin', 'a\tb\n', 'x\r', 'x\r\n', ' x ', '&quot;', '"x\'', "'\"", '&amp;amp;', '<!--', '-->', '<?x?>', '&#x3c;', 'é\n', '%\n']

def corr_strings(ctx, strings, oracle=None):
    """printer model vs element.py on single strings; oracle = 'wf' (C01) or 'rt' (C02): the three real outputs wrapped in one
    element and handed to expat"""
    from odf.element import Text, CDATASection, _quoteattr
    d = ctx.get_driver()
    for s in strings:
        f = io.StringIO(); Text(s).toXml(0, f); rt_ = f.getvalue()
        ctx.corr('Text.toXml', s, sx_to_pystr(d.call('xp_text', sx_str(s))), rt_)
        f = io.StringIO(); CDATASection(s).toXml(0, f); rc_ = f.getvalue()
        ctx.corr('CDATASection.toXml', s, sx_to_pystr(d.call('xp_cdata', sx_str(s))), rc_)
        ra_ = _quoteattr(s)
        ctx.corr('_quoteattr', s, sx_to_pystr(d.call('xp_attr', sx_str(s))), ra_)
        if oracle:
            ctx.oracle_cases += 1
            case = {'codepoints': [ord(c) for c in s]}
            want = ''.join(c if X.xml10_char(ord(c)) else '\ufffd' for c in s)
            for pos, docu in (('text', '<r>%s</r>' % rt_), ('cdata', '<r>%s</r>' % rc_), ('attribute', '<r a=%s/>' % ra_)):
                ex = X.expat_parse(docu)
                if ex[0] != 'ok':
                    ctx.violation('not-well-formed', dict(case, position=pos), ex[1], 'accepted by expat', {'cause': 'illformed', 'rendering': 'Element.toXml'})
                elif oracle == 'rt' and not any(discouraged(ord(c)) for c in s):
                    got = ex[1][2][0][1] if pos == 'attribute' else ''.join(k[1] for k in ex[1][3])
                    if got != want:
                        ctx.violation('roundtrip', dict(case, position=pos), [ord(c) for c in got], [ord(c) for c in want], {'cause': 'other'})
        cls = ''.join(sorted(set(('S' if c in X.SIGNIF else 'W' if c in X.WS else 'C' if ord(c) < 32 or 0x7f <= ord(c) <= 0x9f
                                  else 'O' if not X.xml10_char(ord(c)) or discouraged(ord(c)) else 'L') for c in s)))
        ctx.bump('string-classes=' + (cls or '-'))
        if any(c in s for c in '&<>"\'\t\n\r]') or any(not X.xml10_char(ord(c)) for c in s): ctx.nt(('s', s))

def short_strings(maxlen):
    for n in range(maxlen + 1):
        for t in itertools.product(SIG12, repeat=n):
            yield ''.join(t)

def corr_tree(ctx, t, check_parse=True):
    """printer model vs Element.toXml on a tree, model parser vs expat on the output,
    model canon vs the parse. returns (real output, expat result)"""
    d = ctx.get_driver()
    e = X.build_real(t)
    env = X.current_env()
    real = X.real_toXml(e)
    ctx.corr('Element.toXml(level 0)', t, sx_to_pystr(d.call('xp_node', X.env_sx(env), '1', X.node_sx(t))), real)
    real1 = X.real_toXml(e, 1)
    ctx.corr('Element.toXml(level 1)', t, sx_to_pystr(d.call('xp_node', X.env_sx(env), '0', X.node_sx(t))), real1)
    ex = X.expat_parse(real)
    if check_parse:
        mp = d.call('xml_parse', sx_str(real))
        if ex[0] == 'ok':
            ctx.corr('xml_parse vs expat (accept)', real, None if mp == 'None' else X.node_from_sx(mp[1]), ex[1])
        else:
            ctx.corr('xml_parse vs expat (reject)', real, mp, 'None')
        mc = X.node_from_sx(d.call('canon', X.node_sx(t)))
        from odf.element import _handle_unrepresentable
        ctx.corr('canon', t, mc, X.canon(t, strict=False, filt=_handle_unrepresentable))
    # the printer must be a function of the *current* tree: edit strings in place, render again
    if ctx.rng.random() < 0.5:
        t2 = edit_strings(ctx.rng, t)
        apply_edits(e, t2)
        real2 = X.real_toXml(e)
        ctx.corr('Element.toXml after in-place edit', t2, sx_to_pystr(d.call('xp_node', X.env_sx(X.current_env()), '1', X.node_sx(t2))), real2)
        ex2 = X.expat_parse(real2)
        r = oracle_tree(ctx, t2, e, real2, ex2)
        if r is not None and not (r[0] == 'mismatch' and r[1] == ['discouraged']):
            ctx.violation('roundtrip' if r[0] == 'mismatch' else 'not-well-formed', {'rendering': 'Element.toXml after in-place edit of .data / attribute values', 'before': t, 'case': t2},
                          r[1:3], 'strict canon of the edited tree', {'cause': 'other' if r[0] == 'mismatch' else 'illformed', 'rendering': 'Element.toXml'})
        t, real, ex = t2, real2, ex2
    ctx.bump('tree-size<=%d' % (1 << max(0, (X.tree_size(t) - 1)).bit_length()))
    ctx.nt(('t', repr(t)))
    return e, real, ex

# independent documents for the specification parser (L1') vs expat
HAND_DOCS = [
  '<a/>', '<a></a>', '<a b="1" c=\'2\'/>', '<a  b = "1"\n c\t=\t\'2\' />', '<a>x<b>y</b>z</a>',
  '<?xml version="1.0"?><a/>', "<?xml version='1.0' encoding='UTF-8'?>\n<a/>\n", ' <a/>', '<a/><b/>', '<a>', '</a>', '<a></b>',
  '<a b="1" b="2"/>', '<a b="<"/>', '<a b="&lt;&#60;&#x3c;&#x3C;"/>', '<a>&amp;&lt;&gt;&quot;&apos;</a>', '<a>&bogus;</a>', '<a>&#0;</a>',
  '<a>&#1;</a>', '<a>&#xD800;</a>', '<a>&#x10FFFF;</a>', '<a>&#x110000;</a>', '<a>&#65534;</a>', '<a>&#9;&#10;&#13;</a>',
  '<a>]]></a>', '<a>]]</a>', '<a>]>]</a>', '<a><![CDATA[x]]></a>', '<a><![CDATA[]]]]><![CDATA[>]]></a>', '<a><![CDATA[<&]]>y</a>',
  '<a><![CDATA[x]]</a>', '<a><![cdata[x]]></a>', '<a>\r\n\r</a>', '<a b="\r\n\t x"/>', '<a b="x\ry"/>', '<a><![CDATA[\r\n\r]]></a>',
  '<p:a xmlns:p="u"/>', '<p:a/>', '<p:a xmlns:p=""/>', '<a xmlns="u"><b/></a>', '<a xmlns="u" xmlns:p="u" b="1" p:b="2"/>',
  '<a xmlns:p="u" xmlns:q="u" p:b="1" q:b="2"/>', '<a xmlns:p="u"><p:b xmlns:p="v"><p:c/></p:b><p:d/></a>', '<a:b:c xmlns:a="u"/>',
  '<a xmlns:xmlns="u"/>', '<a xml:space="preserve"/>', '<a :b="1"/>', '<:a/>', '<a b:="1" xmlns:b="u"/>', '<1a/>', '<a-b.c_d/>', '<-a/>',
  '<a b=1/>', '<a b/>', '<a b="1"c="2"/>', '<a/ >', '< a/>', '<a>\x01</a>', '<a b="\x01"/>', '<a>x</a>y', '<a>x</a> \n', 'x<a/>',
  '<a><b></a></b>', '<a b="1" ></a >', '<a></a b="1">', '<a>&#x;</a>', '<a>&#;</a>', '<a>&amp</a>', '<a>&;</a>', '<a b="&quot;\'"/>',
  '<a xmlns:p="u" xmlns:p="v"/>', '<a xmlns="u" xmlns="v"/>', '<a xmlns=""><b xmlns="u"/></a>', '<a>\ufffe</a>', '<a>\ufffd\U0010ffff</a>',
]

def mutate(rng, s):
    if not s: return s
    k = rng.random()
    i = rng.randrange(len(s))
    if k < 0.35: return s[:i] + s[i + 1:]
    if k < 0.7: return s[:i] + rng.choice('<>&"\'/= ]!;#x:a1[\r\n\t') + s[i:]
    j = rng.randrange(len(s))
    return s[:i] + s[j] + s[i + 1:]

def corr_parser(ctx, n_mut):
    """specification parser vs expat on hand-written and mutated documents"""
    d = ctx.get_driver()
    docs = list(HAND_DOCS)
    base = [x for x in HAND_DOCS]
    for _ in range(n_mut):
        docs.append(mutate(ctx.rng, ctx.rng.choice(base)))
    acc = rej = skipped = 0
    for doc in docs:
        ex = X.expat_parse(doc)
        if ex[0] == 'err' and 'outside the modelled' in ex[1]: skipped += 1; continue
        if any(ord(c) > 127 for c in doc) and ex[0] == 'ok' and not doc_names_ascii(ex[1]): skipped += 1; continue
        if doc.lstrip(' \t\r\n') != doc and doc.lstrip().startswith('<?xml'): skipped += 1; continue
        if '<?' in doc[1:] or '<!-' in doc or '<!D' in doc or (doc.startswith('<?xml') and not decl_simple(doc)): skipped += 1; continue
        mp = d.call('xml_parse', sx_str(doc))
        if ex[0] == 'ok':
            acc += 1
            ctx.corr('spec parser vs expat (accept)', doc, None if mp == 'None' else X.node_from_sx(mp[1]), ex[1])
        else:
            rej += 1
            ctx.corr('spec parser vs expat (reject: %s)' % ex[1].split(':')[0], doc, mp, 'None')
        ctx.nt(('doc', doc))
    ctx.bump('parser-docs-accepted', acc); ctx.bump('parser-docs-rejected', rej); ctx.bump('parser-docs-outside-sublanguage', skipped)

def decl_simple(doc):
    import re
    return re.match(r'''<\?xml\s+version=(["'])1\.0\1(\s+encoding=(["'])(UTF-8|utf-8)\3)?\s*\?>''', doc) is not None

def doc_names_ascii(t):
    if t[0] == 'T': return True
    ok = all(ord(c) < 128 for c in t[1][1]) and all(all(ord(c) < 128 for c in a[0][1]) for a in t[2])
    return ok and all(doc_names_ascii(k) for k in t[3])

def oracle_tree(ctx, t, real_elem, real, ex, what='Element.toXml'):
    """C01/C02 on the real code for one tree: expat accepts and delivers the strict canon"""
    ctx.oracle_cases += 1
    src = X.walk_real(real_elem)
    want = X.canon(src, strict=True)
    if ex[0] != 'ok':
        return ('illformed', ex[1])
    diffs = explain_diff(want, ex[1])
    if not diffs: return None
    kinds = sorted(set(k for _, k in diffs))
    return ('mismatch', kinds, diffs[:3], want, ex[1])

def edit_strings(rng, t):
    if t[0] in 'TC': return (t[0], X.rand_text(rng, 10) if rng.random() < 0.6 else t[1])
    return ('E', t[1], [(a, X.rand_text(rng, 8) if rng.random() < 0.4 else v) for a, v in t[2]], [edit_strings(rng, k) for k in t[3]])

def apply_edits(e, t):
    """assign .data / setAttrNS on the existing real nodes so that they spell tree t"""
    from odf.element import Node
    if t[0] in 'TC':
        e.data = t[1]; return
    for a, v in t[2]: e.setAttrNS(a[0], a[1], v)
    for c, k in zip(e.childNodes, t[3]): apply_edits(c, k)
