# C02 — parsing emitted XML gives back exactly the in-memory tree.
import io
import vlib, xmllib as X
from vlib import sx_str, sx_to_pystr
from . import xmlcommon as XC, docgen

THEOREMS = [
 'C02_text / C02_attr / C02_cdata: the written form of every string (text node, attribute value in each quoting branch, CDATA section with "]]>" and CR) lexes back to the filtered string',
 'C02_roundtrip: forall env q atts kids, doc_ok F env t = true -> xml_parse (prologue ++ node_toXml F env true t) = Some (canon F t)',
 'C02_roundtrip_element: same without the prologue',
 'C02_canon_strict: canon F = the property\'s canonical form on every string without a code point of F \\ illegal',
 'C02_strict_refuted: exists c, xml10_char c = true /\\ in_ranges F c = true   (U+007F; known finding)',
]
RULE = ('correspondence: (a) Text.toXml / CDATASection.toXml / _quoteattr vs the extracted printer on every string over 12 XML-significant '
        'characters up to length L (L=3 quick, 4 thorough) plus seeded weighted-alphabet strings; (b) Element.toXml at level 0 and 1 on '
        'generated trees (depth<=4, qualified/unqualified/foreign names, Text and CDATA children) vs node_toXml; (c) the specification parser '
        '(xml_parse) vs expat on the real output and on hand-written + mutated documents (accept and reject streams); (d) canon. '
        'oracle: expat parse of what the real code emits vs an independent strict canon of a walk over qname/attributes/childNodes/data, for '
        'Element.toXml, contentxml, stylesxml, metaxml, settingsxml, xml(); per-code-point sweep in text, attribute and CDATA position. '
        'non-trivial = contains an XML-significant or unrepresentable character / is a tree; distinct by content hash.')
TRUSTED = ['specification side: XmlLex/XmlTree (XML 1.0 + Namespaces sub-language without DTD/PI/comments, ASCII names), validated against expat on every run',
           'modelled, not verified: str.replace, re.sub on a character class, dict iteration order, StringIO']
ASSUMPTIONS = ['element and attribute local names are ASCII NCNames, namespace names contain no ", TAB, LF, CR and no filtered code point (doc_ok)',
               'UTF-8 encoding/decoding is CPython\'s/expat\'s']

def run(ctx):
    L = 3 if ctx.quick else 4
    # (a) strings
    XC.corr_strings(ctx, XC.DIRECTED, oracle='rt')
    XC.corr_strings(ctx, XC.short_strings(L), oracle='rt')
    ctx.exhaustive.append('all strings over %r up to length %d in text, CDATA and attribute position' % (XC.SIG12, L))
    XC.corr_strings(ctx, (X.rand_text(ctx.rng, 40) for _ in range(2000 if ctx.quick else 40000)), oracle='rt')
    # (b)(c)(d) trees + oracle
    n = 600 if ctx.quick else 8000
    for i in range(n):
        t = X.rand_tree(ctx.rng)
        e, real, ex = XC.corr_tree(ctx, t)
        r = XC.oracle_tree(ctx, t, e, real, ex)
        report(ctx, 'Element.toXml', t, r)
        if i < 3: ctx.sample({'tree': t, 'xml': real[-200:]})
    XC.corr_parser(ctx, 1500 if ctx.quick else 30000)
    # renderings of whole documents
    doc_renderings(ctx, 25 if ctx.quick else 300)
    # per-code-point sweep
    sweep(ctx)

def report(ctx, what, case, r):
    if r is None: return
    if r[0] == 'illformed':
        ctx.violation('not-well-formed', {'rendering': what, 'case': case}, r[1], 'accepted by expat', {'cause': 'illformed', 'rendering': what})
    else:
        kinds = r[1]
        cause = 'discouraged-codepoint' if kinds == ['discouraged'] else 'other'
        ctx.violation('roundtrip', {'rendering': what, 'case': case, 'where': r[2]}, r[4] if cause == 'other' else r[2], r[3] if cause == 'other' else 'strict canon',
                      {'cause': cause})

def doc_renderings(ctx, n):
    from odf.opendocument import OpenDocumentText, OpenDocumentSpreadsheet, OpenDocumentPresentation
    for i in range(n):
        doc = ctx.rng.choice([OpenDocumentText, OpenDocumentSpreadsheet, OpenDocumentPresentation])()
        docgen.fill_document(ctx.rng, doc)
        snap = {sec: X.canon(X.walk_real(getattr(doc, attr)), strict=True) for sec, attr in docgen.SECTIONS.items()}
        for name, fn, secs in [('contentxml', doc.contentxml, ['body', 'font-face-decls', 'scripts']),
                               ('stylesxml', doc.stylesxml, ['styles', 'master-styles']),
                               ('metaxml', doc.metaxml, ['meta']), ('settingsxml', doc.settingsxml, ['settings']),
                               ('xml', doc.xml, ['body', 'styles', 'meta', 'settings', 'automatic-styles', 'master-styles'])]:
            if name in ('metaxml', 'xml'):
                snap['meta'] = None    # generator is normalised by these calls: compare after the call
            out = fn()
            ctx.oracle_cases += 1
            ex = X.expat_parse(out)
            if ex[0] != 'ok':
                ctx.violation('not-well-formed', {'rendering': name}, ex[1], 'accepted by expat', {'cause': 'illformed', 'rendering': name}); continue
            got = docgen.find_sections(ex[1])
            for sec in secs:
                want = snap[sec] if snap[sec] is not None else X.canon(X.walk_real(getattr(doc, docgen.SECTIONS[sec])), strict=True)
                if sec not in got:
                    if want[3] or want[2]:
                        if not (sec in ('font-face-decls', 'scripts', 'master-styles', 'settings')):
                            ctx.violation('roundtrip', {'rendering': name, 'section': sec}, 'section missing', want, {'cause': 'other'})
                    continue
                diffs = XC.explain_diff(want, got[sec])
                if diffs:
                    kinds = sorted(set(k for _, k in diffs))
                    cause = 'discouraged-codepoint' if kinds == ['discouraged'] else 'other'
                    ctx.violation('roundtrip', {'rendering': name, 'section': sec, 'where': diffs[:3]}, got[sec] if cause == 'other' else diffs[:3],
                                  want if cause == 'other' else 'strict canon', {'cause': cause})
        ctx.nt(('doc', i, ctx.seed))

def codepoints(ctx):
    if not ctx.quick: return range(0x110000)
    s = set(range(0, 0x3000)) | set(range(0xd7f0, 0xe010)) | set(range(0xffe0, 0x10020)) | set(range(0x10fff0, 0x110000))
    for p in range(1, 17): s |= set(range(p * 0x10000 - 4, p * 0x10000 + 4))
    s |= set(range(0, 0x110000, 257))
    return sorted(s)

def sweep(ctx, wellformed_only=False):
    """every code point alone in text, attribute and CDATA position through the real printer and expat"""
    from odf.element import Element, Text, CDATASection
    cps = list(codepoints(ctx))
    B = 2000
    for i in range(0, len(cps), B):
        chunk = cps[i:i + B]
        root = Element(qname=(X.FOREIGN[0], 'r'), check_grammar=False)
        for c in chunk:
            e = Element(qname=(X.FOREIGN[0], 'c'), check_grammar=False)
            e.setAttrNS(X.FOREIGN[0], 'a', chr(c))
            e.appendChild(Text(chr(c)))
            f = Element(qname=(X.FOREIGN[0], 'd'), check_grammar=False)
            f.appendChild(CDATASection(chr(c)))
            root.appendChild(e); root.appendChild(f)
        out = X.real_toXml(root)
        ex = X.expat_parse(out)
        ctx.oracle_cases += 3 * len(chunk)
        if ex[0] != 'ok':
            # locate the offending code point by bisection on the real code
            bad = [c for c in chunk if X.expat_parse(X.real_toXml(one(c)))[0] != 'ok'][:5]
            ctx.violation('not-well-formed', {'codepoints': bad}, ex[1], 'accepted by expat', {'cause': 'illformed', 'rendering': 'Element.toXml'})
            continue
        kids = ex[1][3]
        for j, c in enumerate(chunk):
            want = chr(c) if X.xml10_char(c) else '�'
            e, f = kids[2 * j], kids[2 * j + 1]
            got = (e[2][0][1], e[3][0][1] if e[3] else '', f[3][0][1] if f[3] else '')
            if got != (want, want, want):
                cause = 'discouraged-codepoint' if discouraged_only(c, got) else 'other'
                if not wellformed_only: ctx.violation('roundtrip', {'codepoint': c, 'positions': ['attribute', 'text', 'cdata']}, [ord(x) for g in got for x in g], ord(want), {'cause': cause})
    # many characters that XML cannot carry in ONE string (every one of them has to be replaced, not the first few)
    illegal = [c for c in list(range(1, 32)) + [0xFFFE, 0xFFFF] if not X.xml10_char(c)]
    for n in (33, 64, 200, 1500):
        s_ = ''.join(chr(illegal[k % len(illegal)]) + ('' if k % 3 else 'a') for k in range(n))
        e = Element(qname=(X.FOREIGN[0], 'c'), check_grammar=False)
        e.setAttrNS(X.FOREIGN[0], 'a', s_); e.appendChild(Text(s_))
        f = Element(qname=(X.FOREIGN[0], 'd'), check_grammar=False); f.appendChild(CDATASection(s_)); e.appendChild(f)
        ex = X.expat_parse(X.real_toXml(e)); ctx.oracle_cases += 3
        want = ''.join(ch if X.xml10_char(ord(ch)) else '\ufffd' for ch in s_)
        if ex[0] != 'ok':
            ctx.violation('not-well-formed', {'string_of_illegal_characters': n, 'codepoints': [ord(ch) for ch in s_[:40]]}, ex[1], 'accepted by expat', {'cause': 'illformed', 'rendering': 'Element.toXml'})
        else:
            got = (ex[1][2][0][1], ex[1][3][0][1], ex[1][3][1][3][0][1])
            if got != (want, want, want) and not wellformed_only:
                k = next(i for i in range(len(want)) if any(len(g) <= i or g[i] != want[i] for g in got))
                ctx.violation('roundtrip', {'string_of_illegal_characters': n, 'first_difference_at': k, 'positions': ['attribute', 'text', 'cdata']}, [ord(g[k]) if len(g) > k else None for g in got], ord(want[k]), {'cause': 'other'})
    ctx.exhaustive.append('%d code points x {text, attribute, CDATA}%s' % (len(cps), '' if ctx.quick else ' (all of 0..0x10FFFF)'))
    ctx.bump('sweep-codepoints', len(cps))

def discouraged_only(c, got):
    return XC.discouraged(c) and all(g == '�' for g in got)

def one(c):
    from odf.element import Element, Text, CDATASection
    e = Element(qname=(X.FOREIGN[0], 'c'), check_grammar=False)
    e.setAttrNS(X.FOREIGN[0], 'a', chr(c)); e.appendChild(Text(chr(c))); e.appendChild(CDATASection(chr(c)))
    return e

def replay(ctx, case):
    import json
    c = case.get('case') or {}
    print(json.dumps(case, indent=1)[:3000])
    t = c.get('case') if isinstance(c, dict) else None
    if t:
        def fix(x):
            if isinstance(x, dict) and 'codepoints' in x: return ''.join(chr(i) for i in x['codepoints'])
            if isinstance(x, list): return [fix(y) for y in x]
            return x
        t = totuple(fix(t))
        e = X.build_real(t); real = X.real_toXml(e); ex = X.expat_parse(real)
        print('real output:', repr(real)); print('expat:', ex)
        r = XC.oracle_tree(ctx, t, e, real, ex)
        print('verdict:', r); return 0 if r is None else 1
    return 1

def totuple(t):
    if t[0] in 'TC': return (t[0], t[1])
    return ('E', tuple(t[1]), [((a[0][0], a[0][1]), a[1]) for a in t[2]], [totuple(k) for k in t[3]])
