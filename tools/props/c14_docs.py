# c14_docs.py — a fixed family of documents, rendered to canonical infosets. Run as a script in a
# FRESH process it prints them as JSON; imported, the same function is called after a process history.
import sys, os, io, json, glob
HERE = os.path.dirname(os.path.abspath(__file__))
sys.path.insert(0, os.path.dirname(HERE))
import xmllib as X, pkglib as P

def synthetic_packages():
    return {
      'pkg-foreign-A': P.simple_package('<text:p ext:mark="1">a<ext:x ext:y="z">t</ext:x></text:p>', extra_ns={'ext': 'urn:verif:A'}),
      'pkg-foreign-B': P.simple_package('<text:p ext:mark="2">b<ext:x ext:y="w">u</ext:x></text:p>', extra_ns={'ext': 'urn:verif:B'}),
      'pkg-unqualified': P.simple_package('<text:p plain="u" other="v">c</text:p>'),
      'pkg-default-ns': P.simple_package('<text:p>d</text:p><p xmlns="urn:verif:default"><q a="1">d</q></p>'),
      'pkg-mathml': P.simple_package('<text:p><math:math xmlns:math="http://www.w3.org/1998/Math/MathML"><math:mi mathvariant="italic">x</math:mi></math:math></text:p>'),
      'pkg-formula-known': P.simple_package('<table:table table:name="T"><table:table-column/><table:table-row><table:table-cell table:formula="of:=SUM([.A1])"><text:p>1</text:p></table:table-cell></table:table-row></table:table>',
                                            extra_ns={'of': 'urn:oasis:names:tc:opendocument:xmlns:of:1.2'}),
    }

def build_api_docs():
    from odf.opendocument import OpenDocumentText, OpenDocumentSpreadsheet
    from odf.element import Element
    from odf import text, table
    out = {}
    d = OpenDocumentText()
    p = text.P(text='plain')
    e = Element(qname=('urn:verif:api:one', 'x'), check_grammar=False)
    e.setAttrNS('urn:verif:api:two', 'a', 'v'); e.setAttrNS(None, 'bare', 'w')
    p.addElement(e, check_grammar=False); d.text.addElement(p)
    out['api-text'] = d
    s = OpenDocumentSpreadsheet()
    t = table.Table(name='T'); t.addElement(table.TableColumn()); r = table.TableRow()
    c = table.TableCell(formula='of:=SUM([.A1:.A2])'); c.addElement(text.P(text='1')); r.addElement(c); t.addElement(r)
    s.spreadsheet.addElement(t)
    out['api-sheet-formula'] = s
    return out

def infoset(data):
    r = X.expat_parse(data)
    return r[1] if r[0] == 'ok' else ['ILLFORMED', r[1]]

def decl_table(data):
    """(prefix, uri) declarations of the root element, in order, via expat"""
    import xml.parsers.expat
    out = []
    p = xml.parsers.expat.ParserCreate(namespace_separator=' ')
    depth = [0]
    def nsdecl(prefix, uri):
        if depth[0] == 0: out.append((prefix, uri))
    def start(n, a): depth[0] += 1
    p.StartNamespaceDeclHandler = nsdecl; p.StartElementHandler = start
    try: p.Parse(data if isinstance(data, bytes) else data.encode('utf-8'), True)
    except Exception as e: return [('ILLFORMED', str(e))]
    return out

def render_all():
    """name -> {'infoset': tree, 'decls': [(prefix, uri)]} for every document of the family"""
    from odf.opendocument import load
    res = {}
    def add(name, data):
        res[name] = {'infoset': infoset(data), 'decls': decl_table(data)}
    for name, d in build_api_docs().items():
        add(name + ':content', d.contentxml()); add(name + ':styles', d.stylesxml()); add(name + ':flat', d.xml())
    for name, pk in synthetic_packages().items():
        d = load(io.BytesIO(pk))
        add(name + ':content', d.contentxml()); add(name + ':styles', d.stylesxml())
    repo = os.environ.get('VERIF_REPO', '/repo')
    for ex in sorted(glob.glob(os.path.join(repo, 'tests', 'examples', '*.od?'))):
        try: d = load(ex)
        except Exception as e:
            res[os.path.basename(ex)] = {'raised': type(e).__name__}; continue
        add(os.path.basename(ex) + ':content', d.contentxml())
    return res

OF = 'urn:oasis:names:tc:opendocument:xmlns:of:1.2'
VALUE_CASES = [
  ('known-prefix', 'table:formula', 'of', OF, 'of:=SUM([.A1])'),
  ('known-prefix-no-equals', 'table:formula', 'ooow', 'http://openoffice.org/2004/writer', 'ooow:<A1>+<B1>'),
  ('known-prefix-token', 'table:formula', 'oooc', 'http://openoffice.org/2004/calc', 'oooc:sum'),
  ('own-prefix-for-known-namespace', 'table:formula', 'calc', OF, 'calc:=SUM([.A1])'),
  ('foreign-namespace', 'table:formula', 'msoxl', 'http://schemas.microsoft.com/office/excel/formula', 'msoxl:=SUM(A1)'),
  # every other attribute whose value may start with a namespace prefix (the attributes bound to cnv_formula), each with a prefix
  # of its own that nothing else in the document uses, so that only this attribute can have caused the declaration
  ('table-condition', 'table:condition', 'chart', 'urn:oasis:names:tc:opendocument:xmlns:chart:1.0', 'chart:cell-content()=1'),
  ('table-expression', 'table:expression', 'dr3d', 'urn:oasis:names:tc:opendocument:xmlns:dr3d:1.0', 'dr3d:x+1'),
  ('table-algorithm', 'table:algorithm', 'form', 'urn:oasis:names:tc:opendocument:xmlns:form:1.0', 'form:alg'),
  ('text-condition', 'text:condition', 'anim', 'urn:oasis:names:tc:opendocument:xmlns:animation:1.0', 'anim:page>1'),
  ('text-formula', 'text:formula', 'smil', 'urn:oasis:names:tc:opendocument:xmlns:smil-compatible:1.0', 'smil:a+b'),
  ('script-language', 'script:language', 'presentation', 'urn:oasis:names:tc:opendocument:xmlns:presentation:1.0', 'presentation:Basic'),
  ('script-event-name', 'script:event-name', 'db', 'urn:oasis:names:tc:opendocument:xmlns:database:1.0', 'db:load'),
]

def find_attr(t, local):
    if t[0] != 'E': return None
    for a, v in t[2]:
        if a[1] == local: return v
    for k in t[3]:
        r = find_attr(k, local)
        if r is not None: return r
    return None

def value_prefix_results():
    """load a package using a prefix inside an attribute value, save, report what the output declares"""
    from odf.opendocument import load
    out = []
    for tag, attr, pfx, uri, formula in VALUE_CASES:
        body = ('<table:table table:name="T"><table:table-column/><table:table-row><table:table-cell %s="%s"><text:p>1</text:p>'
                '</table:table-cell></table:table-row></table:table>') % (attr, P.xml_attr(formula))
        ens = {pfx: uri} if pfx not in P.STD else {}
        if attr.split(':')[0] == 'script': ens['script'] = 'urn:oasis:names:tc:opendocument:xmlns:script:1.0'
        doc = load(io.BytesIO(P.simple_package(body, extra_ns=ens)))
        data = doc.contentxml()
        tree = X.expat_parse(data)
        val = find_attr(tree[1], attr.split(':')[1]) if tree[0] == 'ok' else None
        out.append({'case': tag, 'formula': formula, 'prefix': pfx, 'uri': uri, 'value': val, 'decls': decl_table(data)})
    return out

if __name__ == '__main__':
    sys.path.insert(0, os.environ.get('VERIF_REPO', '/repo'))
    vp = value_prefix_results()          # first: nothing else has touched the namespace tables yet
    json.dump({'docs': render_all(), 'value_prefix': vp}, sys.stdout)
