# docgen.py — random real documents (OpenDocument objects) for the rendering oracles
import xmllib as X

def fill_document(rng, doc, nbody=4):
    """put generated content into body, styles, automatic styles, meta and settings of a
    real document, through the DOM with checking off (so arbitrary strings reach the
    printer). Returns nothing; the document is the result."""
    from odf import text, style, meta, config, office
    from odf.element import Element, Text, CDATASection
    top = doc.body.firstChild if doc.body.firstChild is not None else doc.body
    for _ in range(rng.randint(1, nbody)):
        top.appendChild(X.build_real(X.rand_tree(rng, maxdepth=3)))
    s = style.Style(name='S%d' % rng.randint(0, 5), family='paragraph')
    s.setAttrNS(X.FOREIGN[0], 'note', X.rand_text(rng, 12))
    doc.styles.addElement(s)
    a = style.Style(name='A%d' % rng.randint(0, 5), family='text')
    a.setAttrNS(X.FOREIGN[2], 'c-d', X.rand_text(rng, 12))
    doc.automaticstyles.addElement(a)
    m = meta.UserDefined(name='k%d' % rng.randint(0, 9))
    m.appendChild(Text(X.rand_text(rng, 20)))
    doc.meta.addElement(m)
    ci = config.ConfigItem(name='n', type='string')
    ci.appendChild(Text(X.rand_text(rng, 20)))
    cs = config.ConfigItemSet(name='set')
    cs.addElement(ci); doc.settings.addElement(cs)

SECTIONS = {'body': 'body', 'styles': 'styles', 'automatic-styles': 'automaticstyles', 'master-styles': 'masterstyles',
            'meta': 'meta', 'settings': 'settings', 'font-face-decls': 'fontfacedecls', 'scripts': 'scripts'}

def find_sections(tree):
    """top-level office:* sections of a parsed part or flat document"""
    out = {}
    for k in tree[3]:
        if k[0] == 'E' and k[1][0] == X.OFFICENS: out[k[1][1]] = k
    return out
