# C09 — document-wide lookups always agree with the current tree.
import io, itertools
import vlib, domlib as D
from . import domcommon as DC

THEOREMS = ['C09_every_history: WF h -> Idx top h -> ops_ok -> ops_keep_top -> WF (run h ops) /\\ Idx top (run h ops) (induction over the history)',
            'C09_elements_by_type: under Idx, getElementsByType = exactly the attached elements of the type, each once',
            'C09_style_by_name_sound / C09_style_by_name_complete (the latter along histories with unique registered style names)',
            'C09_step, C09_walk_complete (pigeonhole: the bounded subtree walk reaches every descendant), C09_start (non-vacuity)',
            'C09_checked_start / C09_checked_complete / C09_checked_history / C09_checked_step: the executable checkers idx_ok, comp_ok, wf_ok, op_okb, keeps_topb are sound; the harness runs them on the snapshot of the real document every history starts from and on every step, so the hypotheses of C09_every_history are established for each history that is run, not assumed']
RULE = ('lock-step histories on a document: appendChild / insertBefore / removeChild / addElement / addText / addCDATA over element, text, '
        'CDATA and style:style nodes (subtrees added as a whole, removed, re-added, moved), interleaved with xml(), save(), contentxml(), '
        'stylesxml(), metaxml() calls; after EVERY step doc.getElementsByType(f) for seven element types, element.getElementsByType on '
        'several subtrees and getStyleByName for every name in play (and an unknown one) are compared with a traversal from doc.topnode; '
        'the model\'s element_dict and _styles_dict are compared with the real ones. Exhaustive for length <= 2 over a working set with a '
        'pre-linked subtree, seeded random up to length 14. non-trivial = a step that changes the set of attached elements or raises.')
TRUSTED = ['modelled abstractions as for C08 (Dom.v header); the generator replacement of xml()/metaxml()/save() is driven on the model as removeChild + constructor + addElement']
ASSUMPTIONS = ['in the model, style names are unique among the styles in play (what the real code does on a clash through the API - it renames the newcomer - is exercised by oracle-only histories)',
               'the style:name of a registered style is not changed afterwards (the property quantifies over tree edits, serialisations and loads; after setAttribute(\'name\', ..) the lookup still answers to the old name)']

RENDERS = ['xml', 'save', 'contentxml', 'stylesxml', 'metaxml', 'settingsxml']

def do_render(ctx, u, kind, d):
    """call a renderer on the real document and drive the same generator replacement on the model"""
    from odf.namespaces import METANS
    doc = u.doc
    meta_id = u.id_of(doc.meta)
    gens = [c for c in doc.meta.childNodes if getattr(c, 'qname', None) == (METANS, 'generator')]
    if kind == 'save':
        doc.write(io.BytesIO())
    else:
        getattr(doc, kind)()
    if kind in ('xml', 'save', 'metaxml'):
        for g in gens:
            d.call('dom_step', '(remove %d %d)' % (meta_id, u.id_of(g)))
        # the new generator: a fresh element with a text child, added under office:meta
        d.call('dom_construct', str(u.qid((METANS, 'generator'))), 'N', '(ok)', '1', '1', 'N')
        u.snapshot()                      # discover the new nodes in the same order (element, then its text)
        newgen = [c for c in doc.meta.childNodes if getattr(c, 'qname', None) == (METANS, 'generator')][-1]
        gid = u.id_of(newgen)
        d.call('dom_step', '(addtext %d 1 0 0)' % gid)
        d.call('dom_step', '(addelement %d %d 1)' % (meta_id, gid))

def run(ctx):
    from odf import text, style, office, meta
    d = ctx.get_driver()
    factories = [text.P, text.Span, style.Style, office.Text, text.List, meta.Generator, office.Document]
    def queries(u, ref, hist, op, out, exp):
        if u.doc is None: return
        ctx.oracle_cases += 1
        bad = D.query_complaints(u, factories)
        if bad:
            ctx.violation('lookup-disagrees-with-tree', {'history': hist}, bad[:4], 'queries = traversal from doc.topnode', {'query': bad[0][0]})
        if isinstance(out, list) and out[1].startswith('Other:'):
            ctx.violation('unexpected-exception', {'history': hist}, out, 'success or a DOM/grammar error', {'exception': out[1]})
        ctx.nt(tuple(map(str, hist)))
    # exhaustive short histories over: office:text, P1 [Span, T1, T2], P2, Style N1, office:styles
    u0 = D.Universe(True, prelinked=True)
    f = u0.free_ids
    ids = [u0.id_of(u0.doc.text), f[0], f[1], f[2], f[3], f[6], u0.id_of(u0.doc.styles)]
    ops = D.all_ops(u0, ids, [ids[0], ids[1], ids[2], ids[3], ids[6]])
    for op in ops:
        DC.run_history(ctx, True, [op], [queries], 'C09', prelinked=True)
    n = 0
    for seq in itertools.product(ops, repeat=2):
        if ctx.quick and (sum(map(hash, map(str, seq))) % 7): continue
        DC.run_history(ctx, True, list(seq), [queries], 'C09', prelinked=True); n += 1
    ctx.exhaustive.append('%s%d histories of length 2 over %d operations on a document with a pre-linked subtree' % ('a seventh of the ' if ctx.quick else 'all ', n, len(ops)))
    # detached-subtree scenarios: remove a subtree, edit inside it, look; re-attach it, look again
    t, p1, p2, sp = ids[0], ids[1], ids[2], ids[3]
    inner = [o for o in ops if o[1] in (p1, sp) and o[0] in ('append', 'insert', 'addelement', 'addtext')]
    n = 0
    for o2 in inner:
        for readd in (('append', t, p1), ('insert', t, p1, None), ('addelement', t, p1)):
            DC.run_history(ctx, True, [('remove', t, p1), o2, readd], [queries], 'C09-detached', prelinked=True); n += 1
    ctx.exhaustive.append('all %d remove-subtree / edit-inside / re-attach scenarios' % n)
    # random histories with renderings interleaved
    for k in range(120 if ctx.quick else 3000):
        u = D.Universe(True, prelinked=ctx.rng.random() < 0.5)
        ref = D.Ref(u)
        ids = u.free_ids + [u.id_of(u.doc.text), u.id_of(u.doc.styles), u.id_of(u.doc.automaticstyles)]
        allops = D.all_ops(u, ids)
        DC.init_checked(ctx, d, u, True, 'C09-random')
        hist = []
        for _ in range(ctx.rng.randint(3, 14)):
            if ctx.rng.random() < 0.2:
                kind = ctx.rng.choice(RENDERS)
                do_render(ctx, u, kind, d); hist.append(('render', kind)); ref = D.Ref(u)
                out = 'Ok'; op = ('render', kind)
            else:
                op = ctx.rng.choice(allops)
                if not D.legal(u, op): continue
                osx = D.op_sx(u, op); before = len(u.nodes)
                out = D.apply_real(u, op); hist.append(op)
                u.snapshot()
                m = d.call('dom_step', osx)
                ctx.corr('DOM outcome C09-random', hist, m[0], out)
            snap = u.snapshot()
            m = d.call('dom_step', '(remove 0 0)')          # a no-op probe (0 is not a child of itself): returns the current model heap
            mh = D.canon_model_heap(m[1])
            ctx.corr('element_dict after %s' % (op[0],), list(map(str, hist)), D.drop_empty(mh[1]), D.drop_empty(snap[1]))
            ctx.corr('_styles_dict after %s' % (op[0],), list(map(str, hist)), mh[2], snap[2])
            ctx.corr('link fields after %s' % (op[0],), list(map(str, hist)), mh[0], snap[0])
            queries(u, ref, hist, op, out, None)
            ctx.bump('op=' + op[0])
        if k < 2: ctx.sample({'history': [list(map(str, h)) for h in hist]})
    clash_histories(ctx, queries)
    odd_parents(ctx, queries)

def clash_histories(ctx, queries):
    """oracle only (the heap model keeps style names fixed; clashes are renamed by the real code: C11): styles with one and the
    same name added, removed, moved and re-added through the API - after every step the lookups must agree with the tree"""
    from odf import style
    for k in range(150 if ctx.quick else 3000):
        u = D.Universe(True, extra_free=[style.Style(name='N1', family='text'), style.Style(name='N1', family='paragraph'), style.Style(name='MN1', family='text')])
        f = u.free_ids
        stys = [f[6], f[8], f[9], f[10]]
        homes = [u.id_of(u.doc.styles), u.id_of(u.doc.automaticstyles), u.id_of(u.doc.text)]
        hist = []
        for _ in range(ctx.rng.randint(2, 9)):
            r = ctx.rng.random(); p = ctx.rng.choice(homes[:2] if r < 0.9 else homes); c = ctx.rng.choice(stys)
            op = ('append', p, c) if r < 0.45 else ('remove', p, c) if r < 0.8 else ('insert', p, c, None) if r < 0.9 else ('addelement', p, c)
            if not D.legal(u, op): continue
            out = D.apply_real(u, op); hist.append(op); u.snapshot()
            queries(u, None, [str(h) for h in hist], op, out, None)
            ctx.bump('clash-op=' + op[0])
    ctx.exhaustive.append('name-clash histories (oracle only): four style:style elements, three of them created with the same name')

def odd_parents(ctx, queries):
    """element.getElementsByType below parents of unusual kinds: an element of a foreign namespace (no grammar entry at all)
    and a schema element without children in the schema that was given one with checking off (as load() does)"""
    from odf import text
    from odf.element import Element
    for k in range(12 if ctx.quick else 200):
        box = Element(qname=('urn:verif:foreign', 'box'), check_grammar=False); box.appendChild(text.P(text='in the box'))
        sp = text.S(); sp.appendChild(text.Span(text='in a childless element'))
        u = D.Universe(True, extra_free=[box, sp], prelinked=bool(k % 2))
        f = u.free_ids; t = u.id_of(u.doc.text)
        hist = []
        ops = [('append', t, f[8]), ('append', t, f[9]), ('append', f[0], f[8]), ('insert', t, f[9], None), ('remove', t, f[8]), ('append', f[8], f[1]), ('append', t, f[0])]
        ctx.rng.shuffle(ops)
        for op in ops[:ctx.rng.randint(2, len(ops))]:
            if not D.legal(u, op): continue
            out = D.apply_real(u, op); hist.append(op); u.snapshot()
            queries(u, None, [str(h) for h in hist], op, out, None)
    ctx.exhaustive.append('queries below a foreign-namespace element and below a schema-childless element holding a child (oracle only)')

def replay(ctx, case):
    import json
    print(json.dumps(case, indent=1)[:3000]); return 1
