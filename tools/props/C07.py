# C07 — a refused or failed operation leaves the document untouched.
import vlib, domlib as D
from . import domcommon as DC

THEOREMS = ['C07_dom_atomic: step h o = RRaise e h\' -> h\' = h (whole heap: links, owner marks, index, style dictionary)',
            'C07_constructor_atomic / C07_never_found: a raising constructor call (any step, missing required attribute, refusing parent) leaves every existing node and both lookups unchanged',
            'C07_attribute_atomic: a raising setAttribute/setAttrNS produces no new store']
RULE = ('oracle: full snapshot (child lists, parent/sibling links, ownerDocument, attributes of every node, text data, element index, '
        'getElementsByType/getStyleByName results) before a failing call vs after the exception, for every refusal kind x entry point: '
        'factory with and without parent= (keyword orders permuted; unknown keyword, invalid value, missing required attribute, refused '
        'text, parent refusing the child), addElement (fresh and already attached child), addText, addCDATA, setAttribute (unknown keyword; '
        'invalid value over an existing valid value), setAttrNS, insertBefore with a foreign reference (new child attached elsewhere), '
        'removeChild of a non-child, appendChild under a text node; each after 0-2 random successful edits, attached and free-standing. '
        'correspondence: the same DOM calls and constructor calls on the extracted model (outcome kind and whole heap). '
        'non-trivial = a call that raised; distinct by (history, call).')
TRUSTED = ['modelled: attribute processing of __init__ as a list of step outcomes decided by the grammar tables (tied by correspondence of outcome and heap)']
ASSUMPTIONS = ['the namespace registry (process-global) is not part of "the document"; get_nsprefix may register a namespace before a later step raises']

def full_snapshot(u):
    from odf.element import Node
    snap = u.snapshot()
    extra = []
    for n in u.nodes:
        if n.nodeType == Node.ELEMENT_NODE:
            extra.append(sorted((str(k), str(v)) for k, v in n.attributes.items()))
        else:
            extra.append(n.data)
    q = None
    if u.doc is not None:
        from odf import text, style, office
        q = [sorted(u.id_of(e) for e in u.doc.getElementsByType(f)) for f in (text.P, text.Span, style.Style, office.Text, text.List)]
        q.append([None if u.doc.getStyleByName(nm) is None else u.id_of(u.doc.getStyleByName(nm)) for nm in ('N1', 'N2', 'nope')])
    return [snap, extra, q]

def failing_calls(u, rng):
    """(label, thunk, model_call or None) triples; every thunk is expected to raise"""
    from odf import text, style, table
    from odf.element import Text, Element
    f = u.free_ids
    P1, P2, SPAN, T1, T2, C1, ST, LI = [u.nodes[i] for i in f[:8]]
    cont = u.doc.text if u.doc is not None else P2
    styles = u.doc.styles if u.doc is not None else None
    calls = []
    # constructors
    def ctor(label, fac, kwlist, parent, steps, req_ok, q, sn=None, allowed=True, check=True):
        for order in ([0], [1]) if parent is None else ([0, 1, 2]):
            kws = list(kwlist)
            if parent is not None:
                pos = {0: 0, 1: len(kws) // 2, 2: len(kws)}[order[0] if False else order] if False else None
            def thunk(order=order):
                items = list(kwlist)
                if parent is not None:
                    k = {0: 0, 1: len(items) // 2, 2: len(items)}[order]
                    items.insert(k, ('parent', parent))
                return fac(**dict(items))
            par = 'N' if parent is None else '(%d %d)' % (u.id_of(parent), 1 if allowed else 0)
            model = ('dom_construct', str(q(u)), 'N' if sn is None else str(u.nid(sn)), '(' + ' '.join(steps) + ')', '1' if check else '0', '1' if req_ok else '0', par)
            calls.append(('%s order=%s' % (label, order), thunk, model))
    qs = lambda ns, l: (lambda u: u.qid((ns, l)))
    ctor('Style missing required name', style.Style, [('family', 'paragraph')], styles, ['ok'], False, qs(D.STYLENS, 'style'))
    ctor('Style invalid family value', style.Style, [('name', 'N2'), ('family', 'bogus-family')], styles, ['ok', 'ValueError'], True, qs(D.STYLENS, 'style'), sn='N2')
    ctor('P unknown keyword', text.P, [('stylename', 'x'), ('bogus', '1')], cont, ['ok', 'AttributeError'], True, qs(D.TEXTNS, 'p'))
    ctor('List with text', text.List, [('text', 'not allowed here')], cont, ['IllegalText'], True, qs(D.TEXTNS, 'list'))
    ctor('Span under a parent that refuses it', text.Span, [('stylename', 'x')], LI, ['ok'], True, qs(D.TEXTNS, 'span'), allowed=False)
    if styles is not None:
        ctor('P under office:styles (refused)', text.P, [], styles, [], True, qs(D.TEXTNS, 'p'), allowed=False)
    # the parent named through the attributes= dictionary instead of the keyword
    calls.append(('factory with attributes={parent: ...}, required attribute missing', lambda: text.H(attributes={'parent': cont}), None))
    calls.append(('factory with attributes={parent: ..., bogus: ...}', lambda: text.P(attributes={'parent': cont, 'stylename': 'x', 'bogus': '1'}), None))
    if styles is not None:
        calls.append(('Style with attributes={parent: styles, family: ...}, name missing', lambda: style.Style(attributes={'parent': styles, 'family': 'paragraph'}), None))
    # shape factories (draw.py: StyleRefElement): a refused style reference, with parent= given
    from odf import draw
    wrong = style.Style(name='T9', family='text')              # not a graphic or presentation style
    calls.append(('shape factory: stylename of the wrong family, parent=', lambda: draw.Rect(parent=cont, stylename=wrong, width='1cm', height='1cm'), None))
    calls.append(('shape factory: classnames of the wrong family, parent=', lambda: draw.Rect(parent=cont, classnames=[wrong], width='1cm', height='1cm'), None))
    calls.append(('shape factory: classnames given as a string, parent=', lambda: draw.Frame(parent=cont, classnames='gr1', width='1cm', height='1cm'), None))
    calls.append(('shape factory: empty classnames, parent=', lambda: draw.Ellipse(parent=cont, classnames=[], width='1cm', height='1cm'), None))
    calls.append(('shape factory: missing required attribute, parent=', lambda: draw.Line(parent=cont, stylename=style.Style(name='gr9', family='graphic')), None))
    # not failing calls today: a style whose name is taken is renamed and added. Listed because a refusal, should one ever be
    # raised here, has to leave the document as it was like any other (a call that does not raise is skipped by the caller)
    if styles is not None:
        if ST.parentNode is None: styles.addElement(ST)                     # 'N1' is registered (before the snapshot is taken)
        autos_ = u.doc.automaticstyles
        calls.append(('addElement of a style whose name is registered', lambda: styles.addElement(style.Style(name='N1', family='text')), None))
        calls.append(('factory with parent= of a style whose name is registered', lambda: style.Style(name='N1', family='text', parent=autos_), None))
        calls.append(('insertBefore of a style whose name is registered', lambda: styles.insertBefore(style.Style(name='N1', family='text'), ST), None))
    # Element methods on existing nodes
    calls.append(('addElement illegal child (fresh)', lambda: LI.addElement(text.Span()), None))
    calls.append(('addElement illegal child (existing node, maybe attached)', lambda: LI.addElement(SPAN), ('dom_step', '(addelement %d %d 0)' % (f[7], f[2]))))
    calls.append(('addElement illegal child P into P... list into span', lambda: SPAN.addElement(LI), ('dom_step', '(addelement %d %d 0)' % (f[2], f[7]))))
    calls.append(('addText illegal', lambda: LI.addText('x'), ('dom_step', '(addtext %d 0 0 0)' % f[7])))
    calls.append(('addCDATA illegal', lambda: LI.addCDATA('x'), ('dom_step', '(addtext %d 0 0 1)' % f[7])))
    calls.append(('setAttribute unknown keyword', lambda: P1.setAttribute('bogus', 'v'), None))
    calls.append(('setAttribute invalid value over a valid one', lambda: ST.setAttribute('family', 'bogus-family'), None))
    calls.append(('setAttrNS invalid value over a valid one', lambda: ST.setAttrNS(D.STYLENS, 'family', 'bogus-family'), None))
    calls.append(('setAttribute name=None on a style', lambda: ST.setAttribute('name', None), None))
    calls.append(('setAttribute name=<a number> on a style', lambda: ST.setAttribute('name', 12), None))
    calls.append(('setAttrNS name=<a list> on a style', lambda: ST.setAttrNS(D.STYLENS, 'name', ['a']), None))
    calls.append(('setAttribute invalid boolean', lambda: ST.setAttribute('autoupdate', 'maybe'), None))
    calls.append(('insertBefore foreign reference', lambda: P2.insertBefore(SPAN, C1 if C1.parentNode is not P2 else T2 if T2.parentNode is not P2 else LI),
                  ('dom_step', '(insert %d %d %d)' % (f[1], f[2], f[5] if C1.parentNode is not P2 else f[4] if T2.parentNode is not P2 else f[7]))))
    calls.append(('removeChild non-child', lambda: P2.removeChild(P1 if P1.parentNode is not P2 else LI), ('dom_step', '(remove %d %d)' % (f[1], f[0] if P1.parentNode is not P2 else f[7]))))
    if u.doc is not None:
        # a node that IS in the document, but not under this parent (the lookups must not forget it)
        tgt, tid = (SPAN, f[2]) if SPAN.parentNode is not cont else (T1, f[3])
        calls.append(('removeChild of a node attached elsewhere', lambda: cont.removeChild(tgt), ('dom_step', '(remove %d %d)' % (u.id_of(cont), tid))))
        calls.append(('removeChild of a node attached elsewhere, from office:styles', lambda: styles.removeChild(tgt), ('dom_step', '(remove %d %d)' % (u.id_of(styles), tid))))
    calls.append(('appendChild under a text node', lambda: T1.appendChild(SPAN), ('dom_step', '(append %d %d)' % (f[3], f[2]))))
    calls.append(('insertBefore under a text node', lambda: T1.insertBefore(SPAN, None), ('dom_step', '(insert %d %d N)' % (f[3], f[2]))))
    return calls

def run(ctx):
    import xml.dom
    from odf.element import IllegalChild, IllegalText
    d = ctx.get_driver()
    n_hist = 40 if ctx.quick else 600
    for attached in (True, False):
        for pre in (False, True):
            for hno in range(n_hist):
                # one fresh universe per (history, call)
                u0 = D.Universe(attached, prelinked=pre)
                ids = u0.free_ids + ([u0.id_of(u0.doc.text)] if attached else [])
                ops = D.all_ops(u0, ids)
                hist = [ctx.rng.choice(ops) for _ in range(ctx.rng.choice([0, 1, 2, 2]))]
                ncalls = len(failing_calls(u0, ctx.rng))
                for ci in range(ncalls):
                    if ctx.quick and (hno * 31 + ci) % 3: continue
                    u = D.Universe(attached, prelinked=pre)
                    okhist = []
                    for op in hist:
                        if not D.legal(u, op): continue
                        D.apply_real(u, op); okhist.append(op)
                    calls = failing_calls(u, ctx.rng)
                    if ci >= len(calls): continue
                    label, thunk, model = calls[ci]
                    before = full_snapshot(u)
                    nb = len(u.nodes)
                    if model is not None:
                        DC.init_checked(ctx, d, u, attached, 'C07 (after a history on the real nodes)')
                    try:
                        r = thunk(); raised = None
                    except (IllegalChild, IllegalText, AttributeError, ValueError, xml.dom.NotFoundErr, xml.dom.HierarchyRequestErr) as e:
                        raised = type(e).__name__
                    except Exception as e:
                        raised = 'Other:' + type(e).__name__
                    ctx.oracle_cases += 1
                    ctx.bump('call=' + label.split(' order')[0]); ctx.bump('raised=' + str(raised))
                    if raised is None:
                        ctx.bump('call-did-not-raise'); continue
                    ctx.nt((attached, pre, tuple(okhist), label))
                    # the refused element itself (a brand-new object) is not part of the document: compare the old nodes only
                    after = full_snapshot(u)
                    trimmed = [[after[0][0][:nb], after[0][1], after[0][2]], after[1][:nb], after[2]]
                    if trimmed != before:
                        diff = [(i, a, b) for i, (a, b) in enumerate(zip(before[0][0], trimmed[0][0])) if a != b][:3]
                        ctx.violation('not-atomic', {'attached': attached, 'prelinked': pre, 'history': okhist, 'call': label, 'raised': raised},
                                      {'links': diff, 'attrs_changed': before[1] != trimmed[1], 'index_changed': before[0][1:] != trimmed[0][1:], 'queries_changed': before[2] != trimmed[2]},
                                      'snapshot unchanged', {'call': label.split(' order')[0]})
                    if model is not None:
                        m = d.call(*model)
                        kind = {'NotFoundErr': 'NotFoundErr', 'HierarchyRequestErr': 'HierarchyRequestErr'}.get(raised, raised)
                        ctx.corr('outcome of ' + label, okhist, m[0], ['Raise', kind])
                        mh = D.canon_model_heap(m[1])
                        ctx.corr('heap after ' + label, okhist, [mh[0][:nb], D.drop_empty(mh[1]), mh[2]], [after[0][0][:nb], D.drop_empty(after[0][1]), after[0][2]])
    ctx.sample({'call': 'Style(parent=doc.styles, family="paragraph") with the name missing', 'expected': 'AttributeError, doc.styles unchanged'})

def replay(ctx, case):
    import json
    print(json.dumps(case, indent=1)[:3000]); return 1
