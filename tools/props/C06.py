# C06 — with checks on, the API accepts exactly what the ODF 1.2 schema permits.
import json, os
import vlib, rnglib
from vlib import sx_str

THEOREMS = ['C06_child / C06_child_refusal_is_IllegalChild (all ordered pairs of schema elements)', 'C06_text / C06_text_refusal_is_IllegalText',
            'C06_keyword (every element, EVERY keyword string) / C06_keyword_refusal_is_AttributeError / C06_keyword_table_none',
            'C06_construct (every element, EVERY set of given attributes) / C06_construct_refusal_is_AttributeError', 'C06_unchecked', 'C06_factories',
            'C06_ascii_locals; all decided by computation over the regenerated tables (finite domain) and lifted with forallb_forall']
RULE = ('exhaustive on the real API, both tiers: every ordered pair (parent, child) of the schema\'s elements through addElement with checks on; '
        'every element x {addText, addCDATA}; every element x every keyword of any attribute known to the schema or to grammar.py (plus unknown '
        'keywords) through setAttribute; every element constructed with no attribute, with all the attributes the schema requires, and with '
        'each required one left out; every factory of the odf package called and its qname compared, every schema element looked up among '
        'them; check_grammar=False on every refused text, every incomplete element and a sample of the refused pairs. oracle: the schema '
        'relations computed by tools/rnglib.py from the RELAX NG file; a difference is a violation unless it is one of the recorded '
        'deviations (known_findings.json, matched item by item). correspondence: the same calls on the extracted model row by row. '
        'non-trivial = a refused call; distinct by (call kind, element).')
TRUSTED = ['tools/rnglib.py (the RELAX NG interpreter: children, character content, attributes, required attributes per element name, '
           'definitions of one name merged) is shared by the translator and the oracle',
           'the numbering of names and the keyword function kw_of (lower-case, hyphens dropped; ASCII obligation proved) tie tables and API']
ASSUMPTIONS = ['character content typed by a datatype (dc:date, meta:generator ...) counts as "text permitted"',
               'an attribute is required when every alternative of the element\'s content model carries it']

VALUES = ['x', 'true', '1', '1cm', '10%', 'simple', '#000000', 'P1', '0 0 1 1', '1,1', 'PT1S', '2000-01-01', '2000-01-01T00:00:00', 'none', 'a:b',
          'float', 'page', 'embed', 'onLoad', 'left', 'row', 'ascending', 'named', 'start', 'en', 'text', 'self']

def item_key(kind, el, other=None):
    return '%s %s:%s' % (kind, el[0], el[1]) + ('' if other is None else ' %s:%s' % (other[0], other[1]))

def kw_of(local): return local.lower().replace('-', '')

def outcome(thunk):
    from odf.element import IllegalChild, IllegalText
    try:
        thunk(); return 'Accepted'
    except IllegalChild: return 'IllegalChild'
    except IllegalText: return 'IllegalText'
    except AttributeError: return 'AttributeError'
    except ValueError: return 'ValueError'
    except Exception as e: return 'Other:' + type(e).__name__

def run(ctx):
    from odf.element import Element
    import odf
    d = ctx.get_driver()
    twin = json.load(open(os.path.join(vlib.COQ, 'gen', 'twin.json')))['GenGrammar.v']
    elems = [tuple(e) for e in twin['elems']]; attrs = [tuple(a) for a in twin['attrs']]
    eidx = {e: i for i, e in enumerate(elems)}; aidx = {a: i for i, a in enumerate(attrs)}
    S = rnglib.odf12(os.path.dirname(os.path.dirname(os.path.abspath(odf.__file__))))
    selems = sorted(S.elements)
    msel = [elems[int(i)] for i in d.call('gr_selems')]
    ctx.corr('schema element list (translator twin vs harness)', None, msel, selems)
    def dev(kind, el, other, observed, expected, case):
        ctx.violation('schema-deviation', dict(case, item=item_key(kind, el, other)), observed, expected, {'item': item_key(kind, el, other)})
    mk = lambda qn: Element(qname=qn, check_grammar=False)
    refused_pairs = []; unknown = set()      # elements the library has no tables for: one UNKNOWN item covers all their aspects
    # ---- children: every ordered pair ------------------------------------------------------------------------------
    for p in selems:
        parent = mk(p)
        real = [outcome(lambda c=c: parent.addElement(mk(c))) for c in selems]
        model = d.call('gr_children', str(eidx[p]), '1')
        ctx.corr('addElement row of %s:%s' % p, None, model, real); ctx.oracle_cases += len(selems)
        ch = S.elements[p][0]
        want = ['Accepted' if (rnglib.ANY in ch or c in ch) else 'IllegalChild' for c in selems]
        diff = [c for c, r, w in zip(selems, real, want) if r != w]
        if len(diff) > 100:
            unknown.add(p); dev('UNKNOWN', p, None, '%d children differ (e.g. accepts %s:%s)' % (len(diff), diff[0][0], diff[0][1]), 'the schema\'s child elements only', {'parent': p})
        else:
            for c in diff:
                dev('CHILD', p, c, real[selems.index(c)], want[selems.index(c)], {'parent': p, 'child': c})
        for c, r in zip(selems, real):
            if r != 'Accepted':
                refused_pairs.append((p, c))
        if 'IllegalChild' in real: ctx.nt(('child', p))
        ctx.bump('child-rows'); ctx.bump('child-refused', sum(1 for r in real if r != 'Accepted'))
    # ---- text and CDATA ------------------------------------------------------------------------------------------------
    mtext = d.call('gr_text', '1')
    for p, m in zip(selems, mtext):
        for kind in ('addText', 'addCDATA'):
            r = outcome(lambda: getattr(mk(p), kind)('x')); ctx.oracle_cases += 1
            ctx.corr('%s on %s:%s' % ((kind,) + p), None, m, r)
            w = 'Accepted' if S.elements[p][1] else 'IllegalText'
            if r != w and p not in unknown:
                dev('TEXT', p, None, r, w, {'element': p, 'call': kind})
            # whether an element takes character content does not depend on the string: the empty string and white space likewise
            for s_ in ('', ' ', '\n'):
                r0 = outcome(lambda: getattr(mk(p), kind)(s_)); ctx.oracle_cases += 1
                ctx.corr('%s(%r) on %s:%s' % ((kind, s_) + p), None, m, r0)
                if r0 != r: ctx.violation('text-check-depends-on-the-string', {'element': p, 'call': kind, 'string': s_}, r0, r, {'call': kind})
            kw_ = 'text' if kind == 'addText' else 'cdata'
            rk = [outcome(lambda: Element(qname=p, check_grammar=True, **{kw_: s_})) for s_ in ('x', '', ' ')]; ctx.oracle_cases += 3
            ru = outcome(lambda: Element(qname=p, check_grammar=False, **{kw_: 'x'})); ctx.oracle_cases += 1
            if ru != 'Accepted': ctx.violation('unchecked-call-refused', {'element': p, 'call': 'constructor ' + kw_ + '= with check_grammar=False'}, ru, 'Accepted', {'call': 'constructor'})
            if len(set(rk)) != 1: ctx.violation('text-check-depends-on-the-string', {'element': p, 'call': 'constructor ' + kw_ + '=', 'strings': ['x', '', ' ']}, rk, 'one outcome', {'call': kind})
            if r != 'Accepted':
                ctx.nt(('text', p)); ctx.bump('text-refused')
                r2 = outcome(lambda: getattr(mk(p), kind)('x', check_grammar=False))
                if r2 != 'Accepted': ctx.violation('unchecked-call-refused', {'element': p, 'call': kind}, r2, 'Accepted', {'call': kind})
    # ---- attributes by keyword -------------------------------------------------------------------------------------------
    kws = sorted(set(kw_of(a[1]) for a in attrs) - {'parent'}) + ['nosuchattribute', 'style-name', 'Name', '']
    kwsx = '(' + ' '.join(sx_str(k) for k in kws) + ')'
    for p in selems:
        el = mk(p)
        real = []
        for k in kws:
            r = outcome(lambda: el.setAttribute(k, 'x'))
            real.append('AttributeError' if r == 'AttributeError' else 'Accepted')
        model = d.call('gr_attr', str(eidx[p]), kwsx, '1')
        ctx.corr('setAttribute row of %s:%s' % p, None, model, real); ctx.oracle_cases += len(kws)
        at = S.elements[p][2]
        skw = set(kw_of(a[1]) for a in at if a != rnglib.ANY)
        want = ['Accepted' if (rnglib.ANY in at or k in skw) else 'AttributeError' for k in kws]
        diff = [k for k, r, w in zip(kws, real, want) if r != w] if p not in unknown else []
        if diff and all(r == 'AttributeError' for r in real):
            dev('ATTRNONE', p, None, 'every keyword refused', 'the keywords of %d attributes accepted' % len(skw), {'element': p})
        elif len(diff) > 60:
            dev('UNKNOWN', p, None, '%d keywords differ' % len(diff), 'the schema\'s attributes only', {'element': p})
        else:
            import odf.grammar as GR
            ga = set(tuple(map(str, a)) for a in (GR.allowed_attributes.get(p) or ()))
            for k in diff:
                # name the attributes behind the keyword
                cands = [a for a in (set(x for x in at if x != rnglib.ANY) ^ ga) if kw_of(a[1]) == k] or [('?', k)]
                for a in cands: dev('ATTR', p, a, real[kws.index(k)], want[kws.index(k)], {'element': p, 'keyword': k})
        # ... whatever the value: None, the empty string and a number are refused like 'x' for a keyword the element does not have
        for k_ in ('nosuchattribute', 'bogus'):
            for v_ in (None, '', 0):
                r_ = outcome(lambda: mk(p).setAttribute(k_, v_)); ctx.oracle_cases += 1
                if r_ != 'AttributeError': ctx.violation('keyword-check-depends-on-the-value', {'element': p, 'keyword': k_, 'value': repr(v_)}, r_, 'AttributeError', {'call': 'setAttribute'})
            r_ = outcome(lambda: Element(qname=p, check_grammar=True, **{k_: None})); ctx.oracle_cases += 1
            if r_ != 'AttributeError' and S.elements[p][2] is not None: ctx.violation('keyword-check-depends-on-the-value', {'element': p, 'keyword': k_, 'value': 'None', 'call': 'constructor'}, r_, 'AttributeError', {'call': 'constructor'})
        if 'AttributeError' in real: ctx.nt(('attr', p))
        ctx.bump('keyword-rows'); ctx.bump('keyword-refused', real.count('AttributeError'))
    # ---- required attributes ----------------------------------------------------------------------------------------------
    def good_value(p, a):
        for v in VALUES:
            e = mk(p)
            if outcome(lambda: e.setAttrNS(a[0], a[1], v)) == 'Accepted': return v
        return None
    import odf.grammar as GR
    for p in selems:
        req = sorted(S.elements[p][3])
        greq = sorted(tuple(map(str, a)) for a in (GR.required_attributes.get(p) or ()))
        vals = {}
        for a in sorted(set(req) | set(greq)):
            v = good_value(p, a)
            if v is None: ctx.bump('no-sample-value'); continue
            vals[a] = v
        def build(given, check=True):
            return outcome(lambda: Element(qname=p, qattributes={a: vals[a] for a in given if a in vals}, check_grammar=check))
        cases = [('none', [])] + [('all-schema-required', [a for a in req if a in vals])] + [('without %s' % a[1], [b for b in req if b != a and b in vals]) for a in req if a in vals] \
                + [('all-required-by-either', sorted(vals))]
        for label, given in cases:
            r = build(given); ctx.oracle_cases += 1
            m = d.call('gr_construct', str(eidx[p]), '(' + ' '.join(str(aidx[a]) for a in given) + ')', '1')
            ctx.corr('constructor of %s:%s %s' % (p + (label,)), None, m, r)
            w = 'Accepted' if all(a in given for a in req) else 'AttributeError'
            if label == 'all-required-by-either' and r != 'Accepted' and p not in unknown and len(given) == len(set(req) | set(greq)):
                # everything the schema or the table asks for is there: whatever the two disagree about (the recorded deviations),
                # a refusal here is a refusal of a complete element
                ctx.violation('constructor-refuses-complete-element', {'element': p, 'given': given, 'case': label}, r, 'Accepted', {})
            elif r != w and p not in unknown:
                for a in sorted(set(req) ^ set(greq)):
                    if (a in given) != (w == 'Accepted') or True:
                        dev('REQ', p, a, '%s with %s' % (r, label), w, {'element': p, 'given': given});
                if not (set(req) ^ set(greq)):
                    ctx.violation('constructor-outcome', {'element': p, 'given': given, 'case': label}, r, w, {})
            if r != 'Accepted':
                ctx.nt(('construct', p, label)); ctx.bump('construct-refused')
                r2 = build(given, check=False)
                if r2 != 'Accepted': ctx.violation('unchecked-call-refused', {'element': p, 'call': 'constructor', 'given': given}, r2, 'Accepted', {'call': 'constructor'})
    # ---- factories ---------------------------------------------------------------------------------------------------------------
    import importlib
    have = {}
    for name, qn in twin['factories']:
        mod, fn = name.split('.')
        f = getattr(importlib.import_module('odf.' + mod), fn)
        try: e = f(check_grammar=False); got = (str(e.qname[0]), str(e.qname[1]))
        except Exception as ex: got = 'raised ' + type(ex).__name__
        ctx.oracle_cases += 1
        ctx.corr('factory %s' % name, None, tuple(qn), got)
        if isinstance(got, tuple): have.setdefault(got, []).append(name)
    for p in selems:
        if p not in have: dev('FACTORY', p, None, 'no factory returns this element', 'a factory', {'element': p})
    # ---- checks off: a sample of the refused pairs --------------------------------------------------------------------------
    step = 1 if not ctx.quick else 37
    for i in range(0, len(refused_pairs), step):
        p, c = refused_pairs[i]
        r = outcome(lambda: mk(p).addElement(mk(c), check_grammar=False)); ctx.oracle_cases += 1
        if r != 'Accepted': ctx.violation('unchecked-call-refused', {'parent': p, 'child': c}, r, 'Accepted', {'call': 'addElement'})
    ctx.exhaustive.append('addElement: %d x %d ordered pairs; addText/addCDATA: %d elements; setAttribute: %d elements x %d keywords; constructor: %d elements' % (len(selems), len(selems), len(selems), len(selems), len(kws), len(selems)))
    ctx.sample({'element': 'text:p', 'children_permitted': len(S.elements[(rnglib.Schema.__init__ and 'urn:oasis:names:tc:opendocument:xmlns:text:1.0', 'p')][0])})

def replay(ctx, case):
    print(json.dumps(case, indent=1)[:3000]); return 1
