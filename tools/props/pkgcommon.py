# pkgcommon.py — attachment / picture histories on real documents, and their view in the model's notation
import io, os, zipfile, tempfile
import vlib, xmllib as X, pkglib as P
from vlib import sx_str, sx_to_pystr

MIMES = {'text': 'application/vnd.oasis.opendocument.text', 'chart': 'application/vnd.oasis.opendocument.chart',
         'sheet': 'application/vnd.oasis.opendocument.spreadsheet', 'draw': 'application/vnd.oasis.opendocument.graphics'}

class Hist:
    """a random history of addObject / addPicture* / addThumbnail / settings edits on a fresh document tree"""
    def __init__(self, ctx, scratch, parent_first=True, explicit_names=True):
        from odf.opendocument import OpenDocumentText, OpenDocumentChart, OpenDocumentSpreadsheet, OpenDocumentDrawing
        from odf import config
        rng = ctx.rng
        self.root = OpenDocumentText()
        self.refs = {}            # id(doc) -> reference returned by addObject
        self.picrefs = []         # (doc, returned name, bytes, mediatype)
        docs = [self.root]
        nobj = rng.choice([0, 1, 2, 3, 4])
        for i in range(nobj):
            child = rng.choice([OpenDocumentChart, OpenDocumentSpreadsheet, OpenDocumentDrawing, OpenDocumentText])()
            parent = rng.choice(docs) if parent_first else self.root
            name = None
            if explicit_names and rng.random() < 0.3:
                name = rng.choice(['ObjX%d' % i, '/Named %d' % i, 'Object 7%d' % i])
            self.refs[id(child)] = parent.addObject(child, name)
            docs.append(child)
        self.docs = docs
        k = 0
        for dno, doc in enumerate(docs):
            for j in range(rng.choice([0, 0, 1, 2])):
                kind = rng.choice(['bytes', 'named', 'file'])
                k += 1
                data = bytes([rng.randrange(256) for _ in range(rng.randint(1, 40))]) if k % 4 else b''      # every fourth picture is empty
                if kind == 'bytes':
                    nm = doc.addPictureFromString(data, 'image/png'); mt = 'image/png'
                elif kind == 'named':
                    nm = doc.addPicture(rng.choice(['Pictures/logo.gif', 'Pictures/named_%d.gif' % k]) if ('Pictures/logo.gif' not in doc.Pictures) else 'Pictures/named_%d.gif' % k, 'image/gif', data); mt = 'image/gif'
                else:
                    fn = os.path.join(scratch, 'pic%d.jpg' % k); open(fn, 'wb').write(data)
                    r3 = k % 3
                    if r3 == 0: nm = doc.addPictureFromFile(fn); mt = 'image/jpeg'
                    elif r3 == 1: nm = doc.addPicture(fn); mt = 'image/jpeg'
                    else:                                  # a file on disk with the media type stated by the caller (not the one its name suggests)
                        mt = rng.choice(['image/pjpeg', 'image/x-verif', 'image/jpeg']); nm = doc.addPicture(fn, mt)
                self.picrefs.append((doc, nm, data, mt))
                if kind == 'bytes' and k % 3 == 1:      # the same bytes once more, as another kind of picture: a picture of its own
                    nm2 = doc.addPictureFromString(data, 'image/gif'); self.picrefs.append((doc, nm2, data, 'image/gif'))
            if rng.random() < 0.4:
                cs = config.ConfigItemSet(name='s'); cs.addElement(config.ConfigItem(name='n', type='string', text='v')); doc.settings.addElement(cs)
        if rng.random() < 0.35:
            # the same explicit picture name in several documents of the tree (each has its own Pictures folder)
            for dno, doc in enumerate(docs):
                if 'Pictures/logo.gif' not in doc.Pictures and rng.random() < 0.8:
                    data = b'LOGO-of-doc-%d' % dno
                    self.picrefs.append((doc, doc.addPicture('Pictures/logo.gif', 'image/gif', data), data, 'image/gif'))
        for dsub in docs[1:]:
            if rng.random() < 0.25: dsub.addThumbnail(b'sub-thumb')          # (a thumbnail belongs to the package: only the root's is written)
        self.thumb = None
        if rng.random() < 0.3:
            self.thumb = bytes([rng.randrange(256) for _ in range(20)]); self.root.addThumbnail(self.thumb)

    def save(self):
        b = io.BytesIO(); self.root.write(b); return b.getvalue()

def model_topdoc(root, scratch_read=lambda fn: open(fn, 'rb').read()):
    """the model's view of a real document tree"""
    def b2s(b): return '(' + ' '.join(str(x) for x in b) + ')'
    def odoc(d):
        pics = []
        for name, (kind, obj, mt) in d.Pictures.items():
            data = scratch_read(obj) if kind == 0 else obj
            pics.append('(%s %s %s)' % (sx_str(name), b2s(data), sx_str(mt or '')))
        return '(%s %s %d (%s) (%s))' % (sx_str(d.mimetype), sx_str(d.folder), 1 if d.settings.hasChildNodes() else 0,
                                         ' '.join(pics), ' '.join(odoc(k) for k in d.childobjects))
    th = 'None' if root.thumbnail is None else '(Some (%s %s))' % (b2s(root.thumbnail), vlib.sx_str(getattr(root, 'thumbnail_mediatype', '')))
    ex = ' '.join('(%s %s %s)' % (sx_str(o.filename), sx_str(o.mediatype), 'None' if o.content is None else '(Some %s)' % b2s(o.content)) for o in root._extra)
    return '(%s %s (%s))' % (odoc(root), th, ex)

def model_save(ctx, root):
    m = ctx.get_driver().call('pkg_save', model_topdoc(root))
    entries = [(sx_to_pystr(e[0]), e[1] == '1', e[2] if isinstance(e[2], str) else ([e[2][0], bytes(int(x) for x in e[2][1])] if e[2][0] == 'B' else [e[2][0], sx_to_pystr(e[2][1])])) for e in m[0]]
    man = [(sx_to_pystr(a), sx_to_pystr(b)) for a, b in m[1]]
    return entries, man

def corr_package(ctx, root, data, tag):
    """the written archive vs the model: member order, STORED flags, picture/extra bytes, manifest rows in order"""
    pk = P.read_package(data)
    entries, man = model_save(ctx, root)
    ctx.corr('zip member order ' + tag, None, [e[0] for e in entries], pk['order'])
    z = zipfile.ZipFile(io.BytesIO(data))
    real_stored = [i.compress_type == zipfile.ZIP_STORED for i in z.infolist()]
    ctx.corr('STORED flags ' + tag, None, [e[1] for e in entries], real_stored)
    ctx.corr('manifest rows ' + tag, None, man, [(a, b or '') for a, b in pk['manifest']])
    # the premises of C03_no_member_twice on the model image of this document: where they hold the theorem says the model names no
    # member twice, and the member order above says the archive has the model's names - an archive with a name twice there would be
    # a contradiction between theorem, model and code, and is reported as one
    prem = [x == '1' for x in ctx.get_driver().call('pkg_premises', model_topdoc(root))]
    ctx.bump('no-member-twice premises %s: pairs_distinct=%d shape_ok=%d extras_apart=%d' % (tag, prem[0], prem[1], prem[2]))
    twice = sorted(set(n for n in pk['order'] if pk['order'].count(n) > 1))
    if all(prem): ctx.corr('premises of C03_no_member_twice hold, so no member name twice ' + tag, None, [], twice)
    elif not twice and [e[0] for e in entries] == pk['order']:
        ctx.bump('no-member-twice premises fail yet no name is written twice ' + tag)        # allowed: the premises are sufficient, not necessary
    infos = z.infolist()
    for e, info in zip(entries, infos):
        if isinstance(e[2], list) and e[2][0] == 'B' and e[0] != 'mimetype':
            ctx.corr('member bytes %s %s' % (e[0], tag), None, e[2][1], z.read(info))
    return pk, entries, man

def judge_package(ctx, data, case, mimetype, objects=(), pictures=(), what='saved package', cause=None):
    """C03 on the real archive, read independently: raw first local header, zipfile central directory, expat manifest"""
    ctx.oracle_cases += 1
    def V(w, c, o, e, m):
        if cause: m = dict(m, cause=cause)
        return ctx.violation(w, c, o, e, m)
    ok, method, elen, name, payload, flag = P.first_local_header(data)
    if not (ok and name == 'mimetype' and method == 0 and elen == 0 and payload == mimetype.encode('utf-8')):
        V('mimetype-entry', case, {'name': name, 'method': method, 'extra_len': elen, 'payload': payload[:60]},
                      'first entry mimetype, stored, no extra field, = ' + mimetype, {'what': what})
    pk = P.read_package(data)
    names = pk['order']
    for req in ('content.xml', 'styles.xml', 'meta.xml', 'META-INF/manifest.xml'):
        if req not in names: V('required-member-missing', case, names, req, {'member': req})
    dups = sorted(set(n for n in names if names.count(n) > 1))
    if dups:
        V('member-name-twice', case, dups, 'each member name once', {'reserved': [d.rsplit('/', 1)[-1] in ('content.xml', 'styles.xml', 'meta.xml', 'settings.xml', 'manifest.xml', 'mimetype') for d in dups]})
    man = pk['manifest'] or []
    mfiles = [p for p, m in man if not p.endswith('/')]
    files = [n for n in names if n not in ('mimetype', 'META-INF/manifest.xml')]
    if sorted(mfiles) != sorted(files):
        V('manifest-not-truthful', case, {'only_in_manifest': sorted(set(mfiles) - set(files)), 'only_in_zip': sorted(set(files) - set(mfiles))},
                      'manifest file rows = members', {})
    mp = [p for p, m in man]
    mdup = sorted(set(p for p in mp if mp.count(p) > 1))
    if mdup: V('manifest-row-twice', case, mdup, 'each path once', {})
    if dict(man).get('/') != mimetype:
        V('root-media-type', case, dict(man).get('/'), mimetype, {})
    for folder, mt in objects:
        if dict(man).get(folder) != mt or folder + 'content.xml' not in names or folder + 'styles.xml' not in names:
            V('object-folder', case, {'folder': folder, 'manifest': dict(man).get(folder), 'members': [n for n in names if n.startswith(folder)]},
                          'content.xml + styles.xml in the folder, folder declared as ' + mt, {'kind': 'object-folder'})
    for path, data_, mt in pictures:
        if pk['members'].get(path) != data_ or dict(man).get(path) != mt:
            V('picture', case, {'path': path, 'present': path in pk['members'], 'manifest': dict(man).get(path)}, 'byte-identical under the returned reference, type ' + mt, {})
    return pk
