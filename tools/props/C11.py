# C11 — loading keeps style references right when content.xml and styles.xml reuse a name.
import io, json, os
import vlib, xmllib as X, pkglib as P
from vlib import sx_str, sx_to_pystr

THEOREMS = ['C11_length', 'C11_names_distinct', 'C11_new_name_free', 'C11_reference_follows (any element sequence, by induction with the invariant LoadStylesProofs.inv)',
            'C11_styles_part', 'C11_content_part', 'C11_content_unchanged', 'C11_common_styles', 'C11_untouched',
            'C11_redirected_iff_can_name_a_style, C11_all_schema_reference_attributes_scanned (obligations on regenerated tables)']
RULE = ('packages written by the harness (zipfile + XML text, nothing of odfpy): 1-3 automatic-style names defined in both content.xml and '
        'styles.xml (same or different family, different properties, unique marker in style:display-name), optionally with the name '
        'prefixed by M / MM also taken in either part or by a common style; every style family x its reference attributes, sites in the '
        'body, in master pages (header content, the master page itself, frames), on style definitions (parent-style-name), with the '
        'colliding style referenced from master pages, the body, both or neither; plus one sweep over EVERY reference attribute of the '
        'ODF 1.2 schema that can name a style:style x {body, master page}; plus references to page layouts / list styles / data styles '
        'that bear the same name as a renamed style. oracle (independent: expat over the source and over the saved package, a walk of '
        'the loaded document): the marker of the definition each reference site resolves to (own part\'s automatic styles, then the common '
        'styles) in the source = in the loaded document (all definitions, by name, exactly one) = in the package saved from it = after a '
        'second load/save; definitions unchanged but for style:name; references to other kinds of styles keep their value. correspondence: '
        'the elements in load order (definition name, names held by redirected reference attributes) through the extracted load_all vs '
        'the loaded document, per element. non-trivial = a package with at least one clash; distinct by (families, reference sites).')
TRUSTED = ['which (element, attribute) pairs can name a style:style is written from the ODF 1.2 specification twice: LoadStyles.spec_other_kind* (Coq) and OTHER_KIND* here',
           'the abstraction of a package to the model\'s element list is done by this harness (expat, document order, content.xml then styles.xml)']
ASSUMPTIONS = ['within one part (its automatic styles plus the common styles) style:style names are unique across families, as office suites write them; '
               'page layouts, list styles and data styles are not renamed by the loader and are assumed not to clash between the parts',
               'a reference follows a rename only if the definition precedes it in styles.xml (the schema order styles, automatic-styles, master-styles guarantees it for master pages)']

NS = P.NS
XMLNS = 'http://www.w3.org/XML/1998/namespace'
DBNS = 'urn:oasis:names:tc:opendocument:xmlns:database:1.0'
STY, OFF, TXT = NS['style'], NS['office'], NS['text']
PFX = dict((u, p) for p, u in NS.items()); PFX[DBNS] = 'db'

# from the specification (not from the code): reference attributes that never name a style:style ...
OTHER_KIND = {(NS['draw'], 'fill-gradient-name'), (NS['draw'], 'fill-hatch-name'), (NS['draw'], 'fill-image-name'), (NS['draw'], 'marker-end'),
              (NS['draw'], 'marker-start'), (NS['draw'], 'master-page-name'), (NS['draw'], 'opacity-name'), (NS['draw'], 'stroke-dash'),
              (NS['draw'], 'stroke-dash-names'), (NS['presentation'], 'presentation-page-layout-name'), (STY, 'data-style-name'),
              (STY, 'percentage-data-style-name'), (STY, 'list-style-name'), (STY, 'master-page-name'), (TXT, 'master-page-name'),
              (STY, 'page-layout-name'), (TXT, 'style-override')}
# ... or not on these elements
OTHER_KIND_ON = {((TXT, 'list'), (TXT, 'style-name')), ((TXT, 'numbered-paragraph'), (TXT, 'style-name')), ((STY, 'master-page'), (STY, 'next-style-name'))}

FAMILIES = ['paragraph', 'text', 'table', 'table-column', 'table-row', 'table-cell', 'graphic', 'presentation', 'drawing-page', 'section', 'ruby', 'chart']
# family -> (element, attribute) sites; 'B' usable in the body, 'M' in master pages
FAM_SITES = {
    'paragraph': [('text:p', 'text:style-name', 'BM'), ('text:h', 'text:style-name', 'BM'), ('draw:frame', 'draw:text-style-name', 'BM'), ('text:p', 'text:cond-style-name', 'BM'),
                  ('text:p', 'text:class-names', 'BM'), ('form:text', 'form:text-style-name', 'B')],
    'text': [('text:span', 'text:style-name', 'BM'), ('text:a', 'text:style-name', 'BM'), ('text:a', 'text:visited-style-name', 'BM'), ('text:span', 'text:class-names', 'BM')],
    'table': [('table:table', 'table:style-name', 'BM')],
    'table-column': [('table:table-column', 'table:style-name', 'BM')],
    'table-row': [('table:table-row', 'table:style-name', 'BM')],
    'table-cell': [('table:table-cell', 'table:style-name', 'BM'), ('table:table-column', 'table:default-cell-style-name', 'BM'), ('table:table-row', 'table:default-cell-style-name', 'BM')],
    'graphic': [('draw:frame', 'draw:style-name', 'BM'), ('draw:rect', 'draw:style-name', 'BM'), ('draw:custom-shape', 'draw:class-names', 'BM'), ('draw:line', 'draw:style-name', 'BM')],
    'presentation': [('draw:frame', 'presentation:style-name', 'BM'), ('draw:frame', 'presentation:class-names', 'BM'), ('draw:rect', 'presentation:style-name', 'M')],
    'drawing-page': [('draw:page', 'draw:style-name', 'B'), ('style:master-page', 'draw:style-name', 'M'), ('presentation:notes', 'draw:style-name', 'BM')],
    'section': [('text:section', 'text:style-name', 'B')],
    'ruby': [('text:ruby', 'text:style-name', 'BM')],
    'chart': [('chart:plot-area', 'chart:style-name', 'B')],
}
WRAP = {'text:span': ('<text:p>', '</text:p>'), 'text:a': ('<text:p>', '</text:p>'), 'text:ruby': ('<text:p>', '</text:p>'),
        'table:table-column': ('<table:table>', '</table:table>'), 'table:table-row': ('<table:table>', '</table:table>'),
        'table:table-cell': ('<table:table><table:table-row>', '</table:table-row></table:table>'),
        'presentation:notes': ('<draw:page>', '</draw:page>'), 'chart:plot-area': ('<chart:chart>', '</chart:chart>')}

def qn(s):
    p, l = s.split(':'); return (DBNS if p == 'db' else XMLNS if p == 'xml' else NS[p], l)
def pn(q):
    return ('xml' if q[0] == XMLNS else PFX[q[0]]) + ':' + q[1]

class Gen:
    """one package as XML text; every element that matters carries a marker (xml:id on sites, style:display-name on definitions)"""
    def __init__(self, rng):
        self.rng = rng; self.k = 0
        self.content_auto = []; self.styles_auto = []; self.common = []; self.body = []; self.master_inner = []; self.master_atts = []
        self.desc = {'clash': [], 'sites': []}
    def mark(self, p):
        self.k += 1; return '%s%d' % (p, self.k)
    def style(self, where, name, fam, extra=''):
        m = self.mark({'c': 'c', 's': 's', 'k': 'k'}[where])
        col = '#%06x' % self.rng.randrange(1 << 24)
        x = '<style:style style:name="%s" style:family="%s" style:display-name="%s"%s><style:text-properties fo:color="%s"/></style:style>' % (name, fam, m, extra, col)
        {'c': self.content_auto, 's': self.styles_auto, 'k': self.common}[where].append(x)
        return m
    def site(self, where, el, attr, names, extra=''):
        i = self.mark('r')
        if where == 'M' and el == 'style:master-page':
            self.master_atts.append((attr, names, i)); self.desc['sites'].append((where, el, attr, names)); return i
        x = '<%s xml:id="%s" %s="%s"%s>x</%s>' % (el, i, attr, names, extra, el)
        w = WRAP.get(el, ('', ''))
        if el.startswith('draw:') and where == 'B' and el != 'draw:page': w = ('<text:p>', '</text:p>')
        (self.body if where == 'B' else self.master_inner).append(w[0] + x + w[1])
        self.desc['sites'].append((where, el, attr, names))
        return i
    def package(self):
        masters = []
        matt = ''.join(' %s="%s"' % (a, n) for a, n, i in self.master_atts[:1])
        mid = self.master_atts[0][2] if self.master_atts else self.mark('r')
        masters.append('<style:master-page style:name="Standard" xml:id="%s" style:page-layout-name="%s"%s><style:header>%s</style:header>%s</style:master-page>'
                       % (mid, self.page_layout, matt, ''.join(x for x in self.master_inner if x.startswith('<text:') or x.startswith('<table:')),
                          ''.join(x for x in self.master_inner if not (x.startswith('<text:') or x.startswith('<table:')))))
        for a, n, i in self.master_atts[1:]:
            masters.append('<style:master-page style:name="%s" xml:id="%s" style:page-layout-name="%s" %s="%s"/>' % (self.mark('Mp'), i, self.page_layout, a, n))
        ex = {'db': DBNS}
        c = P.content_xml(''.join(self.body) or '<text:p>empty</text:p>', ''.join(self.content_auto), extra_ns=ex)
        s = P.styles_xml(''.join(self.common), ''.join(self.styles_auto), ''.join(masters), extra_ns=ex)
        members = [('content.xml', c, 'text/xml'), ('styles.xml', s, 'text/xml'), ('meta.xml', P.meta_xml(), 'text/xml'), ('settings.xml', P.settings_xml(), 'text/xml')]
        return P.make_package(members), c, s

class Directed:
    """a hand-written package; .directed names it in the match of every violation it gives"""
    def __init__(self, name, body, cauto, sauto, master, common=''):
        self.directed = name; self.desc = {'clash': [], 'sites': [], 'directed': name}
        self.parts = (body, cauto, common, sauto, master)
    def package(self):
        body, cauto, common, sauto, master = self.parts
        c = P.content_xml(body, cauto); s = P.styles_xml(common, sauto, master)
        return P.make_package([('content.xml', c, 'text/xml'), ('styles.xml', s, 'text/xml'), ('meta.xml', P.meta_xml(), 'text/xml'), ('settings.xml', P.settings_xml(), 'text/xml')]), c, s

def directed_packages():
    t1 = '<style:style style:name="T1" style:family="text" style:display-name="%s"><style:text-properties fo:color="%s"/></style:style>'
    lst = '<text:list text:style-name="L1"><text:list-item><text:p xml:id="%s"><text:span xml:id="%s" text:style-name="T1">x</text:span></text:p></text:list-item></text:list>'
    # a reference inside the automatic styles of styles.xml to a style of that part that stands BEHIND it (the numbers of a list
    # style set in a character style): the loader renames that style when it meets it - after the reference was read
    fwd = Directed('forward-reference-in-styles-part', lst % ('b1', 'b2'), t1 % ('c-T1', '#0000ff'),
                   '<style:page-layout style:name="pm1"/><text:list-style style:name="L1"><text:list-level-style-number xml:id="lvl" text:level="1" text:style-name="T1" style:num-format="1"/></text:list-style>'
                   + t1 % ('s-T1', '#ff0000'),
                   '<style:master-page style:name="Standard" style:page-layout-name="pm1"><style:header>%s</style:header></style:master-page>' % (lst % ('h1', 'h2')))
    # the same with the definition in front: every reference follows
    bwd = Directed('backward-reference-in-styles-part', lst % ('b1', 'b2'), t1 % ('c-T1', '#0000ff'),
                   '<style:page-layout style:name="pm1"/>' + t1 % ('s-T1', '#ff0000')
                   + '<text:list-style style:name="L1"><text:list-level-style-number xml:id="lvl" text:level="1" text:style-name="T1" style:num-format="1"/></text:list-style>',
                   '<style:master-page style:name="Standard" style:page-layout-name="pm1"><style:header>%s</style:header></style:master-page>' % (lst % ('h1', 'h2')))
    return [fwd, bwd]

def gen_package(rng, force_site=None):
    g = Gen(rng)
    pool = ['P1', 'P2', 'T1', 'gr1', 'dp1', 'pr1', 'Table1', 'co1', 'ro1', 'ce1', 'A', 'B1']
    rng.shuffle(pool)
    nclash = rng.choice([1, 1, 2, 3]) if force_site is None else 1
    clash = pool[:nclash]; rest = pool[nclash:]
    cnames = list(clash) + rest[:rng.randint(0, 2)]
    snames = list(clash) + rest[3:3 + rng.randint(0, 2)]
    # the M-prefixed names may be taken too
    for c in clash:
        r = rng.random()
        if r < 0.15: cnames.append('M' + c)
        elif r < 0.35: snames.insert(rng.randrange(len(snames) + 1), 'M' + c)
        elif r < 0.45: snames.insert(0, 'M' + c); cnames.append('MM' + c)
        elif r < 0.5: g.desc['common_M'] = 'M' + c
    knames = ['Standard', 'Heading'] + ([g.desc['common_M']] if 'common_M' in g.desc else [])
    fam = {}
    def famof(where, n):
        base = n.lstrip('M')
        if force_site is not None: return force_site[0]
        if where == 's' and base in clash and rng.random() < 0.5: return fam.get(('c', base)) or rng.choice(FAMILIES)
        return rng.choice(FAMILIES)
    kmark = {}
    for n in knames:
        f = rng.choice(FAMILIES); fam[('k', n)] = f; kmark[n] = g.style('k', n, f)
    rng.shuffle(cnames)
    for n in cnames:
        fam[('c', n)] = famof('c', n)
        g.style('c', n, fam[('c', n)], ' style:parent-style-name="%s"' % rng.choice(knames) if rng.random() < 0.3 else '')
    # styles of another kind bearing a clashing name (never renamed; references to them must keep their value)
    g.page_layout = rng.choice(clash + ['pm1'])
    g.styles_auto.append('<style:page-layout style:name="%s" style:display-name="%s"/>' % (g.page_layout, g.mark('pl')))
    ls = rng.choice(clash + ['L1'])
    g.styles_auto.insert(rng.randrange(len(g.styles_auto) + 1), '<text:list-style style:name="%s" style:display-name="%s"/>' % (ls, g.mark('ls')))
    seen_s = []
    for n in snames:
        fam[('s', n)] = famof('s', n)
        extra = ''
        if rng.random() < 0.25: extra = ' style:parent-style-name="%s"' % rng.choice(knames)
        elif seen_s and rng.random() < 0.15: extra = ' style:next-style-name="%s"' % rng.choice(seen_s)      # a style naming an earlier one of its part
        if rng.random() < 0.2: extra += ' style:data-style-name="%s"' % rng.choice(clash)                     # a data style: not a style:style
        g.style('s', n, fam[('s', n)], extra); seen_s.append(n)
    g.desc['clash'] = [(c, fam[('c', c)], fam[('s', c)]) for c in clash]
    # a list style of styles.xml (after the definitions, so that what it names has been read) whose levels name a colliding style
    # for the number or the bullet: text:style-name on a list level is a reference to a style:style like any other
    if force_site is None and rng.random() < 0.6:
        lv = rng.choice(clash)
        g.styles_auto.append('<text:list-style style:name="LLv" style:display-name="%s"><text:list-level-style-number text:level="1" xml:id="%s" text:style-name="%s" style:num-format="1"/>'
                             '<text:list-level-style-bullet text:level="2" xml:id="%s" text:style-name="%s" text:bullet-char="-"/></text:list-style>' % (g.mark('ls'), g.mark('r'), lv, g.mark('r'), lv))
        g.site('M', 'text:list', 'text:style-name', 'LLv')
        g.desc['sites'].append(('S', 'text:list-level-style-number', 'text:style-name', lv))
    # reference sites
    def sites_for(where, names_by_family, scope_names):
        for n in scope_names:
            if force_site is None and rng.random() < 0.3: continue                      # referenced from neither / not from here
            f = names_by_family[n]
            cands = [s for s in FAM_SITES[f] if where in s[2]]
            if force_site is not None: cands = [(force_site[1], force_site[2], 'BM')]
            if not cands: cands = [('text:p', 'text:style-name', 'BM')]
            for _ in range(rng.choice([1, 1, 2])):
                el, attr, _w = rng.choice(cands)
                val = n
                if attr.endswith('class-names') and rng.random() < 0.6:
                    others = [m for m in scope_names if m != n]
                    val = ' '.join([n] + rng.sample(others, min(len(others), rng.randint(0, 2))))
                extra = ''
                if el == 'draw:frame' and attr != 'draw:text-style-name' and rng.random() < 0.3:
                    extra = ' draw:text-style-name="%s"' % rng.choice(scope_names)
                g.site(where, el, attr, val, extra)
    sites_for('B', dict((n, fam[('c', n)]) for n in cnames), cnames)
    sites_for('M', dict((n, fam[('s', n)]) for n in snames), snames)
    if force_site is None:
        for n in knames:                                                                # common styles, from both parts
            if rng.random() < 0.5: g.site('B', 'text:p', 'text:style-name', n)
            if rng.random() < 0.5: g.site('M', 'text:p', 'text:style-name', n)
        g.site('M', 'text:list', 'text:style-name', ls)                                 # a list style: the value must stay
        if rng.random() < 0.5: g.site('B', 'text:list', 'text:style-name', ls)
        if rng.random() < 0.3: g.site('M', 'text:numbered-paragraph', 'text:style-name', ls)
        if rng.random() < 0.3: g.site('M', 'text:list-item', 'text:style-override', ls)
        if rng.random() < 0.3: g.site('M', 'draw:frame', 'draw:fill-gradient-name', rng.choice(clash))   # (as written by careless producers)
    return g

# ---------------------------------------------------------------- independent reading ---
def A(e): return dict((tuple(a), v) for a, v in e[2])
def elements(t, parent=None, out=None):
    """(element, parent) in document order"""
    if out is None: out = []
    if t[0] != 'E': return out
    out.append((t, parent))
    for k in t[3]: elements(k, t, out)
    return out
def section(root, local):
    for k in root[3]:
        if k[0] == 'E' and tuple(k[1]) == (OFF, local): return k
    return None
def style_defs(sec):
    return [k for k in (sec[3] if sec else []) if k[0] == 'E' and tuple(k[1]) == (STY, 'style')]
def can_name_style(el, attr, schema_refs):
    return attr in schema_refs and attr not in OTHER_KIND and (el, attr) not in OTHER_KIND_ON
def marker_of(e):
    a = A(e); return a.get((XMLNS, 'id')) or a.get((STY, 'display-name'))

def resolution(parts, schema_refs):
    """parts = {'content': root tree, 'styles': root tree} -> ({(site marker, attr, index): [markers]}, {(site marker, attr): value} for other kinds)"""
    common = style_defs(section(parts['styles'], 'styles')) if parts.get('styles') else []
    res = {}; other = {}
    for pname, root in parts.items():
        if root is None: continue
        autos = style_defs(section(root, 'automatic-styles'))
        for e, par in elements(root):
            m = marker_of(e)
            if m is None: continue
            for attr, v in A(e).items():
                if attr not in schema_refs: continue
                if can_name_style(tuple(e[1]), attr, schema_refs):
                    for i, n in enumerate(v.split()):
                        hit = [A(d).get((STY, 'display-name')) for d in autos if A(d).get((STY, 'name')) == n]
                        if not hit: hit = [A(d).get((STY, 'display-name')) for d in common if A(d).get((STY, 'name')) == n]
                        res.setdefault((m, attr, i), []).append((pname, hit))
                else:
                    other.setdefault((m, attr), []).append((pname, v))
    return res, other

def abstract(parts, twin):
    """the model's element list: content.xml then styles.xml, document order, below the sections the loader reads"""
    scanned = [tuple(x) for x in twin['scanned']]
    excl = set(tuple(x) for x in twin.get('redirect_excluded', []))
    excl_on = set((tuple(e), tuple(a)) for e, a in twin.get('redirect_excluded_on', []))
    out = []
    for pname in ('content', 'styles'):
        root = parts[pname]
        for sec in root[3]:
            if sec[0] != 'E': continue
            if pname == 'content' and tuple(sec[1]) == (OFF, 'font-face-decls'): continue
            for k in sec[3]:
                for e, par in elements(k, sec):
                    a = A(e)
                    d = None
                    if tuple(e[1]) == (STY, 'style') and tuple(par[1]) in ((OFF, 'styles'), (OFF, 'automatic-styles')) and (STY, 'name') in a:
                        d = a[(STY, 'name')]
                    refs = []
                    for attr, v in a.items():
                        if attr in scanned and attr not in excl and (tuple(e[1]), attr) not in excl_on:
                            refs.append((scanned.index(attr), v.split()))
                    out.append((marker_of(e), d, sorted(refs)))
    return out

def run_case(ctx, d, twin, schema_refs, g, label):
    data, c_xml, s_xml = g.package()
    case = {'label': label, 'content.xml': c_xml, 'styles.xml': s_xml}
    src = {}
    for nm, x in (('content', c_xml), ('styles', s_xml)):
        t = X.expat_parse(x)
        if t[0] != 'ok': raise RuntimeError('harness wrote a malformed part: ' + t[1])
        src[nm] = t[1]
    src_res, src_other = resolution(src, schema_refs)
    # sanity of the generator: every style reference it wrote resolves to exactly one definition in the source
    for k, v in src_res.items():
        for pname, hit in v:
            if len(hit) != 1: raise RuntimeError('generator: %r resolves to %r in the source' % (k, hit))
    from odf.opendocument import load
    ctx.oracle_cases += 1
    try:
        doc = load(io.BytesIO(data))
    except Exception as e:
        ctx.violation('load-failed', case, repr(e), 'the package loads', {}); return
    # ---- the loaded document ----------------------------------------------------------------------------
    ltrees = dict((a, X.walk_real(getattr(doc, a))) for a in ('styles', 'automaticstyles', 'masterstyles', 'body'))
    ldefs = style_defs(ltrees['styles']) + style_defs(ltrees['automaticstyles'])
    by_marker = {}
    for a in ('styles', 'automaticstyles', 'masterstyles', 'body'):
        for e, par in elements(ltrees[a]):
            m = marker_of(e)
            if m is not None: by_marker.setdefault(m, []).append(e)
    def check_resolution(stage, site_elems, resolve, src_part_of=None):
        for (m, attr, i), v in src_res.items():
            want = v[0][1][0]
            for e in site_elems.get(m, []):
                val = A(e).get(attr)
                names = val.split() if val is not None else []
                got = resolve(e, names[i]) if i < len(names) else None
                if got != [want]:
                    ctx.violation('reference-resolves-elsewhere', dict(case, stage=stage, site=m, attribute=pn(attr), value=val),
                                  {'resolves_to': got}, {'resolves_to': [want]}, {'attribute': pn(attr), 'stage': stage, 'directed': getattr(g, 'directed', None), 'site': m})
            if m not in site_elems and stage == 'loaded':
                ctx.violation('site-lost', dict(case, stage=stage, site=m), None, 'the element is in the loaded document', {})
        for (m, attr), v in src_other.items():
            for e in site_elems.get(m, []):
                if A(e).get(attr) != v[0][1]:
                    ctx.violation('other-reference-changed', dict(case, stage=stage, site=m, attribute=pn(attr)), A(e).get(attr), v[0][1], {'attribute': pn(attr)})
    check_resolution('loaded', by_marker, lambda e, n: [A(x).get((STY, 'display-name')) for x in ldefs if A(x).get((STY, 'name')) == n])
    # definitions: each once, unchanged but for the name
    for pname in ('content', 'styles'):
        for sec in ('styles', 'automatic-styles'):
            for s in style_defs(section(src[pname], sec)):
                m = A(s).get((STY, 'display-name'))
                got = [x for x in ldefs if A(x).get((STY, 'display-name')) == m]
                if len(got) != 1:
                    ctx.violation('definition-count', dict(case, marker=m), len(got), 1, {}); continue
                strip = lambda t: (t[1], sorted((a, v) for a, v in A(t).items() if a != (STY, 'name') and (a not in schema_refs)), X.canon(t)[3])
                if strip(got[0]) != strip(s):
                    ctx.violation('definition-changed', dict(case, marker=m), strip(got[0]), strip(s), {})
    # ---- correspondence: element by element ---------------------------------------------------------------
    ab = abstract(src, twin)
    sx = '(' + ' '.join('(%s (%s))' % ('None' if dn is None else '(Some %s)' % sx_str(dn),
                                        ' '.join('(%d (%s))' % (i, ' '.join(sx_str(n) for n in ns)) for i, ns in refs)) for m, dn, refs in ab) + ')'
    mo = d.call('ls_load', sx)
    scanned = [tuple(x) for x in twin['scanned']]
    for (m, dn, refs), r in zip(ab, mo):
        if m is None: continue
        mdef = None if r[0] == 'None' else sx_to_pystr(r[0][1])
        mrefs = sorted((int(x[0]), [sx_to_pystr(n) for n in x[1]]) for x in r[1])
        for e in by_marker.get(m, [])[:1]:
            a = A(e)
            idef = a.get((STY, 'name')) if dn is not None else None
            irefs = sorted((i, a.get(scanned[i], '').split()) for i, _ in refs)
            ctx.corr('loaded element %s (definition name, redirected references)' % m, case, [mdef, mrefs], [idef, irefs])
    # ---- the package saved from it, and a second generation -------------------------------------------
    cur = doc
    for gen_no in (1, 2):
        buf = io.BytesIO()
        try: cur.write(buf)
        except Exception as e:
            ctx.violation('save-failed', dict(case, generation=gen_no), repr(e), 'the loaded document can be saved', {}); return
        pk = P.read_package(buf.getvalue())
        saved = {}
        for nm in ('content', 'styles'):
            t = X.expat_parse(pk['members'][nm + '.xml'])
            if t[0] != 'ok':
                ctx.violation('saved-part-not-parsable', dict(case, part=nm), t[1], 'well-formed', {}); return
            saved[nm] = t[1]
        scommon = style_defs(section(saved['styles'], 'styles'))
        site_elems = {}; part_of = {}
        for nm in ('content', 'styles'):
            for e, par in elements(saved[nm]):
                m = marker_of(e)
                if m is not None:
                    site_elems.setdefault(m, []).append(e); part_of[id(e)] = nm
        def resolve_saved(e, n):
            autos = style_defs(section(saved[part_of[id(e)]], 'automatic-styles'))
            hit = [A(x).get((STY, 'display-name')) for x in autos if A(x).get((STY, 'name')) == n]
            return hit or [A(x).get((STY, 'display-name')) for x in scommon if A(x).get((STY, 'name')) == n]
        check_resolution('saved#%d' % gen_no, site_elems, resolve_saved)
        # every reference site of the body and of the master pages is still there
        for (m, attr, i) in src_res:
            if m.startswith('r') and m not in site_elems:
                ctx.violation('site-lost', dict(case, stage='saved#%d' % gen_no, site=m), None, 'the element is in the saved package', {})
        if gen_no == 1:
            try: cur = load(io.BytesIO(buf.getvalue()))
            except Exception as e:
                ctx.violation('reload-failed', case, repr(e), 'the saved package loads', {}); return
    if g.desc['clash']: ctx.nt((tuple(g.desc['clash']), tuple(g.desc['sites'])))
    for c, f1, f2 in g.desc['clash']: ctx.bump('clash-families=%s' % ('same' if f1 == f2 else 'different'))
    for w, el, attr, names in g.desc['sites']: ctx.bump('site=%s@%s' % (attr, w))
    ctx.bump('sites=%d' % len(g.desc['sites']))

def run(ctx):
    d = ctx.get_driver()
    twin = json.load(open(os.path.join(vlib.COQ, 'gen', 'twin.json')))['GenStyleRefs.v']
    schema_refs = set(tuple(x) for x in twin['schema'])
    import odf.opendocument as O
    live = sorted((str(a), str(b)) for a, b in getattr(O, '_NOT_STYLE_STYLE_REFERENCES', ()))
    ctx.corr('translator twin of _NOT_STYLE_STYLE_REFERENCES', None, sorted(tuple(x) for x in twin.get('redirect_excluded', [])), live)
    # fixed corpus first
    import random
    for seed, force in ((1, None), (2, None), (3, ('graphic', 'draw:frame', 'draw:style-name')), (4, ('presentation', 'draw:frame', 'presentation:style-name')),
                        (5, ('table-cell', 'table:table-cell', 'table:style-name')), (6, ('drawing-page', 'style:master-page', 'draw:style-name'))):
        g = gen_package(random.Random(seed), force)
        run_case(ctx, d, twin, schema_refs, g, 'corpus-%d' % seed)
    for g in directed_packages():
        run_case(ctx, d, twin, schema_refs, g, 'directed: ' + g.directed)
    # every schema reference attribute that can name a style:style, in the body and in a master page
    sweep = 0
    for attr in sorted(schema_refs):
        if attr in OTHER_KIND: continue
        carrier = {'chart': 'chart:plot-area', 'database': 'db:column'}.get(attr[0].split(':')[-2], None)
        an = pn(attr)
        el = {'style:apply-style-name': 'style:map', 'style:leader-text-style': 'style:tab-stop', 'style:style-name': 'style:drop-cap',
              'style:text-line-through-text-style': 'style:text-properties', 'style:register-truth-ref-style-name': 'style:page-layout-properties',
              'style:next-style-name': 'style:style', 'style:parent-style-name': 'style:style'}.get(an) or carrier or \
             ('draw:frame' if an.startswith(('draw:', 'presentation:')) else 'table:table' if an.startswith('table:') else 'form:text' if an.startswith('form:') else 'text:p')
        for where in 'BM':
            g = gen_package(ctx.rng, (ctx.rng.choice(FAMILIES), el, an))
            run_case(ctx, d, twin, schema_refs, g, 'sweep %s @%s' % (an, where)); sweep += 1
    ctx.exhaustive.append('every reference attribute of the schema that can name a style:style x {body, master page}: %d packages' % sweep)
    n = 40 if ctx.quick else 1500
    for i in range(n):
        g = gen_package(ctx.rng)
        run_case(ctx, d, twin, schema_refs, g, 'random-%d' % i)
        if i < 2: ctx.sample({'clash': g.desc['clash'], 'sites': g.desc['sites'][:6]})

def replay(ctx, case):
    print(json.dumps(case, indent=1)[:4000])
    from odf.opendocument import load
    data = P.make_package([('content.xml', case['content.xml'], 'text/xml'), ('styles.xml', case['styles.xml'], 'text/xml'),
                           ('meta.xml', P.meta_xml(), 'text/xml'), ('settings.xml', P.settings_xml(), 'text/xml')])
    doc = load(io.BytesIO(data))
    print(doc.stylesxml()); print(doc.contentxml().decode('utf-8'))
    return 1
