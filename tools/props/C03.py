# C03 — a saved package is a conforming ODF zip container with a truthful manifest.
import io, os, glob
import vlib, xmllib as X, pkglib as P
from . import pkgcommon as PC

THEOREMS = ['C03_mimetype_first', 'C03_required', 'C03_manifest_exact', 'C03_root_media_type', 'C03_object_media_type', 'C03_pictures_main', 'C03_pictures_embedded']
RULE = ('histories of addObject (default and explicit names, nesting, up to 4 objects), addPictureFromString / addPicture with an explicit '
        'name / addPicture(FromFile) from a file, addThumbnail, settings present or absent, on fresh documents and on documents loaded from '
        'generated packages (extra members, object folders numbered arbitrarily, Thumbnails, signatures). correspondence: member order, '
        'STORED flags, picture and extra bytes, manifest rows in order vs the extracted save_m. oracle: raw first local file header '
        '(signature, method 0, extra length 0, name, payload), central directory, expat-parsed manifest: mimetype first/stored/no extra/'
        'exact; four required members; no member name twice; manifest file rows = members; root and object-folder media types; every '
        'picture byte-identical under folder + returned name with its media type. non-trivial = a package with at least one embedded '
        'object or picture; distinct by history.')
TRUSTED = ['zipfile turns ZipInfo fields into bytes (the model stops at name / method / extra / payload); mimetypes.guess_* and uuid4 are read off the real objects, not modelled']
ASSUMPTIONS = ['picture names are file names (no trailing slash); opaque members without content are folder rows (pics_ok, extras_ok)']

def run(ctx):
    from odf.opendocument import load
    n = 60 if ctx.quick else 1200
    for i in range(n):
        h = PC.Hist(ctx, ctx.scratch)
        try: data = h.save()
        except Exception as e:
            ctx.oracle_cases += 1
            ctx.violation('save-raised', {'history': describe(h)}, repr(e)[:300], 'a package', {'exception': type(e).__name__}); continue
        tag = 'fresh'
        PC.corr_package(ctx, h.root, data, tag)
        objs = [(d.folder[1:] + '/', d.mimetype) for d in h.docs[1:] if reachable(h.root, d)]
        pics = [((d.folder[1:] + '/' if d is not h.root else '') + nm, dt, mt) for d, nm, dt, mt in h.picrefs if reachable(h.root, d)]
        case = {'history': describe(h)}
        PC.judge_package(ctx, data, case, h.root.mimetype, objs, pics)
        if objs or pics: ctx.nt(repr(case))
        ctx.bump('objects=%d' % len(objs)); ctx.bump('pictures=%d' % len(pics))
        if i < 2: ctx.sample(case)
        # a sub-document that was attached to another one can still be saved on its own
        for dsub in h.docs[1:]:
            bs = io.BytesIO(); dsub.write(bs)
            sub_objs = [(d.folder[1:] + '/', d.mimetype) for d in h.docs[1:] if d is not dsub and reachable(dsub, d)]
            sub_pics = [((d.folder[1:] + '/' if d is not dsub else '') + nm, dt, mt) for d, nm, dt, mt in h.picrefs if reachable(dsub, d)]
            PC.judge_package(ctx, bs.getvalue(), dict(case, standalone_save_of=dsub.folder), dsub.mimetype, sub_objs, sub_pics, what='sub-document saved on its own')
        # second generation: load what was saved, save again
        d2 = load(io.BytesIO(data)); b2 = io.BytesIO(); d2.write(b2)
        PC.corr_package(ctx, d2, b2.getvalue(), 'reloaded')
        PC.judge_package(ctx, b2.getvalue(), dict(case, generation=2), h.root.mimetype, objs, pics, what='re-saved package')
    # packages from other producers
    nsyn = [0]
    for ex in sorted(glob.glob(os.path.join(vlib.REPO, 'tests', 'examples', '*.od?'))) + ['synthetic'] * (6 if ctx.quick else 60):
        try:
            if ex == 'synthetic':
                src = synthetic(ctx.rng, nsyn[0]); nsyn[0] += 1
            else:
                src = open(ex, 'rb').read()
            d = load(io.BytesIO(src))
        except Exception as e:
            ctx.bump('load-raised:' + type(e).__name__); continue
        b = io.BytesIO(); d.write(b)
        PC.corr_package(ctx, d, b.getvalue(), 'loaded ' + os.path.basename(ex))
        sp = P.read_package(src)
        objs = [(p, m) for p, m in (sp['manifest'] or []) if p.startswith('Object ') and p.endswith('/') and (p + 'content.xml' in sp['members'] or p + 'styles.xml' in sp['members'])]
        pics = [(p, sp['members'][p], m) for p, m in (sp['manifest'] or []) if p.startswith('Pictures/') and len(p) > 9 and p in sp['members']]
        PC.judge_package(ctx, b.getvalue(), {'loaded': os.path.basename(ex)}, d.mimetype, objs, pics, what='loaded and saved')
        ctx.nt(('loaded', ex, len(src)))
    # an explicit picture name that collides with a member the library writes itself
    from odf.opendocument import OpenDocumentText
    for bad in ('content.xml', 'META-INF/manifest.xml', 'mimetype'):
        d = OpenDocumentText(); d.addPicture(bad, 'image/png', b'x')
        b = io.BytesIO()
        import warnings
        with warnings.catch_warnings():
            warnings.simplefilter('ignore'); d.write(b)
        PC.judge_package(ctx, b.getvalue(), {'explicit picture name': bad}, d.mimetype, cause='explicit-picture-name-is-a-reserved-member-name')
    # an object attached to a sub-document before that sub-document is attached itself (the finding recorded for C16, seen from C03:
    # two members of one name, one folder declared twice)
    from odf.opendocument import OpenDocumentSpreadsheet, OpenDocumentChart
    root = OpenDocumentText(); mid = OpenDocumentSpreadsheet(); leaf = OpenDocumentChart()
    mid.addObject(leaf); root.addObject(mid)
    b = io.BytesIO()
    import warnings
    with warnings.catch_warnings():
        warnings.simplefilter('ignore'); root.write(b)
    PC.judge_package(ctx, b.getvalue(), {'history': 'mid.addObject(leaf); root.addObject(mid); root.write()'}, root.mimetype, cause='child-attached-before-parent')
    # a loaded object's picture is kept among the extra files of the package, not in the object's own Pictures: registering it again on
    # the object (what an application that edits the chart does) names the member twice - the premise extras_apart of C03_no_member_twice
    from odf.opendocument import load
    c = P.content_xml('<chart:chart chart:class="chart:bar"><chart:plot-area/></chart:chart>', kind='chart')
    obj = '<text:p><draw:frame draw:name="o" svg:width="5cm" svg:height="2cm"><draw:object xlink:href="./Object 1" xlink:type="simple"/></draw:frame></text:p>'
    src = P.make_package([('content.xml', P.content_xml(obj), 'text/xml'), ('styles.xml', P.styles_xml(), 'text/xml'), ('meta.xml', P.meta_xml(), 'text/xml'),
                          ('Object 1/', '', MIMEC), ('Object 1/content.xml', c, 'text/xml'), ('Object 1/styles.xml', P.styles_xml(), 'text/xml'),
                          ('Object 1/Pictures/in.png', b'PNG1', 'image/png')])
    d = load(io.BytesIO(src)); d.childobjects[0].addPicture('Pictures/in.png', 'image/png', b'PNG1')
    b = io.BytesIO()
    with warnings.catch_warnings():
        warnings.simplefilter('ignore'); d.write(b)
    prem = [x == '1' for x in ctx.get_driver().call('pkg_premises', PC.model_topdoc(d))]
    ctx.bump('re-registered object picture: premises pairs_distinct=%d shape_ok=%d extras_apart=%d' % tuple(prem))
    PC.judge_package(ctx, b.getvalue(), {'history': "load(package with Object 1/Pictures/in.png); childobjects[0].addPicture('Pictures/in.png', ..); write()"}, d.mimetype,
                     [('Object 1/', MIMEC)], cause='loaded-object-picture-registered-again')

def synthetic(rng, i=None):
    c = P.content_xml('<text:p>obj</text:p>'); s = P.styles_xml()
    nums = rng.sample([1, 2, 3, 7, 10, 12, 100, 2024], rng.randint(0, 3))
    members = [('content.xml', P.content_xml('<text:p>main</text:p>'), 'text/xml'), ('styles.xml', s, 'text/xml'), ('meta.xml', P.meta_xml(), 'text/xml')]
    for n in nums:
        members += [('Object %d/' % n, '', MIMEC), ('Object %d/content.xml' % n, c, 'text/xml'), ('Object %d/styles.xml' % n, s, 'text/xml')]
        if rng.random() < 0.5: members.append(('Object %d/Pictures/in.png' % n, b'PNGDATA%d' % n, 'image/png'))
        if rng.random() < 0.3: members += [('Object %d/Object 1/' % n, '', MIMEC), ('Object %d/Object 1/content.xml' % n, c, 'text/xml')]
        members.append(('ObjectReplacements/Object %d' % n, b'wmf%d' % n, 'application/x-openoffice-gdimetafile'))
    if rng.random() < 0.5: members += [('Pictures/a b.png', b'\x89PNG', 'image/png')]
    if rng.random() < 0.5: members += [('Thumbnails/thumbnail.png', b'thumb', 'image/png')]
    if (rng.random() < 0.5) if i is None else (i % 2 == 0): members += [('META-INF/documentsignatures.xml', '<x/>', 'text/xml')]      # every other package is signed
    if rng.random() < 0.5: members += [('Configurations2/', '', 'application/vnd.sun.xml.ui.configuration'), ('extra/blob.bin', b'\x00\xff', 'application/octet-stream')]
    # some producers list the manifest itself and the mimetype file in the manifest
    man = [('/', P.MT_TEXT)] + [(p_, mt_ if mt_ is not None else 'text/xml') for p_, d_, mt_ in members]
    k = rng.random()
    if k < 0.35: man.append(('META-INF/manifest.xml', 'text/xml'))
    if 0.2 < k < 0.5: man.append(('mimetype', 'text/plain'))
    if k > 0.8: man.append(('META-INF/', ''))
    rng.shuffle(man)
    return P.make_package(members, manifest=man)
MIMEC = 'application/vnd.oasis.opendocument.chart'

def reachable(root, d):
    if d is root: return True
    return any(reachable(k, d) for k in root.childobjects)

def describe(h):
    return {'objects': [(d.mimetype.rsplit('.', 1)[-1], d.folder, h.refs.get(id(d))) for d in h.docs[1:]],
            'pictures': [(h.docs.index(d), nm, len(dt), mt) for d, nm, dt, mt in h.picrefs], 'thumbnail': h.thumb is not None}

def replay(ctx, case):
    import json
    print(json.dumps(case, indent=1)[:3000]); return 1
