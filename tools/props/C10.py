# C10 — saving keeps every referenced automatic style in the part that refers to it.
import io, json, os
import vlib, xmllib as X, pkglib as P
from vlib import sx_str, sx_to_pystr
from . import doccommon as DC

THEOREMS = ['C10_all_schema_reference_attributes_scanned (obligation on regenerated tables)', 'C10_direct', 'C10_transitive', 'C10_unchanged', 'C10_once']
RULE = ('style graphs: 3-9 automatic styles of every kind (paragraph, text, table-cell, graphic styles, list styles, number styles, page '
        'layouts) referenced through EVERY style reference attribute of the ODF 1.2 schema (read from the RNG by the harness) x {body, '
        'page header of a master page, another automatic style (attribute on the style or on an element inside it)}, chains of length 0-3; '
        'every graph also holds a used style that names another one - named nowhere else when possible - from its own attribute, from a child element or from a grandchild element; '
        'lists of names (class-names). correspondence: the selected lists of _used_auto_styles for content.xml and styles.xml, and the '
        'bytes of contentxml()/stylesxml(), vs the extracted model. oracle: save(), parse content.xml and styles.xml with expat, resolve '
        'every reference site against the automatic styles present in the same part (an independent fixpoint over the source document '
        'says which names must be there); each written style equal to the in-memory definition and at most once. non-trivial = a graph '
        'with at least one reference through an attribute outside the historical eleven, or a chain of length >= 2.')
TRUSTED = ['the list of schema reference attributes is read from grammar/OpenDocument-schema-v1.2-cd04.rng by tools/gen/stylerefs.py (translator) and, independently, by this harness']
ASSUMPTIONS = ['automatic styles are found by their style:name (all kinds share one name space inside office:automatic-styles, as in the code)']

STY = 'urn:oasis:names:tc:opendocument:xmlns:style:1.0'

def run(ctx):
    d = ctx.get_driver()
    twin = json.load(open(os.path.join(vlib.COQ, 'gen', 'twin.json')))['GenStyleRefs.v']
    schema_refs = [tuple(x) for x in twin['schema']]
    scanned = set(tuple(x) for x in twin['scanned'])
    # the translator's view of the code's table vs the live object
    import odf.opendocument as O
    live = set((str(a), str(b)) for a, b in getattr(O, '_STYLE_REFERENCE_ATTRIBUTES', []))
    if live: ctx.corr('translator twin of _STYLE_REFERENCE_ATTRIBUTES', None, sorted(scanned), sorted(live))
    allrefs = sorted(set(schema_refs) | {(STY, 'list-style-name')})
    old11 = {('chart', 'style-name'), ('drawing', 'style-name'), ('drawing', 'text-style-name'), ('presentation', 'style-name'), ('style', 'data-style-name'),
             ('style', 'list-style-name'), ('style', 'page-layout-name'), ('style', 'style-name'), ('table', 'default-cell-style-name'), ('table', 'style-name'), ('text', 'style-name')}
    n = 50 if ctx.quick else 1500
    attr_cycle = list(allrefs)
    for i in range(n):
        doc, names = DC.style_graph(ctx.rng)
        refs = []
        for j in range(ctx.rng.randint(1, 5)):
            attr = attr_cycle[(i * 5 + j) % len(attr_cycle)] if ctx.rng.random() < 0.8 else ctx.rng.choice(allrefs)
            where = ctx.rng.choice(['body', 'body', 'master', 'master', 'auto:' + ctx.rng.choice(names)])
            target = ctx.rng.choice(names)
            if attr[1].endswith('class-names') or attr[1].endswith('dash-names'):
                target = ctx.rng.choice([' ', ' ', '  ', '\t', '\n', ' \n\t'])[:].join(ctx.rng.sample(names, ctx.rng.randint(1, min(3, len(names)))))      # any white space separates the names
            ctx.rng._second = None
            if ctx.rng.random() < 0.4:
                a2 = ctx.rng.choice([a for a in allrefs if a != attr]); t2 = ctx.rng.choice(names)
                ctx.rng._second = (a2, t2); refs.append((where, a2[1], t2))
            DC.add_reference(ctx.rng, doc, names, where, attr, target)
            ctx.rng._second = None
            refs.append((where, attr[1], target))
        if len(set(names)) >= 2:
            # always: a style that is used, and that names another one from an element inside it - the other one named nowhere else if possible
            used_names = set(tk for w, a, tg in refs if not w.startswith('auto') for tk in tg.split())
            named = set(tk for w, a, tg in refs for tk in tg.split())
            host = ctx.rng.choice(sorted(used_names & set(names)) or names)
            free = [x for x in names if x not in named and x != host]
            tgt = ctx.rng.choice(free or [x for x in names if x != host])
            attr = attr_cycle[(i * 7 + 3) % len(attr_cycle)]
            mode = ['autochild', 'autodeep', 'autoattr'][i % 3]
            if host not in used_names:
                DC.add_reference(ctx.rng, doc, names, ['body', 'master'][i % 2], allrefs[i % len(allrefs)], host); refs.append((['body', 'master'][i % 2], allrefs[i % len(allrefs)][1], host))
            DC.add_reference(ctx.rng, doc, names, mode + ':' + host, attr, tgt); refs.append((mode + ':' + host, attr[1], tgt))
            # ... and that one names a third (a chain the selection has to follow to its end, not one step)
            free2 = [x for x in set(names) if x not in named and x not in (host, tgt)]
            if free2:
                t3 = ctx.rng.choice(sorted(free2)); mode2 = ['autoattr', 'autochild', 'autodeep'][i % 3]
                a3 = attr_cycle[(i * 11 + 5) % len(attr_cycle)]
                DC.add_reference(ctx.rng, doc, names, mode2 + ':' + tgt, a3, t3); refs.append((mode2 + ':' + tgt, a3[1], t3))
                free3 = [x for x in free2 if x != t3]
                if free3 and i % 2:
                    t4 = ctx.rng.choice(sorted(free3))
                    DC.add_reference(ctx.rng, doc, names, 'autoattr:' + t3, attr_cycle[(i * 13 + 1) % len(attr_cycle)], t4); refs.append(('autoattr:' + t3, attr_cycle[(i * 13 + 1) % len(attr_cycle)][1], t4))
        def judge(case):
            autos_t = X.walk_real(doc.automaticstyles)
            # ---- correspondence --------------------------------------------------------------------------
            for tag, segs in (('content', [doc.styles, doc.body]), ('styles', [doc.masterstyles])):
                real = [X.walk_real(s) for s in doc._used_auto_styles(segs)]
                m = d.call('doc_used', '(' + ' '.join(X.node_sx(X.walk_real(s)) for s in segs) + ')', X.node_sx(autos_t))
                ctx.corr('_used_auto_styles for %s.xml' % tag, case, [X.node_from_sx(x) for x in m], real)
            DC.corr_render(ctx, doc, kinds=('content', 'styles'), tag='C10')
            # ---- oracle ---------------------------------------------------------------------------------------
            buf = io.BytesIO(); doc.write(buf)
            pk = P.read_package(buf.getvalue())
            refset = set(allrefs)
            for part, roots in (('content.xml', [X.walk_real(doc.body)]), ('styles.xml', [X.walk_real(doc.masterstyles)])):
                ctx.oracle_cases += 1
                need = DC.needed(roots, autos_t[3], refset)
                t = X.expat_parse(pk['members'][part])
                if t[0] != 'ok':
                    ctx.violation('part-not-parsable', dict(case, part=part), t[1], 'well-formed', {}); continue
                written = [k for k in DC.__dict__['X'].canon(t[1])[3] if k[0] == 'E' and k[1][1] == 'automatic-styles']
                wl = written[0][3] if written else []
                wnames = [dict((tuple(a), v) for a, v in s[2]).get((STY, 'name')) for s in wl if s[0] == 'E']
                key = lambda s: (s[1][1], dict((tuple(a), v) for a, v in s[2]).get((STY, 'family')), dict((tuple(a), v) for a, v in s[2]).get((STY, 'name')))
                wkeys = [key(s) for s in wl if s[0] == 'E']
                # every automatic style (of whatever kind) bearing a needed name must be there
                missing = sorted(str(key(s)) for s in autos_t[3] if s[0] == 'E' and key(s)[2] in need and key(s) not in wkeys)
                if missing:
                    via = sorted(set(a for w, a, tg in refs if any(tk in m_ for m_ in missing for tk in tg.split())))
                    ctx.violation('referenced-style-not-written', dict(case, part=part), {'missing': missing}, 'every needed automatic style in ' + part,
                                  {'via': via if via else ['(transitively)']})
                dup = sorted(set(str(x) for x in wkeys if wkeys.count(x) > 1))
                if dup: ctx.violation('style-written-twice', dict(case, part=part), dup, 'at most once per part', {})
                src_by_name = {key(s): X.canon(s) for s in autos_t[3] if s[0] == 'E'}
                for s in wl:
                    nm = key(s) if s[0] == 'E' else None
                    if nm in src_by_name and X.canon(s) != src_by_name[nm]:
                        ctx.violation('style-definition-changed', dict(case, part=part, style=nm), s, src_by_name[nm], {})
        case = {'styles': names, 'references': refs}
        judge(case)
        # ---- the same document once more, after it has been rendered and saved: a used style gets a NEW reference to a style nothing
        # named so far (whatever the first pass remembered about that style is out of date now)
        named_now = set(tk for w, a, tg in refs for tk in tg.split())
        used_now = set(tk for w, a, tg in refs if not w.startswith('auto') for tk in tg.split()) & set(names)
        fresh = sorted(x for x in set(names) if x not in named_now)
        if used_now and fresh:
            host2 = sorted(used_now)[i % len(used_now)]; t5 = fresh[i % len(fresh)]; mode3 = ['autochild', 'autoattr', 'autodeep'][i % 3]
            a5 = attr_cycle[(i * 17 + 2) % len(attr_cycle)]
            DC.add_reference(ctx.rng, doc, names, mode3 + ':' + host2, a5, t5); refs.append((mode3 + ':' + host2 + ' (after a first save)', a5[1], t5))
            judge({'styles': names, 'references': refs, 'second_save': True})
            ctx.bump('second-save-with-a-new-reference')
        if any((a[0].split(':')[-2] if ':' in a[0] else a[0], a[1]) not in old11 for a in [(x[0], x[1]) for x in allrefs if x[1] in [r[1] for r in refs]]) or any(w.startswith('auto') for w, _, _ in refs):
            ctx.nt(repr(case))
        ctx.bump('refs=%d' % len(refs))
        for w, a, t_ in refs: ctx.bump('via=' + a)
        if i < 2: ctx.sample(case)
    ctx.exhaustive.append('every one of the %d style reference attributes was used at least once: %s' % (len(allrefs), n * 4 >= len(allrefs)))

def replay(ctx, case):
    print(json.dumps(case, indent=1)[:3000]); return 1
