# C17 — the whitespace helper round-trips every string.
import io, itertools
import vlib
from vlib import sx_str, sx_to_pystr

THEOREMS = [
  'C17_direct: forall kids s, extract (add_text_to_element kids s) = extract kids ++ s',
  'C17_no_literal: forall s, forallb clean_node (encode s) = true',
  'C17_no_adjacent_text: forall s, no_adjacent_text (encode s) = true',
  'C17_checked: an element allowing text, text:s, text:tab, text:line-break accepts every string and round-trips it',
  'C17_saved (props/C02.v, C02_text_roundtrip): the emitted text of every node parses back to itself modulo canon',
]
RULE = ('correspondence: every string over {SP,TAB,LF,CR,a,<,&} up to length L (exhaustive; L=5 quick, 7 thorough) plus '
        'seeded random strings over a weighted alphabet; EVERY code point (64 per string) through the real helper, and through the model for all '
        'white-space, separator, control and format characters and a stride of the rest (all of them in the thorough tier): encoder output (child list) of the real addTextToElement vs the '
        'extracted Gallina encoder; random child trees: real extractText vs model; refusal kind on elements with every '
        'combination of allowed text/s/tab/line-break. oracle: extractText(addTextToElement(e,s)) == before+s on empty and '
        'non-empty elements, node cleanliness, and real save()+load() round trip. non-trivial = the string contains at '
        'least one of TAB, LF, or two adjacent blanks (i.e. the encoder leaves the plain-text branch); distinct by content.')
TRUSTED = ['modelled, not verified: Python str indexing/join, int() and str() of small non-negative integers']
ASSUMPTIONS = ['text:s count attribute round-trips through cnv_nonNegativeInteger/int() (sampled by correspondence)',
               'save+load clause relies on C02 (XML round trip) and is sampled here on the real code']

ALPHA = ' \t\n\ra<&'

def canon_children(el):
    """child list of a real element in the model's notation"""
    from odf.element import Node
    out = []
    for c in el.childNodes:
        if c.nodeType == Node.TEXT_NODE:
            out.append(['T', [str(ord(ch)) for ch in c.data]])
        elif c.nodeType == Node.CDATA_SECTION_NODE:
            out.append(['C', [str(ord(ch)) for ch in c.data]])
        elif c.nodeType == Node.ELEMENT_NODE:
            q = c.qname
            TEXTNS = 'urn:oasis:names:tc:opendocument:xmlns:text:1.0'
            if q == (TEXTNS, 's'):
                v = c.getAttribute('c')
                out.append(['S', ['Some', str(int(v))] if v else 'None'])
            elif q == (TEXTNS, 'tab'):
                out.append('TAB')
            elif q == (TEXTNS, 'line-break'):
                out.append('LB')
            else:
                out.append(['E'] + canon_children(c))
    return out

def build_tree(spec, parent):
    """build real nodes under `parent` from a model-notation child list"""
    from odf import text
    from odf.element import Text, CDATASection
    for n in spec:
        if n == 'TAB': parent.addElement(text.Tab(), check_grammar=False)
        elif n == 'LB': parent.addElement(text.LineBreak(), check_grammar=False)
        elif n[0] == 'T': parent.appendChild(Text(sx_to_pystr(n[1])))
        elif n[0] == 'C': parent.appendChild(CDATASection(sx_to_pystr(n[1])))
        elif n[0] == 'S':
            if n[1] == 'None': parent.addElement(text.S(), check_grammar=False)
            else: parent.addElement(text.S(c=int(n[1][1])), check_grammar=False)
        elif n[0] == 'E':
            e = text.Span()
            parent.addElement(e, check_grammar=False)
            build_tree(n[1:], e)

def rand_string(rng, maxlen):
    n = rng.choice([0, 1, 2, 3, 5, 8, 13, 21, maxlen])
    pool = ' ' * 6 + '\t\t\n\n\r' + 'ab<&>"\'' + 'é中\U0001F600\x7f\u0085]'
    return ''.join(rng.choice(pool) for _ in range(rng.randint(0, n)))

def rand_tree(rng, depth=0):
    out = []
    for _ in range(rng.randint(0, 4)):
        k = rng.random()
        if k < 0.3: out.append(['T', [str(ord(c)) for c in rand_string(rng, 5)] or ['120']])
        elif k < 0.4: out.append(['C', [str(ord(c)) for c in rand_string(rng, 4)]])
        elif k < 0.55: out.append(['S', rng.choice(['None', ['Some', '0'], ['Some', '1'], ['Some', '3'], ['Some', '12']])])
        elif k < 0.65: out.append('TAB')
        elif k < 0.75: out.append('LB')
        elif depth < 3: out.append(['E'] + rand_tree(rng, depth + 1))
    return out

def nontrivial(s):
    return '\t' in s or '\n' in s or '  ' in s

def run(ctx):
    from odf import text, teletype
    from odf.element import IllegalChild, IllegalText, Node
    import odf.grammar as grammar
    d = ctx.get_driver()
    L = 5 if ctx.quick else 7
    # ---- correspondence 1: encoder, exhaustive short strings + random ----------
    def one(s, with_model=True):
        p = text.P()
        teletype.addTextToElement(p, s)
        impl = canon_children(p)
        if with_model:
            model = d.call('tt_encode', sx_str(s))
            ctx.corr('teletype.addTextToElement', s, model, impl)
        ctx.bump('len=%d' % min(len(s), 8))
        if nontrivial(s): ctx.nt(s)
        # ---- oracle: the property itself on the real code ----
        ctx.oracle_cases += 1
        got = teletype.extractText(p)
        if got != s:
            ctx.violation('direct-roundtrip', s, got, s, {'chars': sorted(set(s))})
        for c in p.childNodes:
            if c.nodeType == Node.TEXT_NODE and ('\t' in c.data or '\n' in c.data or '  ' in c.data or c.data == ''):
                ctx.violation('literal-whitespace-in-text-node', s if len(s) < 300 else {'length': len(s), 'tail': s[-40:]}, c.data[-40:], 'no TAB/LF/double blank', {})
            # two text nodes side by side read as one: blanks at their seam are two adjacent literal blanks all the same
            if c.nodeType == Node.TEXT_NODE and c.nextSibling is not None and c.nextSibling.nodeType == Node.TEXT_NODE:
                ctx.violation('adjacent-text-nodes', s if len(s) < 300 else {'length': len(s), 'tail': s[-40:]}, [c.data[-20:], c.nextSibling.data[:20]], 'one text node between two elements', {})
    for n in range(0, L + 1):
        for tup in itertools.product(ALPHA, repeat=n):
            one(''.join(tup))
    ctx.exhaustive.append('all %d strings over %r up to length %d' % (sum(len(ALPHA) ** n for n in range(L + 1)), ALPHA, L))
    for _ in range(1500 if ctx.quick else 20000):
        one(rand_string(ctx.rng, 60))
    # ---- every code point: nothing but SP, TAB and LF is special to the helper -------------------------------------
    # 64 distinct code points per string, separated by a letter; a failing string is narrowed to the single characters
    import unicodedata
    cps = [c for c in range(0x110000) if c not in (0x20, 0x09, 0x0A)]
    def chunk_string(chunk): return 'x'.join(chr(c) for c in chunk)
    n_or = n_corr = 0
    for k in range(0, len(cps), 64):
        chunk = cps[k:k + 64]
        special = any(chr(c).isspace() or unicodedata.category(chr(c)) in ('Zs', 'Zl', 'Zp', 'Cc', 'Cf') for c in chunk)
        sx = chunk_string(chunk)
        p = text.P(); teletype.addTextToElement(p, sx); got = teletype.extractText(p)
        ctx.oracle_cases += 1; n_or += 1
        if got != sx or len(p.childNodes) != 1:
            for c in chunk:
                s1 = 'a' + chr(c) + 'b'
                p1 = text.P(); teletype.addTextToElement(p1, s1); g1 = teletype.extractText(p1)
                if g1 != s1 or len(p1.childNodes) != 1:
                    ctx.violation('direct-roundtrip', {'codepoints': [ord(x) for x in s1]}, {'extract': [ord(x) for x in g1], 'children': canon_children(p1)}, 'the same string in one text node', {'chars': ['U+%04X' % c]})
        if special or chunk[0] < 0x3100 or not ctx.quick or (k // 64) % 23 == 0:
            ctx.corr('teletype.addTextToElement (code point sweep)', {'codepoints': chunk}, d.call('tt_encode', sx_str(sx)), canon_children(p)); n_corr += 1
    ctx.exhaustive.append('every code point except SP/TAB/LF (1,114,109), 64 per string: round trip on the real code (%d strings); encoder output vs model on %d of them' % (n_or, n_corr))
    # long runs: a count is a count, however large
    for n in (100, 1023, 1024, 1025, 1026, 4097, 20000):
        for sx_ in ('a' + ' ' * n + 'b', ' ' * n, 'x' + '\n' * min(n, 2000) + 'y', '\t' * min(n, 2000)):
            one(sx_)
        from odf import text as T_
        p_ = T_.P(); p_.addElement(T_.S(c=n), check_grammar=False); p_.addText('z')
        got_ = teletype.extractText(p_); ctx.oracle_cases += 1
        if got_ != ' ' * n + 'z':
            ctx.violation('direct-roundtrip', {'text:s count': n}, len(got_) - 1, n, {'chars': ['long-run']})
    # white space at every offset a buffer might end at
    for off in (63, 64, 255, 256, 1023, 1024, 4095, 4096, 8191, 8192, 16383, 65535):
        for tail in ('  b', ' \t \n  c', '   '):
            one('a' * off + tail, with_model=off <= 1024)        # (the long ones: oracle only - the model is the same function of the same string)
    ctx.exhaustive.append('runs of 100 ... 20000 blanks, line feeds and tabs; white space starting at offsets 63 ... 65535')
    ctx.sample({'string': 'a  b\t c\n', 'children': canon_children_of('a  b\t c\n')})
    # ---- correspondence 2: decoder on arbitrary child trees, appended encoding ---
    for _ in range(600 if ctx.quick else 6000):
        tree = rand_tree(ctx.rng)
        s = rand_string(ctx.rng, 12)
        p = text.P()
        build_tree(tree, p)
        before = teletype.extractText(p)
        model_before = sx_to_pystr(d.call('tt_extract', vlib.sx_show(tree)))
        ctx.corr('teletype.extractText', tree, model_before, before)
        teletype.addTextToElement(p, s)
        after = teletype.extractText(p)
        ctx.oracle_cases += 1
        if after != before + s:
            ctx.violation('append-roundtrip', {'tree': tree, 's': s}, after, before + s, {})
        ctx.nt(('tree', repr(tree), s))
    # ---- correspondence 3: refusals with grammar checking ------------------------
    TEXTNS = 'urn:oasis:names:tc:opendocument:xmlns:text:1.0'
    import odf.office, odf.table, odf.draw, odf.style
    factories = [text.P, text.H, text.Span, text.List, text.ListItem, odf.table.TableCell, odf.table.TableRow,
                 text.A, odf.draw.TextBox, text.Note, text.NoteBody, odf.style.TextProperties, text.S, text.Tab,
                 odf.office.Text, text.RubyBase, text.Meta, text.IndexTitleTemplate]
    for f in factories:
        e0 = f(check_grammar=False)
        ac = grammar.allowed_children.get(e0.qname)
        al = [e0.qname in grammar.allows_text] + [ac is None or (TEXTNS, n) in ac for n in ('s', 'tab', 'line-break')]
        for s in ['', 'a', ' ', '  ', 'a\tb', '\n', 'a  ', '\t', 'x \n  y']:
            e = f(check_grammar=False)
            try:
                teletype.addTextToElement(e, s)
                impl = ['Ok', canon_children(e)]
            except IllegalText: impl = ['Raise', 'IllegalText']
            except IllegalChild: impl = ['Raise', 'IllegalChild']
            model = d.call('tt_checked', vlib.sx_show(al), '()', sx_str(s))
            ctx.corr('teletype.addTextToElement(checked) on %s:%s' % (e0.qname[0].split(':')[-2], e0.qname[1]), s, model, impl)
            ctx.bump('allows=%s' % ''.join('1' if b else '0' for b in al))
    # ---- oracle: histories - a refused call must not influence later calls ----------
    for _ in range(300 if ctx.quick else 3000):
        s1 = rand_string(ctx.rng, 10); s2 = rand_string(ctx.rng, 10)
        bad = ctx.rng.choice([text.List, text.ListItem, odf.table.TableRow, text.S])(check_grammar=False)
        try: teletype.addTextToElement(bad, s1)
        except (IllegalText, IllegalChild): pass
        p = text.P(); teletype.addTextToElement(p, s2)
        ctx.oracle_cases += 1
        got = teletype.extractText(p)
        if got != s2:
            ctx.violation('roundtrip-after-refused-call', {'refused': s1, 'then': s2}, got, s2, {})
        ctx.nt(('hist', s1, s2))
    # ---- oracle: real save + load ---------------------------------------------------
    from odf.opendocument import OpenDocumentText, load
    strings = [''.join(t) for n in range(0, 4) for t in itertools.product(ALPHA, repeat=n)]
    strings += [rand_string(ctx.rng, 40) for _ in range(60 if ctx.quick else 600)]
    import xmllib as X_
    from . import xmlcommon as XC_
    strings = [s for s in strings if s and all(X_.xml10_char(ord(c)) and not XC_.discouraged(ord(c)) for c in s)] + ['a\u0085b', 'x \u0085\u00a0 y', '\u2028z']
    # characters XML 1.0 can represent and calls discouraged: the property speaks of every character XML can represent
    strings += ['a\x7fb', 'x \x80  y\x9f', 'q\U0001fffe\tr', '\ufdd0']
    for chunk in range(0, len(strings), 40):
        part = strings[chunk:chunk + 40]
        doc = OpenDocumentText()
        for s in part:
            p = text.P(); teletype.addTextToElement(p, s); doc.text.addElement(p)
        buf = io.BytesIO(); doc.write(buf); buf.seek(0)
        d2 = load(buf)
        ps = d2.getElementsByType(text.P)
        for s, p, p0 in zip(part, ps, doc.getElementsByType(text.P)):
            # correspondence: the children load() returns = the model's `reparse` of the children that were saved
            # (C17_reparse_fixpoint says these are the inserted nodes themselves)
            if len(s) <= 64 and not any(XC_.discouraged(ord(c)) for c in s):
                ctx.corr('save+load children (reparse)', s, d.call('tt_reparse', vlib.sx_show(canon_children(p0))), canon_children(p))
            ctx.oracle_cases += 1
            got = teletype.extractText(p)
            if got != s:
                if got == ''.join('\ufffd' if XC_.discouraged(ord(c)) else c for c in s):
                    ctx.violation('saved-roundtrip', s, got, s, {'cause': 'discouraged-codepoint'})
                else:
                    ctx.violation('saved-roundtrip', s, got, s, {'chars': sorted(set(s) & set('\r\t\n'))})
        if len(ps) != len(part):
            ctx.violation('saved-roundtrip', part, len(ps), len(part), {})
    reparse_trees(ctx, d)

def reparse_trees(ctx, d):
    """correspondence of `reparse` on arbitrary child trees (text nodes side by side, empty ones, CDATA sections,
    nested elements) with what save() + load() really return, and the oracle of C17_saved on the reloaded element"""
    from odf import text, teletype
    from odf.opendocument import OpenDocumentText, load
    from . import xmlcommon as XC_
    def clean(t):
        out = []
        for n in t:
            if isinstance(n, list) and n[0] in ('T', 'C'):
                cps = [c if not XC_.discouraged(int(c)) and int(c) != 13 else '122' for c in n[1]]
                if n[0] == 'T' and ctx.rng.random() < 0.15: cps = []
                out.append([n[0], cps])
            elif isinstance(n, list) and n[0] == 'E': out.append(['E'] + clean(n[1:]))
            else: out.append(n)
        return out
    def has_cdata(t):
        return any(isinstance(n, list) and (n[0] == 'C' or (n[0] == 'E' and has_cdata(n[1:]))) for n in t)
    directed = [[['T', ['97']], ['T', ['32']], ['T', ['32', '98']]], [['T', []]], [['T', []], ['T', []]], [['C', ['32']], ['T', ['32']]],
                [['E', ['T', []], ['T', ['98']]], ['T', ['99']]], [['T', ['97', '32']], ['C', []], ['T', ['32', '98']]], [['E'], ['E', ['C', ['60']]]]]
    trees = directed + [clean(rand_tree(ctx.rng)) for _ in range(150 if ctx.quick else 1500)]
    for chunk in range(0, len(trees), 50):
        part = trees[chunk:chunk + 50]
        doc = OpenDocumentText(); strs = []
        for t in part:
            p = text.P(); build_tree(t, p)
            s = rand_string(ctx.rng, 9)
            s = ''.join(c for c in s if not XC_.discouraged(ord(c)) and c != '\r')
            teletype.addTextToElement(p, s); strs.append(s); doc.text.addElement(p)
        buf = io.BytesIO(); doc.write(buf); buf.seek(0)
        d2 = load(buf)
        ps = d2.getElementsByType(text.P); ps0 = doc.getElementsByType(text.P)
        if len(ps) != len(part):
            ctx.violation('saved-roundtrip', part, len(ps), len(part), {}); continue
        for t, s, p0, p in zip(part, strs, ps0, ps):
            before = canon_children(p0)
            ctx.corr('save+load children (reparse)', before, d.call('tt_reparse', vlib.sx_show(before)), canon_children(p))
            ctx.bump('reparse:cdata' if has_cdata(t) else 'reparse:no-cdata')
            if not has_cdata(t):
                p1 = text.P(); build_tree(t, p1)
                want = teletype.extractText(p1) + s
                ctx.oracle_cases += 1
                got = teletype.extractText(p)
                if got != want:
                    ctx.violation('saved-roundtrip-after-children', {'tree': t, 's': s}, got, want, {})
                ctx.nt(('reparse', repr(t), s))

def canon_children_of(s):
    from odf import text, teletype
    p = text.P(); teletype.addTextToElement(p, s)
    return canon_children(p)

def replay(ctx, case):
    from odf import text, teletype
    c = case.get('case')
    if isinstance(c, dict) and 'codepoints' in c: c = ''.join(chr(x) for x in c['codepoints'])
    if isinstance(c, str):
        p = text.P(); teletype.addTextToElement(p, c)
        got = teletype.extractText(p)
        print('input   :', repr(c)); print('children:', canon_children(p)); print('extract :', repr(got))
        print('model   :', ctx.get_driver().call('tt_encode', sx_str(c)))
        return 0 if got == c else 1
    print(case); return 1
