# C05 — load then save preserves a package produced by any application.
import io, json, os, glob
import vlib, xmllib as X, pkglib as P, rnglib
from vlib import sx_str
from . import c05lib as L, schemagen, doccommon as DC

THEOREMS = ['C05_load: for any parsed parts (any root, sections in any number and order, text between them) the loader gives the explicit document loaded_any',
            'C05_sections: each section of it = the kept children of the source sections routed to it, in load order',
            'C05_content_font_declarations_skipped / C05_styles_font_declarations_kept', 'C05_resave (C04 applied to the loaded document)',
            'C05_loaded_shape + C05_resave_any: load, save, load for ANY parsed parts - no condition on the source (sections with text, CDATA, white space only)',
            'package level (other members byte-identical, media types): theorems of C03/C16 plus the oracle here']
RULE = ('packages: (1) every sample document of the repository (tests/examples, samples, examples, contrib); (2) structure-preserving '
        'mutations of them written by an independent serialiser: prefixes renamed, a default namespace for element names, newline-separated '
        'xmlns declarations, declarations where first used, manifest reordered, object folders renumbered (with the references to them), '
        'extra members and directories added, unqualified and foreign-namespace attributes added; (3) synthetic packages: schema-directed '
        'random documents serialised by the same independent serialiser (never by odfpy). oracle: source package vs the package saved after '
        'load(), both read with zipfile + expat: body, common styles, master styles, settings, metadata (generator excepted) equal as infosets '
        '(white space ignored only where the schema gives element-only content; references to automatic styles compared through the '
        'definitions they name, since the loader may rename: C11), every referenced automatic style and every font declaration kept, '
        'every other manifest entry present with the same media type and identical bytes (document signatures excepted). correspondence: '
        'the source parts through the extracted xml_parse + load_doc vs the loaded document. non-trivial = a package with at least 30 '
        'elements; distinct by (source, mutation).')
TRUSTED = ['which content models are element-only is read from the RELAX NG schema by tools/rnglib.py']
ASSUMPTIONS = ['packages within the XML sub-language of C02 (no DTD, comments or processing instructions inside the parts) for the correspondence; the oracle has no such limit']

SAMPLES = ['tests/examples/*.od?', 'samples/*.od?', 'examples/*.od?', 'api-for-odfpy.odt', 'odfimgimport/*.odt', 'contrib/odfsign/testdocs/*.odt']

def sample_files():
    out = []
    for pat in SAMPLES: out += sorted(glob.glob(os.path.join(vlib.REPO, pat)))
    return [f for f in out if not f.endswith('nasty.odt')]      # nasty.odt declares an external entity: C13's business, load() refuses it

def reserialise(pk, rng, how):
    """the XML parts of pk written again by the independent serialiser"""
    members = {}
    for n, data in pk['members'].items():
        if n.rsplit('/', 1)[-1] in L.PARTS and n != 'META-INF/manifest.xml':
            t = X.expat_parse(data)
            if t[0] != 'ok': return None
            tree = t[1]
            kw = {}
            std = {ns: p for p, ns in P.NS.items()}
            if how == 'rename-prefixes': kw = {'prefixes': std, 'rename': lambda p: 'x' + p[::-1]}
            elif how == 'default-namespace': kw = {'prefixes': std, 'default_ns': tree[1][0]}
            elif how == 'default-namespace-text': kw = {'prefixes': std, 'default_ns': P.NS['text']}
            elif how == 'newline-declarations': kw = {'prefixes': std, 'newline_decls': True}
            elif how == 'bare-newline-declarations': kw = {'prefixes': std, 'newline_decls': '\n'}       # a blank after the element name, then nothing but line feeds
            elif how == 'tab-declarations': kw = {'prefixes': std, 'newline_decls': '\t'}
            elif how == 'local-declarations': kw = {'prefixes': std, 'local_decls': True}
            elif how == 'spaced-declarations': kw = {'prefixes': std, 'spaced_eq': True}
            else: kw = {'prefixes': std}
            if how == 'foreign-attributes': tree = add_attrs(tree, rng)
            members[n] = L.serialise(tree, **kw).encode('utf-8')
    return members

def add_attrs(t, rng, depth=0):
    if t[0] != 'E': return t
    atts = list(t[2])
    if depth >= 2 and rng.random() < 0.15:
        atts.append((('urn:example:verif:foreign', 'note'), 'f ' + str(rng.randint(0, 99))))
    if depth >= 2 and rng.random() < 0.1:
        atts.append((('', 'plain'), 'u' + str(rng.randint(0, 99))))
    return ('E', t[1], atts, [add_attrs(k, rng, depth + 1) for k in t[3]])

def mutate(pk, rng, how):
    """bytes of a mutated package, or None when the mutation does not apply"""
    if how in ('rename-prefixes', 'default-namespace', 'default-namespace-text', 'newline-declarations', 'bare-newline-declarations', 'tab-declarations', 'local-declarations', 'spaced-declarations', 'plain-reserialise', 'foreign-attributes'):
        m = reserialise(pk, rng, how)
        return None if m is None else L.repack(pk, members=m)
    if how == 'empty-media-types':
        man = [(p_, '' if (p_.startswith('Pictures/') or p_.startswith('Thumbnails/') or p_.startswith('Configurations2/')) else mt) for p_, mt in (pk['manifest'] or [])]
        if man == list(pk['manifest'] or []): return None
        return L.repack(pk, manifest=man)
    if how == 'manifest-reorder':
        man = list(pk['manifest'] or []); rng.shuffle(man)
        return L.repack(pk, manifest=man, order=rng.sample(pk['order'], len(pk['order'])))
    if how == 'extra-members':
        # (only the document signatures may go: a rewrite invalidates them; everything else under META-INF is a file like any other)
        man = list(pk['manifest'] or []) + [('Extra/', ''), ('Extra/data.bin', 'application/octet-stream'), ('Configurations2/verif.xml', 'text/xml'), ('META-INF/documentsignatures.xml', 'text/xml'),
                                            ('META-INF/macrosignatures.xml', 'text/xml'), ('META-INF/verif-notes.txt', 'text/plain'), ('Extra/empty.bin', 'application/octet-stream'), ('mimetype.bak', 'text/plain'),
                                            ('Object 977/content.xml', 'text/xml'), ('Object 978/Versions/content.xml', 'text/xml'), ('Object 978/Versions/settings.xml', 'text/xml')]      # files that look like parts of an object, but no such object folder is listed
        return L.repack(pk, members={'Extra/data.bin': bytes(rng.randrange(256) for _ in range(50)), 'Configurations2/verif.xml': b'<a xmlns="urn:x"/>',
                                     'META-INF/documentsignatures.xml': b'<s xmlns="urn:sig"/>', 'META-INF/macrosignatures.xml': b'<m xmlns="urn:sig"/>',
                                     'META-INF/verif-notes.txt': b'notes', 'Extra/empty.bin': b'', 'mimetype.bak': b'x',
                                     'Object 977/content.xml': b'<a xmlns="urn:x">kept as it is</a>', 'Object 978/Versions/content.xml': P.content_xml('<text:p>an older version, kept as a file</text:p>').encode('utf-8'), 'Object 978/Versions/settings.xml': b'<s xmlns="urn:x"/>'}, manifest=man)
    if how == 'renumber-objects':
        folders = [f for f in L.folders_of(pk) if f]
        if not folders: return None
        ren = {f: 'Object %d/' % (rng.randint(11, 120) + i) for i, f in enumerate(folders)}
        members = {}
        for n, dta in pk['members'].items():
            nn = n
            for f, g in ren.items():
                if n.startswith(f): nn = g + n[len(f):]
            if n.endswith('content.xml'):
                txt = dta.decode('utf-8')
                for f, g in ren.items(): txt = txt.replace('"./' + f[:-1] + '"', '"./' + g[:-1] + '"')
                dta = txt.encode('utf-8')
            members[nn] = dta
        man = []
        for p, mt in (pk['manifest'] or []):
            for f, g in ren.items():
                if p.startswith(f): p = g + p[len(f):]
            man.append((p, mt))
        pk2 = dict(pk, members=members, order=[x for x in members])
        return L.repack(pk2, manifest=man)
    return None

MUTATIONS = ['rename-prefixes', 'default-namespace', 'default-namespace-text', 'newline-declarations', 'local-declarations', 'spaced-declarations', 'empty-media-types', 'plain-reserialise',
             'foreign-attributes', 'manifest-reorder', 'extra-members', 'renumber-objects', 'bare-newline-declarations', 'tab-declarations']

def synthetic(rng, g):
    """a package written without odfpy from a schema-directed random document"""
    doc = g.document(with_objects=False)
    sec = {a: X.walk_real(getattr(doc, a)) for a in DC.SECTS}
    ver = [((L.OFF, 'version'), '1.2')]
    c = ('E', (L.OFF, 'document-content'), ver, [sec['scripts'], sec['fontfacedecls'], sec['automaticstyles'], sec['body']])
    s = ('E', (L.OFF, 'document-styles'), ver, [sec['fontfacedecls'], sec['styles'], sec['automaticstyles'], sec['masterstyles']])     # each part carries the automatic styles it may need
    m = ('E', (L.OFF, 'document-meta'), ver, [sec['meta']])
    st = ('E', (L.OFF, 'document-settings'), ver, [sec['settings']])
    std = {ns: p for p, ns in P.NS.items()}
    members = [('content.xml', L.serialise(c, std), 'text/xml'), ('styles.xml', L.serialise(s, std), 'text/xml'),
               ('meta.xml', L.serialise(m, std), 'text/xml'), ('settings.xml', L.serialise(st, std), 'text/xml'),
               ('Pictures/p1.png', bytes(rng.randrange(256) for _ in range(30)), 'image/png')]
    return P.make_package(members, mimetype=doc.mimetype)

def directed_packages():
    """hand-written packages for what office suites do and the samples do not show: the two parts number their automatic list
    styles, data styles and page layouts independently, so content.xml and styles.xml each have an L1 / N1 of their own"""
    bullet = '<text:list-style style:name="L1"><text:list-level-style-bullet text:level="1" text:bullet-char="\u2022"/></text:list-style>'
    number = '<text:list-style style:name="L1"><text:list-level-style-number text:level="1" style:num-format="1"/></text:list-style>'
    year = '<number:date-style style:name="N1"><number:year/></number:date-style>'
    dmy = '<number:date-style style:name="N1"><number:day/><number:text>.</number:text><number:month/></number:date-style>'
    lst = '<text:list text:style-name="L1"><text:list-item><text:p>%s</text:p></text:list-item></text:list>'
    dat = '<text:p><text:date style:data-style-name="N1" text:date-value="2024-05-17">%s</text:date></text:p>'
    out = []
    for label, cauto, sauto in (('same names, different definitions', bullet + year, number + dmy), ('same names, same definitions', bullet + year, bullet + year),
                                ('same list style name only', bullet, number + dmy)):
        master = ('<style:master-page style:name="Standard" style:page-layout-name="pm1"><style:header>%s%s</style:header></style:master-page>' % (lst % 'in the header', dat % '17.5.'))
        data = P.simple_package((lst % 'in the body') + ((dat % '2024') if 'N1' in cauto else ''), autostyles=cauto,
                                styles_auto='<style:page-layout style:name="pm1"/>' + sauto, masterstyles=master)
        out.append((label, data))
    # a colliding automatic style name (the loader renames one and follows the references) next to references that do not
    # collide and are written with white space of their own: kept character for character
    t1 = '<style:style style:name="T1" style:family="text"><style:text-properties fo:font-weight="%s"/></style:style>'
    common = ''.join('<style:style style:name="Cls%d" style:family="paragraph"/>' % k for k in (1, 2, 3))
    master = ('<style:master-page style:name="Standard" style:page-layout-name="pm1"><style:header><text:p text:class-names="Cls1  Cls2&#10; Cls3"><text:span text:style-name="T1">h</text:span></text:p>'
              '<text:p text:class-names=" Cls2&#9;Cls1 ">i</text:p></style:header></style:master-page>')
    out.append(('a collision, and name lists with white space of their own',
                P.simple_package('<text:p text:class-names="Cls3   Cls1"><text:span text:style-name="T1">b</text:span></text:p>', autostyles=t1 % 'bold', styles=common,
                                 styles_auto='<style:page-layout style:name="pm1"/>' + t1 % 'normal', masterstyles=master)))
    # a root element that declares its namespace as the default one - no prefix declaration in its start tag - and text
    # further down that reads like one: load() patches declarations in textually, and only the root's start tag is its business
    off, txt = 'urn:oasis:names:tc:opendocument:xmlns:office:1.0', 'urn:oasis:names:tc:opendocument:xmlns:text:1.0'
    c = ('<?xml version="1.0" encoding="UTF-8"?>\n<document-content xmlns="%s"><automatic-styles/><body><text><p xmlns="%s">write xmlns:foo="bar" to declare it'
         '<span> xmlns:meta = no</span></p><t:p xmlns:t="%s"\n xmlns:dc="http://purl.org/dc/elements/1.1/">second</t:p></text></body></document-content>') % (off, txt, txt)
    out.append(('default namespace on the root, declarations and look-alikes further down',
                P.make_package([('content.xml', c, 'text/xml'), ('styles.xml', P.styles_xml(), 'text/xml'), ('meta.xml', P.meta_xml(), 'text/xml')])))
    # one name in two style families: a paragraph style of content.xml and a text style of styles.xml do not collide
    px = '<style:style style:name="X1" style:family="paragraph"><style:paragraph-properties fo:text-align="center"/></style:style>'
    tx = '<style:style style:name="X1" style:family="text"><style:text-properties fo:font-weight="bold"/></style:style>'
    master = '<style:master-page style:name="Standard" style:page-layout-name="pm1"><style:header><text:p><text:span text:style-name="X1">h</text:span></text:p></style:header></style:master-page>'
    out.append(('one style name in two families', P.simple_package('<text:p text:style-name="X1">b</text:p>', autostyles=px, styles_auto='<style:page-layout style:name="pm1"/>' + tx, masterstyles=master)))
    # an automatic table style of content.xml and a common paragraph style of styles.xml with one name: different families, no collision
    out.append(('an automatic style and a common style of another family with one name', P.simple_package(
        '<table:table table:name="t" table:style-name="Table1"><table:table-column/><table:table-row><table:table-cell><text:p text:style-name="Table1">x</text:p></table:table-cell></table:table-row></table:table>',
        autostyles='<style:style style:name="Table1" style:family="table"><style:table-properties style:width="10cm"/></style:style>',
        styles='<style:style style:name="Table1" style:family="paragraph"><style:text-properties fo:color="#ff0000"/></style:style>')))
    # the same inside one part: a paragraph style and a text style of content.xml with one name, both referenced (names are unique per family)
    out.append(('two automatic styles of different families with one name in one part', P.simple_package(
        '<text:p text:style-name="a1">b<text:span text:style-name="a1">s</text:span></text:p>',
        autostyles='<style:style style:name="a1" style:family="paragraph"><style:paragraph-properties fo:text-align="center"/></style:style>'
                   '<style:style style:name="a1" style:family="text"><style:text-properties fo:font-weight="bold"/></style:style>')))
    # pictures in a folder below Pictures/, and manifest rows for the folders
    out.append(('a folder below Pictures/ with manifest rows for the folders', P.make_package(
        [('content.xml', P.content_xml('<text:p><draw:frame svg:width="1cm" svg:height="1cm"><draw:image xlink:href="Pictures/sub/x.png" xlink:type="simple"/></draw:frame></text:p>'), 'text/xml'),
         ('styles.xml', P.styles_xml(), 'text/xml'), ('meta.xml', P.meta_xml(), 'text/xml'), ('Pictures/', '', ''), ('Pictures/sub/', '', ''), ('Pictures/sub/x.png', b'\x89PNG-x', 'image/png')])))
    # embedded objects as office suites write them: a chart with a meta.xml of its own, a formula whose content.xml is MathML
    obj = lambda n: '<text:p><draw:frame draw:name="%s" svg:width="5cm" svg:height="2cm"><draw:object xlink:href="./%s" xlink:type="simple" xlink:show="embed" xlink:actuate="onLoad"/></draw:frame></text:p>' % (n, n)
    chart = P.content_xml('<chart:chart chart:class="chart:bar"><chart:plot-area/></chart:chart>', kind='chart')
    math = ('<?xml version="1.0" encoding="UTF-8"?>\n<math xmlns="http://www.w3.org/1998/Math/MathML" display="block"><semantics><mrow><mi>a</mi><mo stretchy="false">+</mo><mn>1</mn></mrow>'
            '<annotation encoding="StarMath 5.0">a + 1</annotation></semantics></math>')
    out.append(('an object with a meta.xml of its own', P.make_package(
        [('content.xml', P.content_xml(obj('Object 1')), 'text/xml'), ('styles.xml', P.styles_xml(), 'text/xml'), ('meta.xml', P.meta_xml(), 'text/xml'),
         ('Object 1/content.xml', chart, 'text/xml'), ('Object 1/styles.xml', P.styles_xml(), 'text/xml'), ('Object 1/meta.xml', P.meta_xml('<meta:generator>ChartApp/2</meta:generator><dc:title>the chart</dc:title>'), 'text/xml'),
         ('Object 1/', '', 'application/vnd.oasis.opendocument.chart')])))
    out.append(('a formula object (MathML content.xml)', P.make_package(
        [('content.xml', P.content_xml(obj('Object 1')), 'text/xml'), ('styles.xml', P.styles_xml(), 'text/xml'), ('meta.xml', P.meta_xml(), 'text/xml'),
         ('Object 1/content.xml', math, 'text/xml'), ('Object 1/settings.xml', P.settings_xml(), 'text/xml'),
         ('Object 1/', '', 'application/vnd.oasis.opendocument.formula')])))
    return out

def run_one(ctx, d, refattrs, data, case):
    from odf.opendocument import load
    ctx.oracle_cases += 1
    src = P.read_package(data)
    try:
        doc = load(io.BytesIO(data))
    except Exception as e:
        ctx.violation('load-failed', case, repr(e)[:300], 'the package loads', {'aspect': 'load'}); return
    loaded = {a: X.walk_real(getattr(doc, a)) for a in DC.SECTS}      # before save(), which replaces the generator
    buf = io.BytesIO()
    try: doc.write(buf)
    except Exception as e:
        ctx.violation('save-failed', case, repr(e)[:300], 'the loaded document can be saved', {'aspect': 'save'}); return
    dst = P.read_package(buf.getvalue())
    n0 = [0]
    def report(what, where, observed, expected, match):
        n0[0] += 1
        ctx.violation(what, dict(case, where=where), observed, expected,
                      dict(match, mutation=case.get('mutation'), directed=case.get('source') if case.get('mutation') == 'directed' else None))
    L.compare(src, dst, refattrs, report)
    # correspondence of the loader on the source parts
    def part(nm):
        return '(Some %s)' % sx_str(src['members'][nm].decode('utf-8', 'replace')) if nm in src['members'] else 'None'
    big = sum(len(src['members'].get(n, b'')) for n in L.PARTS) > (150000 if ctx.quick else 400000)
    m = ['ERROR'] if big else d.call('doc_load_xml', sx_str(doc.mimetype), part('settings.xml'), part('meta.xml'), part('content.xml'), part('styles.xml'))
    if big: ctx.bump('correspondence-skipped-large-package')
    elif m and m[0] == 'ERROR':
        ctx.bump('outside-the-modelled-sub-language')
    else:
        for a, t in zip(DC.SECTS, m[1:]):
            ctx.corr('loaded section %s' % a, case, X.node_from_sx(t), loaded[a])
    size = sum(X.tree_size(loaded[a]) for a in DC.SECTS)
    if size >= 30: ctx.nt((case.get('source'), case.get('mutation')))
    ctx.bump('mutation=%s' % case.get('mutation'))

def run(ctx):
    import odf
    d = ctx.get_driver()
    from . import C13
    C13.fix_part_correspondence(ctx, d)         # the textual patch in front of the parser: model vs code, C05_only_root_tag_patched on real outputs
    twin = json.load(open(os.path.join(vlib.COQ, 'gen', 'twin.json')))
    refattrs = set(tuple(x) for x in twin['GenStyleRefs.v']['schema'])
    S = rnglib.odf12(vlib.REPO)
    L.ELEMENT_ONLY = set(q for q, v in S.elements.items() if not v[1])
    files = sample_files()
    for f in files:
        data = open(f, 'rb').read()
        name = os.path.relpath(f, vlib.REPO)
        run_one(ctx, d, refattrs, data, {'source': name, 'mutation': 'none'})
        pk = P.read_package(data)
        k0 = files.index(f)
        muts = MUTATIONS if not ctx.quick else [MUTATIONS[(2 * k0) % len(MUTATIONS)], MUTATIONS[(2 * k0 + 1) % len(MUTATIONS)]]
        if ctx.quick and 'empty-media-types' not in muts and any(p_.startswith('Pictures/') for p_, _ in (pk['manifest'] or [])): muts = muts + ['empty-media-types']
        for how in muts:
            md = mutate(pk, ctx.rng, how)
            if md is None: ctx.bump('mutation-not-applicable'); continue
            run_one(ctx, d, refattrs, md, {'source': name, 'mutation': how})
    for label, data in directed_packages():
        run_one(ctx, d, refattrs, data, {'source': 'directed: ' + label, 'mutation': 'directed'})
    g = schemagen.Gen(ctx.rng, twin['GenGrammar.v'])
    for i in range(15 if ctx.quick else 400):
        data = synthetic(ctx.rng, g)
        run_one(ctx, d, refattrs, data, {'source': 'synthetic-%d' % i, 'mutation': 'synthetic', 'seed': ctx.seed})
    ctx.exhaustive.append('sample documents: %d; mutations per sample: %d (thorough) / 3 (quick)' % (len(files), len(MUTATIONS)))

def replay(ctx, case):
    print(json.dumps(case, indent=1)[:3000]); return 1
