# C01 — every XML stream the library emits is well-formed.
import io, os, glob, zipfile
import vlib, xmllib as X, pkglib as P
from vlib import sx_str, sx_to_pystr
from . import xmlcommon as XC, docgen, C02

THEOREMS = [
 'C01_only_chars: forall s in the code space, Forall xml10_char (handle_unrepresentable F s)',
 'C01_element: doc_ok F env t -> exists t\', xml_parse (node_toXml F env true t) = Some t\'',
 'C01_document: the same with the XML declaration in front',
 'C01_filter_covers: ranges_subset xml10_illegal filtered_ranges = true (obligation on the regenerated table)',
 'history quantifier: props/C14.v C14_invariant (every reachable namespace table satisfies env_ok/env_ok2)',
]
RULE = ('correspondence: printer model vs element.py on strings and trees, specification parser vs expat (as C02, smaller counts). '
        'oracle (real code, expat namespace-aware): Element.toXml of generated trees (qualified, unqualified, foreign names; Text and CDATA '
        'children; check_grammar on for factory-built parts, off for free trees); contentxml/stylesxml/metaxml/settingsxml/xml() and every XML '
        'member of the zip written by save(), for freshly built and for loaded documents (every package under tests/examples and synthetic '
        'packages with foreign prefixes, default namespaces, unqualified attributes); each rendering repeated after process histories '
        '(loading packages that bind one prefix to different namespaces, MathML, elements in new namespaces, unqualified attributes); '
        'every code point alone in text/attribute/CDATA position. non-trivial = a rendering of a distinct tree/document/history.')
TRUSTED = C02.TRUSTED
ASSUMPTIONS = C02.ASSUMPTIONS + ['well-formedness is judged by expat (namespace-aware) in the oracle and by the Gallina specification parser in the theorems']

def wf(ctx, what, data, case):
    ctx.oracle_cases += 1
    r = X.expat_parse(data)
    if r[0] != 'ok' and 'outside the modelled' not in r[1]:
        ctx.violation('not-well-formed', {'rendering': what, 'case': case, 'tail': data[-300:] if isinstance(data, str) else data[-300:].decode('utf-8', 'replace')},
                      r[1], 'accepted by expat', {'cause': 'illformed', 'rendering': what.split(' ')[0]})
        return False
    return True

def render_all(ctx, doc, case):
    ok = True
    for name in ('contentxml', 'stylesxml', 'metaxml', 'settingsxml', 'xml'):
        ok &= wf(ctx, name, getattr(doc, name)(), case)
        restore_sections(doc)
    buf = io.BytesIO(); doc.write(buf)
    restore_sections(doc)
    z = zipfile.ZipFile(io.BytesIO(buf.getvalue()))
    for n in z.namelist():
        # only streams the library itself emits (opaque members are carried over byte-identically: C05)
        if n == 'META-INF/manifest.xml' or n.rsplit('/', 1)[-1] in ('content.xml', 'styles.xml', 'meta.xml', 'settings.xml') and not n.startswith('Configurations'):
            ok &= wf(ctx, 'save:' + n, z.read(n), case)
    return ok

def restore_sections(doc):
    pass

def foreign_package(prefix, uri, unq=False, default_ns=False):
    extra = {prefix: uri}
    body = '<text:p %s:mark="1"%s>a<%s:x %s:y="z">t</%s:x></text:p>' % (prefix, ' plain="u"' if unq else '', prefix, prefix, prefix)
    if default_ns:
        body += '<p xmlns="urn:verif:default"><q a="1">d</q></p>'
    return P.simple_package(body, extra_ns=extra)

def run(ctx):
    from odf.opendocument import OpenDocumentText, OpenDocumentSpreadsheet, load
    from odf.element import Element
    from odf import text
    # correspondence (the proofs are about the model)
    XC.corr_strings(ctx, XC.DIRECTED, oracle='wf')
    XC.corr_strings(ctx, XC.short_strings(2), oracle='wf')
    XC.corr_strings(ctx, (X.rand_text(ctx.rng, 30) for _ in range(500 if ctx.quick else 10000)), oracle='wf')
    E_ = X.ELEMS[0]
    directed = [('E', E_, [], [('T', 'a]]'), ('T', '>b')]), ('E', E_, [], [('T', ']'), ('T', ']>')]), ('E', E_, [], [('T', ']'), ('T', ']'), ('T', '>')]),
                ('E', E_, [], [('T', 'x]]'), ('C', ''), ('T', '>')]), ('E', E_, [], [('C', 'a]]'), ('T', '>b')]), ('E', E_, [], [('T', 'a]]'), ('C', '>b')]),
                ('E', E_, [], [('C', ']]'), ('C', '>')]), ('E', E_, [], [('T', '&'), ('T', 'amp;')]), ('E', E_, [], [('T', '<'), ('T', '!--')]), ('E', E_, [], [('T', '&#'), ('T', '60;')])]
    for i in range(-len(directed), 250 if ctx.quick else 4000):
        t = directed[i] if i < 0 else X.rand_tree(ctx.rng)      # first: neighbouring nodes whose data joins to a marker
        e, real, ex = XC.corr_tree(ctx, t)
        wf(ctx, 'Element.toXml', real, t)
        if i < 2: ctx.sample({'tree': t, 'xml_tail': real[-160:]})
    XC.corr_parser(ctx, 400 if ctx.quick else 8000)
    # elements the library keeps no attribute table for (text:page-count, math:math, xforms:model ...): whatever a factory call
    # with a keyword leaves in the tree has to come out well-formed
    from odf import text as T_, math as M_
    for label, mk_ in (('text.PageCount(numformat=..)', lambda: T_.PageCount(numformat='1')), ('text.WordCount(numformat=..)', lambda: T_.WordCount(numformat='1')),
                       ('math.Math(display=..)', lambda: M_.Math(display='block')), ('text.ReferenceRef(refname=..)', lambda: T_.ReferenceRef(refname='r'))):
        try: e_ = mk_()
        except AttributeError: ctx.bump('table-less element: keyword refused'); continue
        d_ = OpenDocumentText(); p_ = T_.P(text='x'); p_.addElement(e_, check_grammar=False); d_.text.addElement(p_)
        wf(ctx, 'contentxml', d_.contentxml(), {'factory_call': label})
    # "no namespace" can be said in two ways through the API (None and ''): one attribute all the same
    for first, second in ((None, ''), ('', None)):
        e = Element(qname=(X.TEXTNS, 'p'), check_grammar=False)
        e.setAttrNS(first, 'x', '1'); e.setAttrNS(second, 'x', '2'); e.setAttrNS(first, 'y', '3')
        wf(ctx, 'Element.toXml', X.real_toXml(e), {'attributes_set': [[first, 'x', '1'], [second, 'x', '2'], [first, 'y', '3']]})
    # documents, fresh
    for i in range(15 if ctx.quick else 200):
        doc = ctx.rng.choice([OpenDocumentText, OpenDocumentSpreadsheet])()
        docgen.fill_document(ctx.rng, doc)
        render_all(ctx, doc, {'fresh-document': i, 'seed': ctx.seed})
        ctx.nt(('fresh', i))
    # histories: prior uses of the library in this process, then render
    examples = sorted(glob.glob(os.path.join(vlib.REPO, 'tests', 'examples', '*.od?')))
    history = []
    def probe(tag):
        d = OpenDocumentText(); d.text.addElement(text.P(text='probe ' + X.rand_text(ctx.rng, 10)))
        docgen.fill_document(ctx.rng, d, 1)
        render_all(ctx, d, {'history': list(history), 'then': tag})
        ctx.nt(('hist', tuple(history)))
    steps = [('load foreign prefix ext=urn:A', lambda: load(io.BytesIO(foreign_package('ext', 'urn:verif:A')))),
             ('load foreign prefix ext=urn:B', lambda: load(io.BytesIO(foreign_package('ext', 'urn:verif:B')))),
             ('load unqualified attribute', lambda: load(io.BytesIO(foreign_package('e2', 'urn:verif:C', unq=True)))),
             ('load default namespace', lambda: load(io.BytesIO(foreign_package('e3', 'urn:verif:D', default_ns=True)))),
             ('load prefix text bound to a foreign namespace', lambda: load(io.BytesIO(foreign_package('table2', 'urn:verif:E')))),
             ('element in new namespace', lambda: Element(qname=('urn:verif:new%d' % ctx.rng.randint(0, 99), 'n'), check_grammar=False)),
             ('unqualified attribute via API', lambda: Element(qname=(X.TEXTNS, 'p'), qattributes={(None, 'plain'): 'v'}, check_grammar=False)),
             ('attribute in namespace None and ""', lambda: Element(qname=(X.TEXTNS, 'p'), qattributes={('', 'p2'): 'v'}, check_grammar=False))]
    for ex in examples:
        steps.append(('load ' + os.path.basename(ex), (lambda ex=ex: load(ex))))
    order = list(range(len(steps))); ctx.rng.shuffle(order)
    if ctx.quick: order = order[:14] + [i for i in range(8) if i not in order[:14]]
    loaded = []
    for i in order:
        name, fn = steps[i]
        try:
            r = fn()
        except Exception as e:
            ctx.bump('history-step-raised:' + type(e).__name__); history.append(name + ' (raised)'); continue
        history.append(name)
        if hasattr(r, 'contentxml'):
            loaded.append((name, r))
            render_all(ctx, r, {'history': list(history), 'render': 'the loaded document'})
        elif hasattr(r, 'toXml'):
            wf(ctx, 'Element.toXml', X.real_toXml(r), {'history': list(history)})
        probe(name)
    # documents loaded earlier are rendered again after the whole history
    for name, d in loaded[:6 if ctx.quick else len(loaded)]:
        render_all(ctx, d, {'history': list(history), 'render again': name})
    ctx.bump('history-steps', len(history))
    # code points
    C02.sweep(ctx, wellformed_only=True)
    # C02's sweep reports round-trip differences too; for C01 only ill-formedness counts
    ctx.violations = [v for v in ctx.violations if v['what'] == 'not-well-formed']
    ctx.known_hit = {k: v for k, v in ctx.known_hit.items()}

def replay(ctx, case):
    import json
    print(json.dumps(case, indent=1)[:3000]); return 1
