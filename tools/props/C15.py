# C15 — schema-valid attribute values are accepted and kept unchanged.
import io, json, os, re
import vlib, rnglib, relib, pkglib as P, xmllib as X
from vlib import sx_str, sx_to_pystr

THEOREMS = ['C15_accepted_and_kept (every schema instance, every string of its lexical space)', 'C15_idempotent (every converter, every string)',
            'C15_rejected (validating converters, every string outside the type)', 'C15_patterns_match_in_full', 'C15_matcher (derivatives decide the language)',
            'C15_generic_accept / C15_generic_reject; table obligations re-proved on every run']
RULE = ('every (element, attribute) instance of the schema (3400+): every member of an enumeration; strings generated from the attribute\'s '
        'pattern (random walks over the expression, shortest and longest alternatives) and from the base type of the converter; near misses '
        '(suffix, prefix, trailing newline, truncated, other case, blank inserted) for the validating types; free text for string types. '
        'oracle: Element.setAttrNS / getAttrNS on a real element: a value of the schema\'s lexical space (checked with Python\'s re on the '
        'schema pattern, independently of the model) must be stored unchanged (true/false for booleans), converting the stored value again '
        'must give the same, and a validating converter must raise ValueError outside its type; one value per instance also goes through a '
        'package and load(). correspondence: the same (converter, value) pairs through the extracted model, outcome and stored value. '
        'non-trivial = an instance with a validating or rewriting converter; distinct by (element, attribute).')
TRUSTED = ['converter functions are classified by the shape of their source (tools/gen/converters.py: unknown shapes fail the run); their '
           'constants are read from the source', 'XML Schema built-in types other than NCName/ID/IDREF/language are upper-bounded by "any string"']
ASSUMPTIONS = ['values are strings (objects such as Style instances passed to a converter are not modelled)']

def gen_from(r, rng, depth=0):
    t = r[0]
    if t == 'emp': return None
    if t == 'eps': return ''
    if t == 'cls':
        if r[1]:
            for c in 'aZ0 _-é中':
                if relib.incls(r, ord(c)): return c
            return None
        lo, hi = rng.choice(r[2]); return chr(rng.randint(lo, min(hi, lo + 30)))
    if t == 'cat':
        a = gen_from(r[1], rng, depth); b = gen_from(r[2], rng, depth)
        return None if a is None or b is None else a + b
    if t == 'alt':
        first, second = (r[1], r[2]) if rng.random() < 0.5 else (r[2], r[1])
        x = gen_from(first, rng, depth)
        return x if x is not None else gen_from(second, rng, depth)
    n = rng.choice([0, 1, 1, 2, 3]) if depth < 3 else 0
    out = ''
    for _ in range(n):
        x = gen_from(r[1], rng, depth + 1)
        if x is None: break
        out += x
    return out

FULLWIDTH = {ord('0') + i: 0xFF10 + i for i in range(10)}        # digits that are digits to Unicode, not to the schema
def near_misses(v):
    out = [v + 'X', v + '\n', v.translate(FULLWIDTH), ' ' + v, v[:-1], v.upper() if v.upper() != v else v.lower(), v[:1] + ' ' + v[1:], '', v + v, v + '\u0663', v.replace('.', '\u066b') if '.' in v else v + '\u00a0']
    return [x for x in out if x != v]

FREE = ['x', 'a b', 'Ünï çødé 中', '1', 'true', 'a:b', ' lead', 'trail ', '<&>"\'', 'N1', '10%', '1cm', '#000000']

def descriptor_samples(d, rng):
    """(valid strings, python regex or None) from a datatype descriptor, independently of the Coq tables"""
    t = d[0]
    if t == 'value': return [d[1]], None
    if t == 'data':
        if d[2] is not None:
            try:
                ast, _ = relib.parse(d[2], 'xsd')
                vals = [x for x in (gen_from(ast, rng) for _ in range(6)) if x is not None]
                return vals, (None if ('$' in d[2] or '\\i' in d[2]) else d[2])
            except ValueError: return [], None
        if d[1] in ('NCName', 'ID', 'IDREF'): return ['N1', 'a-b.c_d', 'é中', 'e\u0301a', 'a\u00b7b', '\u0915\u093e'], None
        if d[1] == 'language': return ['en', 'en-US', 'x-klingon', 'sr-Latn-RS', 'DE'], None
        if d[1] in ('integer', 'nonNegativeInteger', 'positiveInteger'): return ['1', '42', '007'], None
        if d[1] in ('double', 'decimal'): return ['1.5', '0', '3'], None
        if d[1] == 'anyURI': return ['http://example.org/a?b=c&d', '../x y', 'Pictures/Gr\u00fc\u00dfe.png', '#\u00a7 3|outline', 'http://\u4f8b.jp/%41'], None
        if d[1] == 'duration': return ['PT1S', 'P1DT2H'], None
        if d[1] in ('date',): return ['2000-01-01'], None
        if d[1] in ('dateTime',): return ['2000-01-01T00:00:00'], None
        if d[1] in ('time',): return ['12:00:00'], None
        if d[1] == 'QName': return ['chart:bar', 'ooo:x.y-z', 'bar', 'my-ext:bar', 'x.y:z'], None
        return list(FREE[:6]), None
    if t == 'choice':
        vals = []
        for x in d[1]: vals += descriptor_samples(x, rng)[0]
        return vals, None
    if t == 'list': return ['0 0 10 10', '1 2 3 4'] if d[1][0] == 'seq' and len(d[1][1]) == 4 else ['a b'], None
    if t == 'empty': return [''], None
    return list(FREE[:4]), None

def is_ncname(v):
    """XML NCName (Namespaces in XML 1.0), by Unicode categories - independent of the library and of the model"""
    import unicodedata
    if not v: return False
    def start(c): return c == '_' or unicodedata.category(c) in ('Lu', 'Ll', 'Lt', 'Lo', 'Nl')
    def rest(c): return start(c) or c in '.-\u00b7' or unicodedata.category(c) in ('Nd', 'Mn', 'Mc', 'Lm')
    return start(v[0]) and all(rest(c) for c in v[1:])

def valid_by_descriptor(d, v):
    """True / False / None (unknown) without the Coq tables: python re on the schema's own pattern, sets for enumerations"""
    t = d[0]
    if t == 'value': return v == d[1]
    if t == 'data':
        if d[2] is None and d[1] in ('NCName', 'ID', 'IDREF'): return True if is_ncname(v) else None
        if d[2] is None and d[1] in ('anyURI', 'string'): return True          # XML Schema: no string is excluded from the lexical space of anyURI in practice
        if d[2] is None and d[1] == 'language': return True if re.fullmatch(r'[a-zA-Z]{1,8}(-[a-zA-Z0-9]{1,8})*', v) else None      # XML Schema part 2, 3.3.3
        if d[2] is None and d[1] == 'QName':
            # one or two NCNames with a colon between; white space around the value is collapsed by the type (left undecided here)
            w = v.strip(' \t\r\n'); parts = w.split(':')
            good = 1 <= len(parts) <= 2 and all(is_ncname(x) for x in parts)
            return (True if v == w else None) if good else False
        if d[2] is not None:
            if '$' in d[2] or '\\i' in d[2] or '\\c' in d[2]: return None
            try: return re.fullmatch(d[2], v) is not None
            except re.error: return None
        return None
    if t == 'choice':
        rs = [valid_by_descriptor(x, v) for x in d[1]]
        if True in rs: return True
        return None if None in rs else False
    if t == 'empty': return v == ''
    return None

def run(ctx):
    import odf
    from odf.element import Element
    d = ctx.get_driver()
    twin = json.load(open(os.path.join(vlib.COQ, 'gen', 'twin.json')))['GenConv.v']
    S = rnglib.odf12(os.path.dirname(os.path.dirname(os.path.abspath(odf.__file__))))
    T = rnglib.attr_types(S)
    fidx = {f: i for i, f in enumerate(twin['functions'])}
    kinds = twin['kinds']
    insts = twin['instances']
    ctx.corr('instance list (translator twin vs harness)', None, [(tuple(x[0]), tuple(x[1])) for x in insts], sorted(T))
    load_batch = []
    for i, (el, a, f, sidx) in enumerate(insts):
        el = tuple(el); a = tuple(a); desc = T[(el, a)]
        kind = kinds.get(f, 'id') if f else 'id'
        valid, _ = descriptor_samples(desc, ctx.rng)
        vals = list(dict.fromkeys(valid))
        if kind in ('pat', 'patprefix', 'union', 'enum', 'bool', 'mangle'):
            # the quick tier keeps the first 18: some valid values, values of neighbouring types (what a converter chosen by attribute
            # name might let through), then near misses of the valid ones
            vals = vals[:5] + ['1cm', '10%', '-1.5mm', 'new', 'replace', 'embed', 'none', 'true', 'TRUE'] + [x for v in valid[:2] for x in near_misses(v)[:3]] + vals[5:]
            for v in valid[:3]: vals += near_misses(v)
            vals += ['yes', '0 0 1 1', 'a b:c']
            if desc[0] == 'data' and desc[1] == 'QName': vals = vals[:12] + ['0a:b', 'a:-b', 'a:b:c', ':b', 'a:'] + vals[12:]       # names that are no names
        else:
            vals += FREE[:4]
        vals = list(dict.fromkeys(vals))[: (18 if ctx.quick else 48)]
        # ---- the real converter ----
        real = []
        for v in vals:
            e = Element(qname=el, check_grammar=False)
            try:
                e.setAttrNS(a[0], a[1], v); stored = e.getAttrNS(a[0], a[1]); out = ['Ok', stored]
                try:
                    e.setAttrNS(a[0], a[1], stored); again = e.getAttrNS(a[0], a[1])
                except Exception as ex: again = 'raised ' + type(ex).__name__
                if again != stored:
                    ctx.violation('not-idempotent', {'element': el, 'attribute': a, 'value': v}, {'stored': stored, 'again': again}, 'the same value', {'converter': f})
            except ValueError: out = 'ValueError'
            except Exception as ex: out = 'Other:' + type(ex).__name__
            real.append(out); ctx.oracle_cases += 1
            ok = valid_by_descriptor(desc, v)
            key = '%s:%s %s:%s' % (el[0], el[1], a[0], a[1])
            if ok is True:
                want = v if kind != 'bool' else v
                if out == 'ValueError' or (isinstance(out, list) and out[1] != want):
                    ctx.violation('schema-valid-value-refused', {'element': el, 'attribute': a, 'value': v, 'converter': f}, out, ['Ok', want], {'item': 'ACCEPT ' + key})
            elif ok is False and kind in ('pat', 'patprefix', 'union', 'enum') and isinstance(out, list):
                ctx.violation('value-outside-the-type-accepted', {'element': el, 'attribute': a, 'value': v, 'converter': f}, out, 'ValueError', {'item': 'STRICT ' + key})
            if isinstance(out, str) and out.startswith('Other:'):
                ctx.violation('unexpected-exception', {'element': el, 'attribute': a, 'value': v}, out, 'a value or ValueError', {})
        # ---- the model ----
        m = d.call('cv_batch', 'None' if f is None else '(Some %d)' % fidx[f], str(sidx), '(' + ' '.join(sx_str(v) for v in vals) + ')')
        model = [['Ok', sx_to_pystr(x[0][1])] if isinstance(x[0], list) else x[0] for x in m]
        ctx.corr('converter of %s on %s:%s' % (a[1], el[1], f), vals, model, real)
        for v, x in zip(vals, m):
            ok = valid_by_descriptor(desc, v)
            # (the model has no lexical space for a bare xsd:QName - the oracle above judges those)
            if ok is not None and (x[1] == '1') != ok and T[(el, a)][0] != 'choice' and not (desc[0] == 'data' and desc[1] == 'QName' and desc[2] is None):
                ctx.corr('lexical space of %s on %s (model vs python re on the schema pattern)' % (a[1], el[1]), v, x[1] == '1', ok)
        if kind != 'id': ctx.nt((el, a))
        ctx.bump('kind=' + kind)
        if valid and isinstance(real[0], list): load_batch.append((el, a, valid[0]))       # (a refused value stops load() altogether: reported above)
        if kind == 'id' and valid_by_descriptor(desc, ' x. ') is True: load_batch.append((el, a, [' x. ', '. ', '\u00a0x\u2003', ' '][i % 4]))     # a string is kept with the blanks around it
    # ---- one value per instance through a package and load() --------------------------------------------------------
    from odf.opendocument import load
    step = 400
    for k in range(0, len(load_batch), step):
        chunk = load_batch[k:k + step]
        kids = [('E', el, [(a, v)], []) for el, a, v in chunk]
        from props import c05lib as L
        body = ('E', (L.OFF, 'document-content'), [((L.OFF, 'version'), '1.2')], [('E', (L.OFF, 'body'), [], [('E', (L.OFF, 'text'), [], kids)])])
        std = {ns: p for p, ns in P.NS.items()}
        data = P.make_package([('content.xml', L.serialise(body, std), 'text/xml'), ('styles.xml', P.styles_xml(), 'text/xml')])
        try:
            doc = load(io.BytesIO(data))
            got = [c for c in doc.body.firstChild.childNodes]
            for (el, a, v), node in zip(chunk, got):
                ctx.oracle_cases += 1
                st = node.getAttrNS(a[0], a[1])
                if st != v and not (v in ('true', 'false') and st == v):
                    ok = valid_by_descriptor(T[(el, a)], v)
                    if ok is not False:
                        ctx.violation('loaded-value-changed', {'element': el, 'attribute': a, 'value': v}, st, v, {'item': 'ACCEPT %s:%s %s:%s' % (el[0], el[1], a[0], a[1])})
        except Exception as ex:
            ctx.violation('load-failed', {'chunk': k}, repr(ex)[:200], 'the package loads', {})
    ctx.exhaustive.append('schema instances covered: %d' % len(insts))

def replay(ctx, case):
    print(json.dumps(case, indent=1)[:3000]); return 1
