# C12 — producing output never changes the document and is repeatable.
import io, itertools
import vlib, xmllib as X, pkglib as P
from . import doccommon as DC, docgen

THEOREMS = ['C12_frame', 'C12_generator', 'C12_normalise_idempotent', 'C12_repeatable (any sequence, any length)', 'C12_document_after_any_sequence']
RULE = ('documents with metadata (several generators, other meta elements), settings, styles, automatic styles referenced from master '
        'pages and body, generated body content; every sequence of rendering calls over {save, write, xml, contentxml, stylesxml, metaxml, '
        'settingsxml} up to length L (L=2 exhaustive quick, 3 thorough) plus random sequences up to length 8. oracle: full snapshot of the '
        'document (every section as a tree read through qname/attributes/childNodes/data, modulo meta:generator; element index; '
        'getElementsByType / getStyleByName results) before and after each call; each output compared at infoset level (expat) with the '
        'output of the same renderer on an identical fresh document. correspondence: bytes of every renderer vs the extracted model '
        '(including the state of office:meta after generator normalisation). non-trivial = every (document, sequence).')
TRUSTED = ['the renderers are modelled as functions of the eight section trees (Doc.v); that they touch nothing else of the OpenDocument object is what the snapshot oracle checks']
ASSUMPTIONS = []

KINDS = ['save', 'write', 'xml', 'contentxml', 'stylesxml', 'metaxml', 'settingsxml']

def build_doc(seed):
    import random
    from odf.opendocument import OpenDocumentText
    from odf import meta, dc, style, text
    rng = random.Random(seed)
    doc = OpenDocumentText()
    doc.text.addElement(text.P(text='first body paragraph'))       # built before the header paragraph further down
    docgen.fill_document(rng, doc)
    doc.meta.addElement(dc.Title(text='T & <t>'))
    # what office suites keep there: counters and dates a "save" might feel entitled to touch
    doc.meta.addElement(meta.EditingCycles(text='3')); doc.meta.addElement(meta.EditingDuration(text='PT1H')); doc.meta.addElement(meta.CreationDate(text='2020-01-02T03:04:05'))
    doc.meta.addElement(dc.Date(text='2021-01-02T03:04:05')); doc.meta.addElement(meta.DocumentStatistic(pagecount='1', wordcount='2'))
    every = seed % 2 == 0                                # every other document has all of it: generators next to each other and apart
    if every or rng.random() < 0.5: doc.meta.addElement(meta.Generator(text='OtherApp/9'))
    if every or rng.random() < 0.5: doc.meta.insertBefore(meta.Generator(text='Older/1'), doc.meta.firstChild)
    if every: doc.meta.addElement(meta.Generator(text='Another/2'))
    pl = style.PageLayout(name='pm1'); doc.automaticstyles.addElement(pl)
    hs = style.Style(name='HP', family='paragraph'); doc.automaticstyles.addElement(hs)
    mp = style.MasterPage(name='Standard', pagelayoutname='pm1'); h = style.Header(); h.addElement(text.P(stylename='HP', text='head')); mp.addElement(h)
    doc.masterstyles.addElement(mp)
    # a picture and an embedded object with a picture of its own: they are output too
    from odf.opendocument import OpenDocumentChart
    from odf import chart, draw
    ch = OpenDocumentChart(); ch.chart.addElement(chart.Chart(attributes={'class': 'chart:bar'})); ch.addPicture('Pictures/inner.png', 'image/png', b'INNER')
    p = text.P(); doc.text.addElement(p); fr = draw.Frame(); p.addElement(fr); fr.addElement(draw.Object(href=doc.addObject(ch)))
    fr2 = draw.Frame(); p.addElement(fr2); fr2.addElement(draw.Image(href=doc.addPicture('Pictures/outer.png', 'image/png', b'OUTER')))
    # a name used twice: the second style is renamed when it is inserted, and the paragraph attached before that goes on naming the
    # first one - a rendering that "followed" the renaming would change which style the paragraph has
    doc.automaticstyles.addElement(style.Style(name='RN', family='paragraph'))
    doc.text.addElement(text.P(stylename='RN', text='names the first RN'))
    late = text.P(text='reference made after attaching'); doc.text.addElement(late)
    doc.automaticstyles.addElement(style.Style(name='RN', family='paragraph'))
    late.setAttribute('stylename', 'RN')
    return doc

def build_loaded(seed):
    """the same through load(): content.xml and styles.xml each have an automatic style P1 (and a list style L1), as office suites write them"""
    from odf.opendocument import load
    auto_c = ('<style:style style:name="P1" style:family="paragraph"><style:paragraph-properties fo:text-align="end"/></style:style>'
              '<style:style style:name="T1" style:family="text"><style:text-properties fo:font-weight="bold"/></style:style>')
    body = '<text:p text:style-name="P1">body <text:span text:style-name="T1">bold %d</text:span></text:p><text:p text:style-name="P1"/>' % seed
    auto_s = ('<style:style style:name="P1" style:family="paragraph"><style:paragraph-properties fo:text-align="center"/></style:style>'
              '<style:style style:name="T1" style:family="text"><style:text-properties fo:font-style="italic"/></style:style>'
              '<style:page-layout style:name="pm1"/>')
    master = ('<style:master-page style:name="Standard" style:page-layout-name="pm1"><style:header><text:p text:style-name="P1">head '
              '<text:span text:style-name="T1">it</text:span></text:p></style:header></style:master-page>')
    order = [('content.xml', P.content_xml(body, autostyles=auto_c), 'text/xml'), ('styles.xml', P.styles_xml(autostyles=auto_s, masterstyles=master), 'text/xml'),
             ('meta.xml', P.meta_xml(), 'text/xml'), ('settings.xml', P.settings_xml(), 'text/xml')]
    if seed % 2: order = [order[1], order[0]] + order[2:]
    return load(io.BytesIO(P.make_package(order)))

def snapshot(doc, with_generator=False):
    from odf import text, style, meta, office
    secs = {}
    for a in DC.SECTS:
        t = X.walk_real(getattr(doc, a))
        if a == 'meta' and not with_generator:
            t = ('E', t[1], t[2], [k for k in t[3] if not (k[0] == 'E' and k[1][1] == 'generator')])
        secs[a] = t
    top = [getattr(c, 'qname', None) for c in doc.topnode.childNodes]
    idx = {}
    for q, l in doc.element_dict.items():
        if q[1] != 'generator': idx[str(q)] = len(l)
    # what the queries return: the very elements, in the order returned
    qs = [[id(e) for e in doc.getElementsByType(f)] for f in (text.P, text.Span, style.Style, office.Text, style.MasterPage)]
    st = [id(doc.getStyleByName(n)) if doc.getStyleByName(n) is not None else None for n in ('S0', 'S1', 'S2', 'HP', 'RN', 'MRN', 'P1', 'MP1', 'T1', 'MT1', 'nope')]
    return {'sections': secs, 'topnode': top, 'index': idx, 'queries': qs, 'styles': st, 'pictures': sorted(doc.Pictures), 'mimetype': doc.mimetype,
            'objects': [(id(o), o.folder, sorted(o.Pictures), X.walk_real(o.body)) for o in doc.childobjects]}

def call(doc, kind):
    if kind == 'save':
        b = io.BytesIO(); doc.save(b); pk = P.read_package(b.getvalue()); return dict(pk['members'])
    if kind == 'write':
        b = io.BytesIO(); doc.write(b); pk = P.read_package(b.getvalue()); return dict(pk['members'])
    out = getattr(doc, kind)()
    return {kind: out if isinstance(out, bytes) else out.encode('utf-8')}

def infoset(outs):
    return {k: X.expat_parse(v) if k.endswith('xml') else v for k, v in outs.items()}        # XML members as infosets, the others (pictures, mimetype) as bytes

def run(ctx):
    L = 2 if ctx.quick else 3
    seqs = [s for l in range(1, L + 1) for s in itertools.product(KINDS, repeat=l)]
    for _ in range(40 if ctx.quick else 800):
        seqs.append(tuple(ctx.rng.choice(KINDS) for _ in range(ctx.rng.randint(3, 8))))
    ndocs = 2 if ctx.quick else 6
    for dno in range(ndocs + 2):
        seed = ctx.seed * 100 + dno
        # the last two documents come out of load(): names shared between content.xml and styles.xml were renamed on the way in
        build = build_doc if dno < ndocs else build_loaded
        # reference outputs: each renderer on an identical fresh document
        ref = {k: infoset(call(build(seed), k)) for k in KINDS}
        for seq in seqs:
            if ctx.quick and dno > 0 and len(seq) == 2 and (sum(map(hash, seq)) % 3): continue
            doc = build(seed)
            base = snapshot(doc)
            hist = []
            for kind in seq:
                before = snapshot(doc)
                if kind in ('contentxml', 'stylesxml', 'settingsxml', 'metaxml', 'xml') and ctx.rng.random() < 0.15:
                    DC.corr_render(ctx, doc, kinds=({'contentxml': 'content', 'stylesxml': 'styles', 'settingsxml': 'settings', 'metaxml': 'meta', 'xml': 'xml'}[kind],), tag='C12')
                    outs = None
                else:
                    outs = call(doc, kind)
                hist.append(kind)
                after = snapshot(doc)
                ctx.oracle_cases += 1
                if after != before:
                    diff = [k for k in after if after[k] != before[k]]
                    sd = [s for s in after['sections'] if after['sections'][s] != before['sections'][s]] if 'sections' in diff else []
                    ctx.violation('document-changed-by-rendering', {'doc_seed': seed, 'calls': list(hist)}, {'changed': diff, 'sections': sd}, 'unchanged apart from the generator', {'call': kind})
                    break
                if outs is not None:
                    got = infoset(outs)
                    if got != ref[kind]:
                        ctx.violation('output-not-repeatable', {'doc_seed': seed, 'calls': list(hist)}, 'infoset differs from the first rendering of the same document', 'identical infoset', {'call': kind})
                        break
                # generator: after a normalising call exactly one, the library's, last
                if kind in ('save', 'write', 'xml', 'metaxml'):
                    gens = [c for c in doc.meta.childNodes if getattr(c, 'qname', ('', ''))[1] == 'generator']
                    from odf.namespaces import TOOLSVERSION
                    if len(gens) != 1 or str(gens[0]) != TOOLSVERSION or doc.meta.lastChild is not gens[0]:
                        ctx.violation('generator-not-normalised', {'doc_seed': seed, 'calls': list(hist)}, [str(g) for g in gens], 'exactly one: ' + TOOLSVERSION, {})
            ctx.nt((seed, seq))
            ctx.bump('len=%d' % len(seq))
    ctx.exhaustive.append('every sequence of rendering calls up to length %d over %d calls, on %d built documents and 2 loaded ones (each with styles renamed because of a shared name)' % (L, len(KINDS), ndocs))
    ctx.sample({'calls': ['save', 'xml', 'metaxml'], 'checked': 'snapshot before/after each call, infoset of each output vs fresh document'})

def replay(ctx, case):
    import json
    print(json.dumps(case, indent=1)[:3000]); return 1
