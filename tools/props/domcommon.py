# lock-step execution of operation histories on the real DOM and on the extracted heap model
import vlib, domlib as D

def run_history(ctx, attached, ops, checks, tag, extra_free=(), prelinked=False):
    """ops: list of op tuples over Universe ids. checks: callables (u, ref, step_index, op, outcome) -> complaints.
    returns the universe (for the caller's own inspection)"""
    d = ctx.get_driver()
    u = D.Universe(attached, extra_free, prelinked)
    ref = D.Ref(u)
    init_checked(ctx, d, u, attached, tag)
    hist = []
    for i, op in enumerate(ops):
        if not D.legal(u, op): break
        osx = D.op_sx(u, op)
        before = len(u.nodes)
        exp = ref.expected_outcome(u, op)
        out = D.apply_real(u, op)
        snap = u.snapshot()
        new_id = before if len(u.nodes) > before else None
        m = d.call('dom_step', osx)
        hist.append(op)
        mstat = m[0]
        ctx.bump('step side conditions (op_okb, keeps_topb) ' + ('hold' if m[2] == '1' else 'do not hold'))
        ctx.corr('DOM outcome ' + tag, hist, mstat, out)
        mh = D.canon_model_heap(m[1]); rh = snap
        if mh[0] != rh[0]:
            diff = [(j, a, b) for j, (a, b) in enumerate(zip(mh[0], rh[0])) if a != b][:3]
            ctx.corr('DOM link fields ' + tag, hist, diff, [])
        else:
            ctx.corr_cases += 1
        if attached:
            ctx.corr('element_dict ' + tag, hist, D.drop_empty(mh[1]), D.drop_empty(rh[1]))
            ctx.corr('_styles_dict ' + tag, hist, mh[2], rh[2])
        ref.apply(u, op, out, new_id)
        for chk in checks:
            chk(u, ref, list(hist), op, out, exp)
        ctx.bump('op=' + op[0]); ctx.bump('outcome=' + (out if out == 'Ok' else out[1]))
    return u

def init_checked(ctx, d, u, attached, tag):
    """start the model from the snapshot of the real nodes; the model's executable checkers (sound: C08_checked_start,
    C09_checked_start, C09_checked_complete) must accept it, so that the theorems about every history apply to this one"""
    snap = u.snapshot()
    r = d.call('dom_init', vlib.sx_show(snap))
    ctx.corr('the starting snapshot is structurally consistent (wf_ok) ' + tag, snap if r[0] != '1' else None, r[0], '1')
    if attached:
        ctx.corr('the lookups of the starting snapshot agree with its tree (idx_ok) ' + tag, snap if r[1] != '1' else None, r[1], '1')
        ctx.corr('every registrable style of the starting snapshot is registered (comp_ok) ' + tag, snap if r[2] != '1' else None, r[2], '1')
    return snap

def working_ids(u, attached):
    """a small working set: 3 elements + 2 text nodes (+ the container when attached)"""
    f = u.free_ids           # P, P, Span, T1, T2, C1, Style, List
    ids = [f[0], f[1], f[2], f[3], f[4]]
    if attached:
        ids = [u.id_of(u.doc.text)] + ids
    return ids
