# schemagen.py — schema-directed random documents built through the element factories of the odf package
# (children from the schema's content models, attribute values that the attribute's converter accepts, text where
# character content is permitted), for all document classes; pictures and embedded sub-documents included.
import importlib, os
import xmllib as X, rnglib

OFF = 'urn:oasis:names:tc:opendocument:xmlns:office:1.0'
STY = 'urn:oasis:names:tc:opendocument:xmlns:style:1.0'
TXT = 'urn:oasis:names:tc:opendocument:xmlns:text:1.0'
CANDIDATES = ['true', '1', '1cm', '10%', 'simple', '#000000', 'N1', '0 0 1 1', '1,1 2,2', 'PT1S', '2000-01-01', '2000-01-01T00:00:00', 'none', 'a:b',
              'float', 'page', 'embed', 'onLoad', 'left', 'row', 'ascending', 'named', 'start', 'en', 'text', 'self', 'x', '0.5', 'auto', 'solid', 'normal']
TEXT_ALPHABET = 'ab zé中\U0001F600=;#x&<>"\'][ \t\n'

def rand_text(rng, maxlen=16):
    if rng.random() < 0.25:            # white space only: indentation-like text, a single blank
        return rng.choice([' ', '\n  ', '\t', '  ', '\n'])
    return ''.join(rng.choice(TEXT_ALPHABET) for _ in range(rng.randint(0, maxlen)))

class Gen:
    def __init__(self, rng, twin):
        import odf, odf.grammar as G
        from odf.element import Element
        self.rng = rng; self.G = G; self.Element = Element
        self.S = rnglib.odf12(os.path.dirname(os.path.dirname(os.path.abspath(odf.__file__))))
        self.fac = {}
        for name, qn in twin['factories']:
            mod, fn = name.split('.')
            self.fac.setdefault(tuple(qn), getattr(importlib.import_module('odf.' + mod), fn))
        self.values = {}
        self.autonames = []; self.stats = {}

    def value(self, el, a):
        """a value the converter of attribute a accepts on element el (free text when anything goes)"""
        k = (el, a)
        if k not in self.values:
            ok = []
            probe = 'q%dz' % self.rng.randint(0, 99)
            for v in [probe] + CANDIDATES:
                e = self.Element(qname=el, check_grammar=False)
                try:
                    e.setAttrNS(a[0], a[1], v)
                    if e.getAttrNS(a[0], a[1]) == v: ok.append(v)
                except Exception: pass
                if len(ok) >= 3: break
            self.values[k] = ('free' if ok and ok[0] == probe else 'fixed', ok)
        kind, ok = self.values[k]
        if not ok: return None
        if kind == 'free' and not a[1].endswith('name') and not a[1].endswith('names') and self.rng.random() < 0.5:
            return rand_text(self.rng, 10)
        return self.rng.choice(ok)

    def element(self, qn, depth, attrs_extra=None):
        """an element of type qn through its factory, with required attributes, some optional ones, children and text"""
        G, rng = self.G, self.rng
        qa = dict(attrs_extra or {})
        allowed = [tuple(map(str, a)) for a in (G.allowed_attributes.get(qn) or ())]
        required = [tuple(map(str, a)) for a in (G.required_attributes.get(qn) or ())]
        sattrs = self.S.elements.get(qn, (set(), False, set(), set()))[2]
        for a in required + [a for a in allowed if a in sattrs and rng.random() < 0.25]:
            if a in qa: continue
            v = self.value(qn, a)
            if v is not None: qa[a] = v
        # references to automatic styles: sometimes point them at a known name
        for a in list(qa):
            if a[1] in ('style-name', 'text-style-name', 'class-names') and self.autonames and rng.random() < 0.6:
                qa[a] = rng.choice(self.autonames)
        f = self.fac.get(qn)
        try:
            e = f(qattributes=qa) if f else self.Element(qname=qn, qattributes=qa)
        except Exception:
            try: e = f(qattributes=qa, check_grammar=False) if f else self.Element(qname=qn, qattributes=qa, check_grammar=False)
            except Exception: return None
        self.stats[qn[1]] = self.stats.get(qn[1], 0) + 1
        if depth > 0:
            kids = [tuple(map(str, c)) for c in (G.allowed_children.get(qn) or ())]
            skids = self.S.elements.get(qn, (set(),))[0]
            kids = [c for c in kids if c in skids and c[0] not in ('http://www.w3.org/1998/Math/MathML',)]
            n = rng.choice([0, 1, 2, 3]) if kids else 0
            for _ in range(n):
                if qn in G.allows_text and rng.random() < 0.5:
                    t = rand_text(rng)
                    if t: e.addText(t)
                c = self.element(rng.choice(kids), depth - 1)
                if c is not None:
                    try: e.addElement(c)
                    except Exception: pass
        if qn in G.allows_text and rng.random() < 0.7:
            t = rand_text(rng)
            if t:
                (e.addCDATA if rng.random() < 0.1 and ']]>' not in t else e.addText)(t)
        return e

    def fill_section(self, section, depth, n):
        qn = section.qname
        kids = [tuple(map(str, c)) for c in (self.G.allowed_children.get(qn) or ())]
        skids = self.S.elements.get(qn, (set(),))[0]
        kids = [c for c in kids if c in skids]
        for _ in range(n):
            if not kids: break
            c = self.element(self.rng.choice(kids), depth)
            if c is not None:
                try: section.addElement(c)
                except Exception: pass

    def document(self, with_objects=True):
        from odf import opendocument as O, style, text, draw
        rng = self.rng
        cls = rng.choice([O.OpenDocumentText, O.OpenDocumentSpreadsheet, O.OpenDocumentPresentation, O.OpenDocumentDrawing, O.OpenDocumentChart,
                          O.OpenDocumentImage, O.OpenDocumentTextMaster])
        doc = cls()
        # automatic styles: named style:style elements, some of which will be referenced
        self.autonames = []
        for i in range(rng.randint(0, 5)):
            nm = rng.choice(['P', 'T', 'gr', 'ce']) + str(i + 1)
            fam = rng.choice(['paragraph', 'text', 'graphic', 'table-cell', 'table', 'section'])
            s = self.element((STY, 'style'), 1, {(STY, 'name'): nm, (STY, 'family'): fam})
            if s is not None:
                doc.automaticstyles.addElement(s); self.autonames.append(nm)
        if rng.random() < 0.3:
            # an automatic style nothing refers to, which itself refers to another automatic style
            from odf import text as T
            doc.automaticstyles.addElement(T.ListStyle(name='L9'))
            doc.automaticstyles.addElement(style.Style(name='A9', family='paragraph', liststylename='L9'))
        body_top = doc.body.firstChild
        self.fill_section(body_top, 3, rng.randint(1, 4))
        self.fill_section(doc.styles, 2, rng.randint(0, 3))
        self.fill_section(doc.fontfacedecls, 1, rng.randint(0, 2))
        self.fill_section(doc.meta, 1, rng.randint(0, 4))
        self.fill_section(doc.settings, 3, rng.randint(0, 2))
        self.fill_section(doc.scripts, 1, rng.randint(0, 1))
        if rng.random() < 0.7:
            mp = self.element((STY, 'master-page'), 3, {(STY, 'name'): 'Standard', (STY, 'page-layout-name'): 'pm1'})
            if mp is not None: doc.masterstyles.addElement(mp)
        if rng.random() < 0.25:
            # a list style used by the body and by a page header: both parts will carry it
            from odf import text as T
            doc.automaticstyles.addElement(T.ListStyle(name='L7'))
            for where in ('body', 'master'):
                l = T.List(stylename='L7'); li = T.ListItem(); li.addElement(T.P(text='both')); l.addElement(li)
                if where == 'body':
                    try: body_top.addElement(l)
                    except Exception: pass
                else:
                    mp2 = style.MasterPage(name='WithList', pagelayoutname='pm1'); h = style.Header(); h.addElement(l); mp2.addElement(h)
                    doc.masterstyles.addElement(mp2)
        # pictures and embedded sub-documents
        for i in range(rng.choice([0, 0, 1, 2])):
            data = bytes(rng.randrange(256) for _ in range(rng.randint(1, 40)))
            doc.addPictureFromString(data, 'image/png')
        if with_objects and rng.random() < 0.3:
            sub = O.OpenDocumentChart()
            self.fill_section(sub.body.firstChild, 2, 1)
            self.fill_section(sub.settings, 3, rng.randint(1, 2))          # an object has settings of its own
            doc.addObject(sub)
        return doc
