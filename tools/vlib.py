# vlib.py — shared machinery of /verif/check: build of the Coq development, the
# extracted-model driver, s-expressions, evidence, known findings, verdicts.
import os, sys, re, json, time, subprocess, hashlib, fcntl, random, tempfile, shutil

VERIF = os.path.dirname(os.path.dirname(os.path.abspath(__file__)))
REPO = os.environ.get('VERIF_REPO', '/repo')
COQ = os.path.join(VERIF, 'coq')
OCAML = os.path.join(VERIF, 'ocaml')
PY = '/venv/bin/python'
COQC_TIMEOUT = 900

def env_for_repo():
    e = dict(os.environ)
    e['PYTHONPATH'] = REPO
    e['PYTHONHASHSEED'] = '0'
    e['PIP_NO_INDEX'] = '1'
    e['EEA_ODFPY_VERIF'] = '1'
    return e

# ----------------------------------------------------------------------------
# s-expressions (the driver protocol)
# ----------------------------------------------------------------------------
def sx_str(s):
    """Python str -> '(cp cp ...)'"""
    return '(' + ' '.join(str(ord(c)) for c in s) + ')'

def sx_show(x):
    if isinstance(x, (list, tuple)):
        return '(' + ' '.join(sx_show(y) for y in x) + ')'
    if isinstance(x, bool):
        return '1' if x else '0'
    return str(x)

def sx_parse(line):
    toks = line.replace('(', ' ( ').replace(')', ' ) ').split()
    pos = 0
    def go():
        nonlocal pos
        out = []
        while pos < len(toks):
            t = toks[pos]; pos += 1
            if t == '(':
                out.append(go())
            elif t == ')':
                return out
            else:
                out.append(t)
        return out
    r = go()
    return r[0] if len(r) == 1 else r

def sx_to_pystr(x):
    return ''.join(chr(int(a)) for a in x)

class Driver:
    """One process of the extracted model; one request line -> one reply line."""
    def __init__(self):
        self.p = subprocess.Popen(['/bin/sh', '-c', 'ulimit -s unlimited 2>/dev/null; exec ' + os.path.join(OCAML, 'driver')],
                                  stdin=subprocess.PIPE, stdout=subprocess.PIPE, text=True, bufsize=1)
        self.calls = 0
    def call(self, fn, *args):
        self.calls += 1
        line = fn + ' ' + ' '.join(a if isinstance(a, str) else sx_show(a) for a in args)
        self.p.stdin.write(line + '\n'); self.p.stdin.flush()
        r = self.p.stdout.readline()
        if not r:
            raise RuntimeError('model driver died on: ' + line[:200])
        return sx_parse(r)
    def close(self):
        try:
            self.p.stdin.close(); self.p.wait(timeout=10)
        except Exception:
            self.p.kill()

# ----------------------------------------------------------------------------
# build
# ----------------------------------------------------------------------------
class BuildResult:
    def __init__(self):
        self.ok = True
        self.failed = []      # [(file, message)]
        self.log = ''
        self.gen_changed = []
        self.wall = 0.0

def _run(cmd, cwd=None, timeout=COQC_TIMEOUT, env=None):
    try:
        p = subprocess.run(cmd, cwd=cwd, timeout=timeout, env=env, stdout=subprocess.PIPE,
                           stderr=subprocess.STDOUT, text=True, shell=isinstance(cmd, str))
        return p.returncode, p.stdout
    except subprocess.TimeoutExpired as e:
        return 124, (e.stdout or '') + '\nTIMEOUT'

class Lock:
    def __enter__(self):
        self.f = open(os.path.join(VERIF, '.build.lock'), 'w')
        fcntl.flock(self.f, fcntl.LOCK_EX)
        return self
    def __exit__(self, *a):
        fcntl.flock(self.f, fcntl.LOCK_UN); self.f.close()

def gen_tables():
    """Regenerate coq/gen/*.v from /repo's working tree. Returns (ok, changed, log)."""
    rc, out = _run([PY, os.path.join(VERIF, 'tools', 'gen_tables.py')], env=env_for_repo(), timeout=600)
    changed = [l.split()[1] for l in out.splitlines() if l.startswith('CHANGED ')]
    return rc == 0, changed, out

def coq_files():
    fs = []
    for l in open(os.path.join(COQ, '_CoqProject')):
        l = l.strip()
        if l.endswith('.v'):
            fs.append(l)
    return fs

def ensure_makefile():
    mk = os.path.join(COQ, 'Makefile')
    cp = os.path.join(COQ, '_CoqProject')
    if not os.path.exists(mk) or os.path.getmtime(mk) < os.path.getmtime(cp):
        _run('coq_makefile -f _CoqProject -o Makefile', cwd=COQ)

def make_targets(targets, jobs=16):
    """make the given .vo targets (and what they depend on). -k so that one
    broken file does not hide the others."""
    ensure_makefile()
    rc, out = _run(['make', '-k', '-j%d' % jobs] + targets, cwd=COQ, timeout=3000)
    failed = []
    for m in re.finditer(r'File "\./([^"]+)", line (\d+), characters [^\n]*\n((?:(?!File ")[^\n]*\n){0,12})', out):
        if 'Error' in m.group(3) or 'rror:' in m.group(3):
            failed.append((m.group(1), 'line %s: %s' % (m.group(2), m.group(3).strip()[:600])))
    if rc != 0 and not failed:
        failed.append(('?', out[-800:]))
    return rc == 0, failed, out

def build_driver():
    """Extract the model and compile the correspondence driver when out of date."""
    gen = os.path.join(OCAML, 'gen')
    os.makedirs(gen, exist_ok=True)
    drv = os.path.join(OCAML, 'driver')
    ext_v = os.path.join(COQ, 'extract', 'Extract.v')
    ok, failed, out = make_targets(['extract/Extract.vo'])
    if not ok:
        return False, 'model does not compile (extraction): ' + out[-1500:]
    stamp = os.path.join(gen, '.stamp')
    vo = os.path.join(COQ, 'extract', 'Extract.vo')
    src_m = max(os.path.getmtime(vo), os.path.getmtime(os.path.join(OCAML, 'driver.ml')))
    if os.path.exists(drv) and os.path.exists(stamp) and os.path.getmtime(stamp) >= src_m:
        return True, 'up to date'
    for f in os.listdir(gen):
        if f != '.stamp':
            os.unlink(os.path.join(gen, f))
    # re-run extraction with cwd = gen (Coq 8.16 writes extracted files to cwd)
    rc, out = _run('coqc -R %s Odf -w -all -o /dev/null %s' % (COQ, ext_v), cwd=gen)
    if rc != 0 and not os.path.exists(os.path.join(gen, 'Base.ml')):
        # -o /dev/null may be refused: fall back to compiling into a scratch copy
        tmpv = os.path.join(gen, 'ExtractRun.v')
        shutil.copy(ext_v, tmpv)
        rc, out = _run('coqc -R %s Odf -w -all %s' % (COQ, tmpv), cwd=gen)
        if rc != 0:
            return False, 'extraction failed: ' + out[-1500:]
    rc, out = _run('ocamlfind ocamlopt -w -a -O3 -I . $(ocamlfind ocamldep -sort *.mli *.ml) ../driver.ml -o ../driver 2>&1 || '
                   'ocamlfind ocamlopt -w -a -I . $(ocamlfind ocamldep -sort *.mli *.ml) ../driver.ml -o ../driver', cwd=gen)
    if rc != 0 or not os.path.exists(drv):
        return False, 'driver does not compile: ' + out[-2500:]
    open(stamp, 'w').write(str(time.time()))
    return True, 'rebuilt'

FORBIDDEN = re.compile(r'\b(Admitted|admit|Axiom|Axioms|Parameter|Parameters|Conjecture|Conjectures|Hypothesis|Hypotheses|Variable|Variables|Unset Guard Checking|bypass_check|Admit Obligations|Unset Positivity Checking|Unset Universe Checking|type-in-type|impredicative-set)\b')

def strip_comments(src):
    out = []; depth = 0; i = 0
    while i < len(src):
        if src.startswith('(*', i):
            depth += 1; i += 2
        elif src.startswith('*)', i) and depth:
            depth -= 1; i += 2
        else:
            if depth == 0:
                out.append(src[i])
            i += 1
    return ''.join(out)

def hygiene():
    """No Admitted/admit/Axiom/Parameter..., and Variable/Hypothesis only inside a Section."""
    bad = []
    for f in coq_files():
        src = strip_comments(open(os.path.join(COQ, f)).read())
        depth = 0
        for ln, line in enumerate(src.splitlines(), 1):
            if re.match(r'\s*Section\b', line): depth += 1
            if re.match(r'\s*End\b', line) and depth: depth -= 1
            for m in FORBIDDEN.finditer(line):
                w = m.group(1)
                if w in ('Variable', 'Variables', 'Hypothesis', 'Hypotheses') and depth > 0:
                    continue
                bad.append('%s:%d: %s' % (f, ln, w))
    return bad

def deps_closure(vfile):
    """Project files that props/<id>.v depends on (via coqdep)."""
    rc, out = _run('coqdep -f _CoqProject 2>/dev/null', cwd=COQ)
    dep = {}
    for l in out.splitlines():
        if ':' not in l: continue
        lhs, rhs = l.split(':', 1)
        tg = [t for t in lhs.split() if t.endswith('.vo')]
        ds = [d[:-1] for d in rhs.split() if d.endswith('.vo') and not d.startswith('/')]
        for t in tg:
            dep[t[:-1]] = ds
    seen = []; todo = [vfile]
    while todo:
        f = todo.pop()
        if f in seen: continue
        seen.append(f)
        todo.extend(dep.get(f, []))
    return seen

THM = re.compile(r'^\s*(?:Local\s+|Global\s+)?(Theorem|Lemma|Corollary|Example|Fact|Proposition|Remark)\s+([A-Za-z0-9_\']+)', re.M)

def count_obligations(files, failed_files):
    names = []; discharged = []
    for f in files:
        src = strip_comments(open(os.path.join(COQ, f)).read())
        for m in THM.finditer(src):
            names.append(f + ':' + m.group(2))
            if f not in failed_files and os.path.exists(os.path.join(COQ, f + 'o')):
                discharged.append(f + ':' + m.group(2))
    return names, discharged

def check_props(pid):
    """Compile props/<pid>.v on its own and collect Print Assumptions output."""
    f = 'props/%s.v' % pid
    rc, out = _run('coqc -R . Odf -w -all %s' % f, cwd=COQ)
    assumptions = {}
    cur = None
    # coqc prints for each `Print Assumptions X.` either the closed line or "Axioms:" + entries
    blocks = re.split(r'\n(?=Closed under the global context|Axioms:)', '\n' + out)
    thms = re.findall(r'Print Assumptions\s+([A-Za-z0-9_\']+)\s*\.', strip_comments(open(os.path.join(COQ, f)).read()))
    res = []
    for b in blocks:
        b = b.strip()
        if b.startswith('Closed under the global context'):
            res.append('Closed under the global context')
        elif b.startswith('Axioms:'):
            res.append(' '.join(b.split()))
    for i, t in enumerate(thms):
        assumptions[t] = res[i] if i < len(res) else '(no output)'
    return rc == 0, assumptions, out

# ----------------------------------------------------------------------------
# findings
# ----------------------------------------------------------------------------
def load_findings():
    p = os.path.join(VERIF, 'known_findings.json')
    if not os.path.exists(p):
        return {'findings': [], 'fixed': []}
    return json.load(open(p))

# ----------------------------------------------------------------------------
# context handed to property modules
# ----------------------------------------------------------------------------
class Ctx:
    def __init__(self, pid, tier, seed):
        self.pid = pid; self.tier = tier; self.seed = seed
        self.rng = random.Random(seed)
        self.quick = (tier == 'quick')
        self.t0 = time.time()
        self.driver = None
        self.findings = [f for f in load_findings()['findings'] if f['property'] == pid]
        self.known_hit = {}          # finding id -> example
        self.violations = []         # unknown violations of the property by the real code
        self.corr_mismatch = []      # model vs implementation differences
        self.corr_cases = 0
        self.oracle_cases = 0
        self.nontrivial = set()
        self.samples = []
        self.dist = {}
        self.notes = []
        self.exhaustive = []
        self.proof = None
        self.scratch = tempfile.mkdtemp(prefix='verif-%s-' % pid)
    def get_driver(self):
        if self.driver is None:
            self.driver = Driver()
        return self.driver
    def bump(self, key, n=1):
        self.dist[key] = self.dist.get(key, 0) + n
    def sample(self, s, limit=8):
        if len(self.samples) < limit:
            self.samples.append(s)
    def nt(self, key):
        """record a distinct non-trivial case (hashable key)"""
        self.nontrivial.add(hashlib.sha1(repr(key).encode('utf-8', 'surrogatepass')).hexdigest()[:16])
    def corr(self, what, case, model, impl):
        """one correspondence comparison"""
        self.corr_cases += 1
        if model != impl:
            if len(self.corr_mismatch) < 20:
                self.corr_mismatch.append({'what': what, 'case': case, 'model': model, 'impl': impl})
            return False
        return True
    def violation(self, what, case, observed, expected, match=None):
        """the REAL code violates the property on `case`. `match` = dict of
        classification fields compared with the known-findings classes."""
        for f in self.findings:
            if finding_matches(f, what, match or {}):
                if f['id'] not in self.known_hit:
                    self.known_hit[f['id']] = {'what': what, 'case': case, 'observed': observed}
                return 'known'
        if len(self.violations) < 20:
            self.violations.append({'what': what, 'case': case, 'observed': observed, 'expected': expected, 'match': match})
        return 'new'
    def cleanup(self):
        if self.driver: self.driver.close()
        shutil.rmtree(self.scratch, ignore_errors=True)

def finding_matches(f, what, match):
    cls = f.get('class', {})
    if cls.get('what') and (what not in cls['what'] if isinstance(cls['what'], list) else cls['what'] != what):
        return False
    for k, v in cls.items():
        if k == 'what': continue
        mv = match.get(k)
        if isinstance(v, list):
            if isinstance(mv, list):
                if not all(x in v for x in mv): return False
            elif mv not in v: return False
        elif mv != v:
            return False
    return True

def jsonable(x):
    if isinstance(x, str):
        try:
            x.encode('utf-8'); return x
        except UnicodeEncodeError:
            return {'codepoints': [ord(c) for c in x]}
    if isinstance(x, bytes):
        return {'bytes_hex': x.hex()}
    if isinstance(x, dict):
        return {str(k): jsonable(v) for k, v in x.items()}
    if isinstance(x, (list, tuple, set)):
        return [jsonable(v) for v in x]
    if isinstance(x, (int, float, bool)) or x is None:
        return x
    return repr(x)
