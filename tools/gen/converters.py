# GenConv.v — the value converters of odf/attrconverters.py (each function classified by the shape of its source, its
# constants - regular expressions, allowed values - read from the source), the table that assigns them to attributes, and
# the lexical space the ODF 1.2 schema gives every (element, attribute) instance (tools/rnglib.attr_types).
import ast, hashlib, os
from .coqfmt import *
import rnglib, relib

# normalised source shape -> kind.  A converter whose shape is not listed makes the translator fail (fail closed).
SHAPES = {}
def shape_of(f):
    class Norm(ast.NodeTransformer):
        def visit_Constant(self, n): return ast.Constant('S') if isinstance(n.value, str) else n
        def visit_Tuple(self, n): return ast.Tuple([ast.Constant('...')], n.ctx) if all(isinstance(e, ast.Constant) for e in n.elts) else self.generic_visit(n)
        def visit_Name(self, n): return ast.Name('PAT', n.ctx) if n.id.startswith('pattern_') else n
        def visit_Global(self, n): return ast.Global(['PAT'])
    body = [b for b in f.body if not (isinstance(b, ast.Expr) and isinstance(b.value, ast.Constant))]
    g = ast.FunctionDef('f', f.args, body, [], lineno=0, col_offset=0)
    d = ast.dump(Norm().visit(ast.parse(ast.unparse(g))))
    return hashlib.sha1(d.encode()).hexdigest()[:10]

KIND_OF_SHAPE = {
    '406d435790': 'id', 'c3d47fd99c': 'id', 'ff413233d6': 'id-via-save-prefix', '0147376ccd': 'id', '0b97ac0608': 'id', '38fac08072': 'id',
    '5a3380b9ab': 'bool', '724723e6c1': 'enum', '3505b4a7e5': 'enum', '737de153e1': 'enum1',
    'b2f997eabf': 'pattern', '764544c387': 'pattern', 'fd125a6dfb': 'pattern', '7f316f8788': 'pattern-via-save-prefix',
    '6da6b9be67': 'length-or-percent', '82769d601f': 'ncname',
}
HELPER_SHAPES = {'make_NCName': '86d2da08ae', '__save_prefix': 'f737f70ebe'}

def analyse():
    import odf.attrconverters as AC
    src = open(AC.__file__.replace('.pyc', '.py'), encoding='utf-8').read()
    tree = ast.parse(src)
    funcs = {n.name: n for n in tree.body if isinstance(n, ast.FunctionDef)}
    pats = {}; consts = {}
    def const_str(x):
        """string constants, names bound to them at module level, and their concatenations"""
        if isinstance(x, ast.Constant) and isinstance(x.value, str): return x.value
        if isinstance(x, ast.Name) and x.id in consts: return consts[x.id]
        if isinstance(x, ast.BinOp) and isinstance(x.op, ast.Add): return const_str(x.left) + const_str(x.right)
        raise SystemExit('translator: cannot evaluate the pattern expression ' + ast.unparse(x))
    for n in tree.body:
        if isinstance(n, ast.Assign) and len(n.targets) == 1 and isinstance(n.targets[0], ast.Name):
            if isinstance(n.value, ast.Constant) and isinstance(n.value.value, str): consts[n.targets[0].id] = n.value.value
            elif isinstance(n.value, ast.Call) and getattr(n.value.func, 'attr', None) == 'compile':
                if len(n.value.args) != 1: raise SystemExit('translator: %s is compiled with flags, which are not modelled' % n.targets[0].id)
                pats[n.targets[0].id] = const_str(n.value.args[0])
    for h, want in HELPER_SHAPES.items():
        if shape_of(funcs[h]) != want: raise SystemExit('translator: the source of %s changed shape; its model must be re-derived' % h)
    mangle_chars = None
    for t in ast.walk(funcs['make_NCName']):
        if isinstance(t, ast.Tuple) and all(isinstance(e, ast.Constant) and isinstance(e.value, str) and len(e.value) == 1 for e in t.elts):
            mangle_chars = [ord(e.value) for e in t.elts]
    kinds = {}
    def pattern_kind(f):
        names = [t.id for t in ast.walk(f) if isinstance(t, ast.Name) and t.id.startswith('pattern_')]
        modes = [t.attr for t in ast.walk(f) if isinstance(t, ast.Attribute) and t.attr in ('match', 'fullmatch', 'search')]
        if len(set(names)) != 1 or len(modes) != 1 or modes[0] == 'search': raise SystemExit('translator: cannot read the pattern use of ' + f.name)
        r, anchored = relib.parse(pats[names[0]], 'python')
        return ('pat', r) if (anchored or modes[0] == 'fullmatch') else ('patprefix', r)
    for name, f in funcs.items():
        if not name.startswith('cnv_'): continue
        sh = shape_of(f); k = KIND_OF_SHAPE.get(sh)
        if k is None: raise SystemExit('translator: converter %s has an unknown shape (%s); its model must be written' % (name, sh))
        if k.startswith('id'): kinds[name] = ('id',)
        elif k == 'bool':
            tups = [[e.value for e in t.elts] for t in ast.walk(f) if isinstance(t, ast.Tuple) and all(isinstance(e, ast.Constant) for e in t.elts)]
            rets = [t.value.value for t in ast.walk(f) if isinstance(t, ast.Return) and isinstance(t.value, ast.Constant)]
            if len(tups) != 2 or rets != ['false', 'true']: raise SystemExit('translator: cannot read cnv_boolean')
            kinds[name] = ('bool', tups[0], tups[1])
        elif k == 'enum':
            tups = [[e.value for e in t.elts] for t in ast.walk(f) if isinstance(t, ast.Tuple) and all(isinstance(e, ast.Constant) for e in t.elts)]
            kinds[name] = ('enum', tups[0])
        elif k == 'enum1':
            cs = [t.comparators[0].value for t in ast.walk(f) if isinstance(t, ast.Compare)]
            kinds[name] = ('enum', cs[:1])
        elif k.startswith('pattern'): kinds[name] = pattern_kind(f)
        elif k == 'ncname': kinds[name] = ('mangle', mangle_chars)
    lp = funcs['cnv_lengthorpercent']
    called = [t.func.id for t in ast.walk(lp) if isinstance(t, ast.Call) and isinstance(t.func, ast.Name) and t.func.id.startswith('cnv_')]
    if called != ['cnv_length', 'cnv_percent'] or kinds['cnv_length'][0] != 'pat' or kinds['cnv_percent'][0] != 'pat':
        raise SystemExit('translator: cnv_lengthorpercent is no longer length-then-percent over anchored patterns')
    kinds['cnv_lengthorpercent'] = ('union', kinds['cnv_length'][1], kinds['cnv_percent'][1])
    table = {}
    for (a, el), f in AC.attrconverters.items():
        table[((str(a[0]), str(a[1])), None if el is None else (str(el[0]), str(el[1])))] = f.__name__
    return kinds, table

def stype_of(d):
    """descriptor -> stype term (upper bounds where the lexical space is not modelled exactly)"""
    t = d[0]
    if t == 'value': return ('values', [d[1]])
    if t == 'data':
        if d[2] is not None:
            try: return ('pat', relib.parse(d[2], 'xsd')[0])
            except ValueError: return ('any',)
        if d[1] in ('NCName', 'ID', 'IDREF'): return ('nocolonspace',)
        if d[1] == 'language': return ('pat', relib.parse('[a-zA-Z]{1,8}(-[a-zA-Z0-9]{1,8})*', 'xsd')[0])      # XML Schema part 2, 3.3.3
        return ('any',)
    if t == 'choice':
        parts = [stype_of(x) for x in d[1]]
        vals = []
        rest = []
        for p in parts:
            if p[0] == 'values': vals += p[1]
            elif p not in rest: rest.append(p)
        if vals: rest = [('values', sorted(set(vals)))] + rest
        if ('any',) in rest: return ('any',)
        r = rest[-1]
        for p in reversed(rest[:-1]): r = ('choice', p, r)
        return r
    if t == 'list':
        # a white-space separated list; modelled exactly when it is four integers (svg:viewBox), else an upper bound
        inner = d[1]
        if inner[0] == 'seq' and len(inner[1]) == 4 and all(x == ('data', 'integer', None) for x in inner[1]):
            ws = '[ \\t\\r\\n]'
            return ('pat', relib.parse(ws + '*[-+]?[0-9]+(' + ws + '+[-+]?[0-9]+){3}' + ws + '*', 'xsd')[0])
        return ('any',)
    if t == 'empty': return ('values', [''])
    return ('any',)

def coq_stype(s):
    if s[0] == 'any': return 'SAny'
    if s[0] == 'values': return '(SValues [%s])' % '; '.join(cstr(v) for v in s[1])
    if s[0] == 'pat': return '(SPat %s)' % relib.coq(s[1])
    if s[0] == 'nocolonspace': return 'SNoColonSpace'
    return '(SChoice %s %s)' % (coq_stype(s[1]), coq_stype(s[2]))

def coq_kind(k):
    if k[0] == 'id': return 'KId'
    if k[0] == 'bool': return '(KBool [%s] [%s])' % ('; '.join(cstr(v) for v in k[1]), '; '.join(cstr(v) for v in k[2]))
    if k[0] == 'enum': return '(KEnum [%s])' % '; '.join(cstr(v) for v in k[1])
    if k[0] == 'pat': return '(KPat %s)' % relib.coq(k[1])
    if k[0] == 'patprefix': return '(KPatPrefix %s)' % relib.coq(k[1])
    if k[0] == 'union': return '(KUnion %s %s)' % (relib.coq(k[1]), relib.coq(k[2]))
    if k[0] == 'mangle': return '(KMangle [%s])' % '; '.join(str(c) for c in k[1])
    raise ValueError(k)

VERIF = os.path.dirname(os.path.dirname(os.path.dirname(os.path.abspath(__file__))))
def item_key(kind, el, a): return '%s %s:%s %s:%s' % (kind, el[0], el[1], a[0], a[1])
def deviations():
    import json
    out = {'ACCEPT': set(), 'STRICT': set()}
    try: kf = json.load(open(os.path.join(VERIF, 'known_findings.json')))
    except Exception: return out
    for f in kf.get('findings', []):
        if f.get('property') != 'C15': continue
        for it in f.get('class', {}).get('item', []): out.setdefault(it.split(' ', 1)[0], set()).add(it)
    return out

def gen():
    import odf
    kinds, table = analyse()
    dev = deviations()
    S = rnglib.odf12(os.path.dirname(os.path.dirname(os.path.abspath(odf.__file__))))
    T = rnglib.attr_types(S)
    fnames = sorted(kinds)
    fidx = {f: i for i, f in enumerate(fnames)}
    inst = sorted(T)
    # distinct stypes and the instances as (function index, stype index); the converter lookup of AttrConverters.convert is done here
    stypes = []; sidx = {}
    rows = []; twin_rows = []
    for (el, a) in inst:
        f = table.get((a, el)) or table.get((a, None))
        st = stype_of(T[(el, a)])
        key = coq_stype(st)
        if key not in sidx: sidx[key] = len(stypes); stypes.append(key)
        rows.append('(%s, %d)' % ('None' if f is None else 'Some %d' % fidx[f], sidx[key]))
        twin_rows.append([list(el), list(a), f, sidx[key]])
    dev_accept = [i for i, (el, a) in enumerate(inst) if item_key('ACCEPT', el, a) in dev['ACCEPT']]
    dev_strict = [i for i, (el, a) in enumerate(inst) if item_key('STRICT', el, a) in dev['STRICT']]
    v = HEADER.replace('model.Base.', 'model.Base model.Regex model.Convert.') + '''
(* converter functions of odf/attrconverters.py, in the order: %s *)
Definition conv_kinds : list ckind :=
[
%s].

(* the lexical spaces occurring in the schema *)
Definition schema_types : list stype :=
[
%s].

(* every (element, attribute) instance of the schema: the converter AttrConverters.convert picks (None: plain str()), its lexical space *)
Definition instances : list (option N * N) :=
%s.

(* recorded deviations (known_findings.json, C15), as positions in [instances] *)
Definition dev_accept : list N := [%s].
Definition dev_strict : list N := [%s].
''' % (', '.join(fnames), ';\n'.join('   ' + coq_kind(kinds[f]) for f in fnames), ';\n'.join('   ' + s for s in stypes), wrap(rows, 12), '; '.join(map(str, dev_accept)), '; '.join(map(str, dev_strict)))
    yield 'GenConv.v', v, {'functions': fnames, 'instances': twin_rows, 'kinds': {f: kinds[f][0] for f in fnames}}
