# GenChars.v — what the text-level printer of odf/element.py does to every single
# code point (all 0x110000 of them, lone surrogates included).
import io
from .coqfmt import *

def runs(cps):
    out = []
    for c in cps:
        if out and out[-1][1] == c - 1: out[-1][1] = c
        else: out.append([c, c])
    return [(a, b) for a, b in out]

def gen():
    import odf.element as E
    allcp = ''.join(chr(c) for c in range(0x110000))
    filt = E._handle_unrepresentable(allcp)
    if len(filt) != 0x110000:
        raise SystemExit('translator: _handle_unrepresentable is not length-preserving')
    replaced = []
    for c in range(0x110000):
        if filt[c] != allcp[c]:
            if filt[c] != '�':
                raise SystemExit('translator: code point %#x is replaced by %r, not U+FFFD' % (c, filt[c]))
            replaced.append(c)
    franges = runs(replaced)
    # per code point: Text.toXml, _quoteattr (without the quotes), CDATASection.toXml
    text_esc = []; attr_esc = []; attr_quote = []; cdata_esc = []
    T = E.Text; C = E.CDATASection
    for c in range(0x110000):
        ch = chr(c)
        f = io.StringIO(); T(ch).toXml(0, f); o = f.getvalue()
        exp = filt[c]
        if o != exp: text_esc.append((c, o))
        q = E._quoteattr(ch)
        if len(q) < 2 or q[0] != q[-1] or q[0] not in '"\'':
            raise SystemExit('translator: _quoteattr(%#x) = %r is not a quoted string' % (c, q))
        if q[0] != '"': attr_quote.append((c, q[0]))
        if q[1:-1] != exp: attr_esc.append((c, q[1:-1]))
        f = io.StringIO(); C(ch).toXml(0, f); o = f.getvalue()
        if o != '<![CDATA[' + exp + ']]>': cdata_esc.append((c, o))
    data = {'filtered_ranges': franges, 'text_esc': text_esc, 'attr_esc': attr_esc, 'attr_quote': attr_quote, 'cdata_esc': cdata_esc,
            'prologue': __import__('odf.opendocument').opendocument._XMLPROLOGUE}
    v = HEADER + '''
(* code points replaced by U+FFFD by _handle_unrepresentable, as closed intervals *)
Definition filtered_ranges : list (N * N) :=
%s.

(* single code points c for which Text(c).toXml differs from the filtered c *)
Definition text_esc : list (N * list N) := %s.
(* same for _quoteattr(c) without its quotes *)
Definition attr_esc : list (N * list N) := %s.
(* single code points for which _quoteattr picks a quote other than the double quote *)
Definition attr_quote : list (N * N) := %s.
(* single code points c for which CDATASection(c).toXml is not <![CDATA[c]]> *)
Definition cdata_esc : list (N * list N) := %s.
(* opendocument._XMLPROLOGUE *)
Definition xml_prologue : list N := %s.
''' % (wrap([cpair(n(a), n(b)) for a, b in franges], 6),
       clist([cpair(n(c), cstr(o)) for c, o in text_esc]),
       clist([cpair(n(c), cstr(o)) for c, o in attr_esc]),
       clist([cpair(n(c), n(ord(o))) for c, o in attr_quote]),
       clist([cpair(n(c), cstr(o)) for c, o in cdata_esc]),
       cstr(data['prologue']))
    yield 'GenChars.v', v, data
