# GenNs.v — odf.namespaces.nsdict as the process starts with it, TOOLSVERSION
from .coqfmt import *

def gen():
    import odf.namespaces as NSM
    items = list(NSM.nsdict.items())
    for k, v in items:
        if not isinstance(k, str) or not isinstance(v, str):
            raise SystemExit('translator: nsdict entry %r: %r is not str -> str' % (k, v))
    data = {'nsdict': items, 'toolsversion': NSM.TOOLSVERSION}
    v = HEADER + '''
(* namespaces.nsdict at import time: (namespace name, prefix) in insertion order *)
Definition nsdict_init : list (list N * list N) :=
%s.

Definition toolsversion : list N := %s.
''' % (wrap([cpair(cstr(k), cstr(p)) for k, p in items], 1), cstr(NSM.TOOLSVERSION))
    yield 'GenNs.v', v, data
