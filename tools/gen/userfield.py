# GenUserField.v — odf.userfield.VALUE_TYPES
from .coqfmt import *
def gen():
    import odf.userfield as U
    from odf.namespaces import OFFICENS
    rows = []
    for k, v in sorted(U.VALUE_TYPES.items()):
        if v[0] != OFFICENS: raise SystemExit('translator: VALUE_TYPES[%r] is not an office: attribute' % k)
        rows.append((k, v[1]))
    v = HEADER + '''
(* userfield.VALUE_TYPES: value type -> local name of the office: attribute holding the value *)
Definition value_types : list (list N * list N) :=
%s.
''' % wrap([cpair(cstr(a), cstr(b)) for a, b in rows], 1)
    yield 'GenUserField.v', v, {'value_types': rows}
