# GenStyleRefs.v — the style reference attributes the working tree scans (opendocument._STYLE_REFERENCE_ATTRIBUTES, or the
# tuple inside _parseoneelement of older trees) and the ones the ODF 1.2 schema defines (attributes of type styleNameRef/styleNameRefs)
import os, ast, xml.etree.ElementTree as ET
from .coqfmt import *
RNG = '{http://relaxng.org/ns/structure/1.0}'

def scanned():
    import odf.opendocument as O
    if hasattr(O, '_STYLE_REFERENCE_ATTRIBUTES'):
        return sorted((str(a), str(b)) for a, b in O._STYLE_REFERENCE_ATTRIBUTES)
    # fall back: the literal tuple of (NS, name) pairs inside _parseoneelement / _scanoneelement
    src = open(O.__file__.replace('.pyc', '.py'), encoding='utf-8').read()
    tree = ast.parse(src)
    out = []
    for fn in ast.walk(tree):
        if isinstance(fn, ast.FunctionDef) and fn.name in ('_parseoneelement', '_scanoneelement'):
            for t in ast.walk(fn):
                if isinstance(t, ast.Tuple) and len(t.elts) == 2 and isinstance(t.elts[0], ast.Name) and isinstance(t.elts[1], ast.Constant) \
                   and t.elts[0].id.endswith('NS') and hasattr(O, t.elts[0].id):
                    out.append((str(getattr(O, t.elts[0].id)), str(t.elts[1].value)))
    if not out: raise SystemExit('translator: cannot find the style reference attributes scanned by opendocument.py')
    return sorted(set(out))

def schema():
    import odf
    repo = os.path.dirname(os.path.dirname(odf.__file__))
    fn = os.path.join(repo, 'grammar', 'OpenDocument-schema-v1.2-cd04.rng')
    root = ET.parse(fn).getroot()
    # prefix -> namespace from the schema's own declarations
    nsmap = {}
    for ev, (p, u) in ET.iterparse(fn, events=['start-ns']): nsmap[p] = u
    out = set()
    for a in root.iter(RNG + 'attribute'):
        nm = a.get('name')
        if nm is None: continue
        if any(d.get('name') in ('styleNameRef', 'styleNameRefs') for d in a.iter(RNG + 'ref')):
            p, l = nm.split(':', 1)
            out.add((nsmap[p], l))
    return sorted(out)

def redirect_exclusions():
    """the reference attributes build_caches does NOT redirect after a rename: (attributes, (element, attribute) pairs)"""
    import odf.opendocument as O
    ex = sorted((str(a), str(b)) for a, b in getattr(O, '_NOT_STYLE_STYLE_REFERENCES', ()))
    on = sorted(((str(e[0]), str(e[1])), (str(a[0]), str(a[1]))) for e, a in getattr(O, '_NOT_STYLE_STYLE_REFERENCES_ON', ()))
    # the table build_caches consults: fail closed if it is not the one exported above
    src = open(O.__file__.replace('.pyc', '.py'), encoding='utf-8').read()
    tree = ast.parse(src)
    used = set()
    for fn in ast.walk(tree):
        if isinstance(fn, ast.FunctionDef) and fn.name == 'build_caches':
            for t in ast.walk(fn):
                if isinstance(t, ast.Name) and t.id.startswith('_') and t.id.isupper(): used.add(t.id)
    return ex, on, sorted(used)

def gen():
    sc = scanned(); sm = schema(); ex, on, used = redirect_exclusions()
    v = HEADER + '''
(* style reference attributes scanned by the working tree when it selects automatic styles *)
Definition scanned_refattrs : list (list N * list N) :=
%s.

(* attributes of type styleNameRef / styleNameRefs in grammar/OpenDocument-schema-v1.2-cd04.rng *)
Definition schema_refattrs : list (list N * list N) :=
%s.

(* reference attributes the loader leaves alone after a rename (opendocument._NOT_STYLE_STYLE_REFERENCES) *)
Definition redirect_excluded : list (list N * list N) :=
%s.

(* (element, attribute) pairs the loader leaves alone after a rename (opendocument._NOT_STYLE_STYLE_REFERENCES_ON) *)
Definition redirect_excluded_on : list ((list N * list N) * (list N * list N)) :=
%s.
''' % (wrap([cpair(cstr(a), cstr(b)) for a, b in sc], 1), wrap([cpair(cstr(a), cstr(b)) for a, b in sm], 1),
       wrap([cpair(cstr(a), cstr(b)) for a, b in ex], 1), wrap([cpair(cpair(cstr(e[0]), cstr(e[1])), cpair(cstr(a[0]), cstr(a[1]))) for e, a in on], 1))
    yield 'GenStyleRefs.v', v, {'scanned': sc, 'schema': sm, 'redirect_excluded': ex, 'redirect_excluded_on': [[list(e), list(a)] for e, a in on], 'build_caches_tables': used}
