# GenSites.v — every place in the odf package where an XML parser is constructed or an XML parse function is
# called, found by an ast walk with import resolution (fail closed: an unresolvable xml-ish callee is reported as unguarded)
import ast, os, glob
from .coqfmt import *

PARSE_FUNCS = {'make_parser', 'parseString', 'parse', 'fromstring', 'XML', 'iterparse', 'create_parser', 'ParserCreate',
               'ExpatParser', 'XMLParser', 'pulldom', 'XMLPullParser', 'fromstringlist', 'XMLID'}
XML_ROOTS = ('xml', 'defusedxml', 'lxml', 'pyexpat', 'expat', 'xmlrpc')

def resolve(node, env):
    """dotted name of a call target after import resolution, or None"""
    parts = []
    while isinstance(node, ast.Attribute):
        parts.append(node.attr); node = node.value
    if not isinstance(node, ast.Name): return None
    parts.append(node.id); parts.reverse()
    head = env.get(parts[0])
    if head is None: return None
    return '.'.join([head] + parts[1:])

class V(ast.NodeVisitor):
    def __init__(self, fn):
        self.fn = fn; self.env_stack = [{}]; self.scope = ['<module>']; self.sites = []
    def env(self):
        e = {}
        for x in self.env_stack: e.update(x)
        return e
    def visit_Import(self, n):
        for a in n.names:
            if a.asname: self.env_stack[-1][a.asname] = a.name
            else: self.env_stack[-1][a.name.split('.')[0]] = a.name.split('.')[0]
    def visit_ImportFrom(self, n):
        for a in n.names:
            self.env_stack[-1][a.asname or a.name] = (n.module or '') + '.' + a.name
    def _scoped(self, n):
        self.scope.append(n.name); self.env_stack.append({})
        self.generic_visit(n)
        self.env_stack.pop(); self.scope.pop()
    visit_FunctionDef = _scoped; visit_ClassDef = _scoped; visit_AsyncFunctionDef = _scoped
    def visit_Call(self, n):
        r = resolve(n.func, self.env())
        if r is not None and r.split('.')[0] in XML_ROOTS and r.split('.')[-1] in PARSE_FUNCS:
            self.sites.append((os.path.basename(self.fn), '.'.join(self.scope[1:]) or '<module>', r, n.lineno))
        self.generic_visit(n)

def gen():
    import odf
    root = os.path.dirname(odf.__file__)
    sites = []
    for fn in sorted(glob.glob(os.path.join(root, '*.py'))):
        tree = ast.parse(open(fn, encoding='utf-8').read(), fn)
        v = V(fn); v.visit(tree); sites += v.sites
    rows = [(f, func, callee, callee.startswith('defusedxml.')) for f, func, callee, line in sites]
    v = HEADER + '''
(* XML parser construction / parse-call sites of the odf package: (file, function, resolved callee, callee is defusedxml's) *)
Definition parser_sites : list (list N * list N * list N * bool) :=
%s.
''' % wrap(['(%s, %s, %s, %s)' % (cstr(a), cstr(b), cstr(c), 'true' if g else 'false') for a, b, c, g in rows], 1)
    yield 'GenSites.v', v, {'sites': [list(r) for r in rows]}
