# GenGrammar.v — the four tables of odf/grammar.py (as imported from the working tree), what the ODF 1.2 RELAX NG schema
# permits (tools/rnglib.py over grammar/OpenDocument-schema-v1.2-cd04.rng), the element factories of the odf package
# (every public callable of the factory modules, called with check_grammar=False), and the recorded deviations
# (/verif/known_findings.json, property C06) — all over one numbering of element and attribute names.
import os, json, importlib, inspect
from .coqfmt import *
import rnglib

FACTORY_MODULES = ['anim', 'chart', 'config', 'dc', 'dr3d', 'draw', 'form', 'manifest', 'math', 'meta', 'number', 'office',
                   'presentation', 'script', 'style', 'svg', 'table', 'text', 'xforms']
VERIF = os.path.dirname(os.path.dirname(os.path.dirname(os.path.abspath(__file__))))

def factories():
    """[(module.name, qname of the element it returns)]"""
    import odf.element
    out = []
    for m in FACTORY_MODULES:
        mod = importlib.import_module('odf.' + m)
        for name, f in sorted(vars(mod).items()):
            if name.startswith('_') or not inspect.isfunction(f) or f.__module__ != mod.__name__: continue
            try:
                e = f(check_grammar=False)
            except Exception:
                continue
            if isinstance(e, odf.element.Element):
                out.append((m + '.' + name, (str(e.qname[0]), str(e.qname[1]))))
    return out

def collect():
    import odf, odf.grammar as G
    repo = os.path.dirname(os.path.dirname(os.path.abspath(odf.__file__)))
    S = rnglib.odf12(repo)
    q = lambda x: (str(x[0]), str(x[1]))
    g_children = {q(k): (None if v is None else [q(c) for c in v]) for k, v in G.allowed_children.items()}
    g_text = [q(k) for k in G.allows_text]
    g_attrs = {q(k): (None if v is None else [q(c) for c in v]) for k, v in G.allowed_attributes.items()}
    g_req = {q(k): [q(c) for c in (v or ())] for k, v in G.required_attributes.items()}
    fac = factories()
    elems = set(S.elements) | set(g_children) | set(g_attrs) | set(g_req) | set(g_text) | set(e for _, e in fac)
    for v in list(g_children.values()) + [list(x[0]) for x in S.elements.values()]:
        for c in (v or []):
            if c != rnglib.ANY: elems.add(c)
    attrs = set()
    for v in list(g_attrs.values()) + list(g_req.values()) + [list(x[2]) for x in S.elements.values()]:
        for a in (v or []):
            if a != rnglib.ANY: attrs.add(a)
    elems = sorted(elems); attrs = sorted(attrs)
    return dict(S=S, g_children=g_children, g_text=g_text, g_attrs=g_attrs, g_req=g_req, fac=fac, elems=elems, attrs=attrs,
                schema_elems=sorted(S.elements))

def item_key(kind, el, other=None):
    return '%s %s:%s' % (kind, el[0], el[1]) + ('' if other is None else ' %s:%s' % (other[0], other[1]))

def deviations():
    """{kind: set of item keys} from the committed known-findings file"""
    out = {'CHILD': set(), 'TEXT': set(), 'ATTR': set(), 'ATTRNONE': set(), 'REQ': set(), 'FACTORY': set(), 'UNKNOWN': set()}
    try: kf = json.load(open(os.path.join(VERIF, 'known_findings.json')))
    except Exception: return out
    for f in kf.get('findings', []):
        if f.get('property') != 'C06': continue
        for it in f.get('class', {}).get('item', []):
            out.setdefault(it.split(' ', 1)[0], set()).add(it)
    return out

def gen():
    d = collect(); S = d['S']
    ei = {e: i for i, e in enumerate(d['elems'])}; ai = {a: i for i, a in enumerate(d['attrs'])}
    dev = deviations()
    N = lambda i: '%d' % i
    def nlist(xs): return '[' + '; '.join(N(x) for x in xs) + ']'
    def optlist(v, idx): return 'None' if v is None else 'Some ' + nlist(sorted(idx[c] for c in v))
    rows = []
    # schema rows: (element, ((any child, children), chardata, (any attr, attrs), required))
    s_rows = []
    for e in d['schema_elems']:
        ch, chars, at, rq = S.elements[e]
        s_rows.append('(%s, ((%s, %s), %s, (%s, %s), %s))' % (N(ei[e]), 'true' if rnglib.ANY in ch else 'false', nlist(sorted(ei[c] for c in ch if c != rnglib.ANY)),
                      'true' if chars else 'false', 'true' if rnglib.ANY in at else 'false', nlist(sorted(ai[a] for a in at if a != rnglib.ANY)), nlist(sorted(ai[a] for a in rq))))
    def devpairs(kind, idx2):
        out = []
        for it in sorted(dev.get(kind, ())):
            parts = it.split(' ')
            el = tuple(parts[1].rsplit(':', 1));
            if el not in ei: continue
            if len(parts) > 2:
                o = tuple(parts[2].rsplit(':', 1))
                if o not in idx2: continue
                out.append('(%s, %s)' % (N(ei[el]), N(idx2[o])))
            else:
                out.append(N(ei[el]))
        return '[' + '; '.join(out) + ']'
    v = HEADER + '''
(* numbering: elements 0..%d, attributes 0..%d (sorted by namespace, local name); local names of the attributes *)
Definition n_elems : N := %d.
Definition n_attrs : N := %d.
Definition attr_local : list (N * list N) :=
%s.

(* the ODF 1.2 schema: element -> ((wildcard child?, child elements), character content?, (wildcard attribute?, attributes), required attributes) *)
Definition schema_rows : list (N * ((bool * list N) * bool * (bool * list N) * list N)) :=
%s.

(* odf/grammar.py *)
Definition g_children : list (N * option (list N)) :=
%s.
Definition g_text : list N := %s.
Definition g_attrs : list (N * option (list N)) :=
%s.
Definition g_required : list (N * list N) :=
%s.

(* the elements the factories of the odf package return *)
Definition factory_elems : list N := %s.

(* recorded deviations (known_findings.json, C06) *)
Definition dev_unknown : list N := %s.
Definition dev_child : list (N * N) := %s.
Definition dev_text : list N := %s.
Definition dev_attr : list (N * N) := %s.
Definition dev_attrnone : list N := %s.
Definition dev_req : list (N * N) := %s.
Definition dev_factory : list N := %s.
''' % (len(d['elems']) - 1, len(d['attrs']) - 1, len(d['elems']), len(d['attrs']),
       wrap(['(%s, %s)' % (N(ai[a]), cstr(a[1])) for a in d['attrs']], 4),
       wrap(s_rows, 1),
       wrap(['(%s, %s)' % (N(ei[k]), optlist(vv, ei)) for k, vv in sorted(d['g_children'].items())], 1),
       nlist(sorted(ei[e] for e in d['g_text'])),
       wrap(['(%s, %s)' % (N(ei[k]), optlist(vv, ai)) for k, vv in sorted(d['g_attrs'].items())], 1),
       wrap(['(%s, %s)' % (N(ei[k]), nlist(sorted(ai[a] for a in vv))) for k, vv in sorted(d['g_req'].items())], 1),
       nlist(sorted(set(ei[e] for _, e in d['fac']))),
       devpairs('UNKNOWN', None), devpairs('CHILD', ei), devpairs('TEXT', None), devpairs('ATTR', ai), devpairs('ATTRNONE', None), devpairs('REQ', ai), devpairs('FACTORY', None))
    twin = {'elems': [list(e) for e in d['elems']], 'attrs': [list(a) for a in d['attrs']], 'schema_elems': [list(e) for e in d['schema_elems']],
            'factories': [[n, list(e)] for n, e in d['fac']]}
    yield 'GenGrammar.v', v, twin
