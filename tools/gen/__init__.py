# one generator function per generated Coq file; each yields (filename, coq text, json twin)
from . import ns, chars, userfield, sites, stylerefs, grammar, converters
ALL = [ns.gen, chars.gen, userfield.gen, sites.gen, stylerefs.gen, grammar.gen, converters.gen]
