# rnglib.py — what the ODF 1.2 RELAX NG schema permits, per element name: child elements, character content,
# attributes, required attributes. A small interpreter of the patterns the schema uses (element, attribute, ref/define with
# combine, group, interleave, choice, optional, zeroOrMore, oneOrMore, mixed, text, data, value, list, empty, name classes).
import os, collections, xml.etree.ElementTree as ET
R = '{http://relaxng.org/ns/structure/1.0}'
ANY = 'ANY'

class Schema:
    def __init__(self, fn):
        self.nsmap = {'xml': 'http://www.w3.org/XML/1998/namespace'}
        for ev, (p, u) in ET.iterparse(fn, events=['start-ns']): self.nsmap[p] = u
        self.root = ET.parse(fn).getroot()
        self.defs = collections.defaultdict(list)
        for d in self.root.iter(R + 'define'): self.defs[d.get('name')].append(d)
        self.memo = {}
        self.elements = {}          # qname -> (children, chardata, attrs, required); ANY marks a wildcard
        for e in self.root.iter(R + 'element'):
            names, body = self.split(e)
            res = self.group(body, ())
            for nm in names:
                if nm == ANY: continue
                if nm in self.elements:
                    o = self.elements[nm]
                    self.elements[nm] = (o[0] | res[0], o[1] or res[1], o[2] | res[2], o[3] & res[3])
                else:
                    self.elements[nm] = res

    def qn(self, n):
        n = n.strip()
        if ':' in n:
            p, l = n.split(':', 1); return (self.nsmap[p], l)
        return ('', n)

    @staticmethod
    def tag(n): return n.tag[len(R):] if n.tag.startswith(R) else None

    def names_of(self, nc):
        t = self.tag(nc)
        if t == 'name': return [self.qn(nc.text)]
        if t in ('anyName', 'nsName'): return [ANY]
        if t == 'choice': return [x for c in nc for x in self.names_of(c)]
        raise SystemExit('rnglib: unknown name class ' + str(nc.tag))

    def split(self, n):
        """(names, content patterns) of an element or attribute pattern"""
        kids = list(n)
        if n.get('name'): return [self.qn(n.get('name'))], kids
        return self.names_of(kids[0]), kids[1:]

    def group(self, nodes, stack):
        ch = set(); chars = False; attrs = set(); req = set()
        for n in nodes:
            c, t, a, r = self.one(n, stack)
            ch |= c; chars |= t; attrs |= a; req |= r
        return ch, chars, attrs, req

    def one(self, n, stack):
        t = self.tag(n)
        if t == 'element': return (set(self.split(n)[0]), False, set(), set())
        if t == 'attribute':
            nc = set(self.split(n)[0]); return (set(), False, nc, set(x for x in nc if x != ANY))
        if t in ('text', 'data', 'value', 'list'): return (set(), True, set(), set())
        if t in ('empty', 'notAllowed'): return (set(), False, set(), set())
        if t == 'ref':
            nm = n.get('name')
            if nm in stack: return (set(), False, set(), set())
            if nm in self.memo: return self.memo[nm]
            ds = self.defs[nm]
            if not ds: raise SystemExit('rnglib: undefined pattern ' + nm)
            parts = [self.group(list(d), stack + (nm,)) for d in ds]
            comb = set(d.get('combine') for d in ds if d.get('combine'))
            ch = set().union(*[p[0] for p in parts]); chars = any(p[1] for p in parts); attrs = set().union(*[p[2] for p in parts])
            req = set.intersection(*[p[3] for p in parts]) if 'choice' in comb else set().union(*[p[3] for p in parts])
            self.memo[nm] = (ch, chars, attrs, req)
            return self.memo[nm]
        if t in ('group', 'interleave', 'oneOrMore'): return self.group(list(n), stack)
        if t == 'mixed':
            c, _, a, r = self.group(list(n), stack); return (c, True, a, r)
        if t in ('optional', 'zeroOrMore'):
            c, tx, a, r = self.group(list(n), stack); return (c, tx, a, set())
        if t == 'choice':
            parts = [self.one(c, stack) for c in n]
            return (set().union(*[p[0] for p in parts]), any(p[1] for p in parts), set().union(*[p[2] for p in parts]),
                    set.intersection(*[p[3] for p in parts]) if parts else set())
        raise SystemExit('rnglib: unknown pattern ' + str(n.tag))

def odf12(repo):
    return Schema(os.path.join(repo, 'grammar', 'OpenDocument-schema-v1.2-cd04.rng'))

# ---------------------------------------------------------------------------------------------------------------------
# datatypes of attributes: a small descriptor language
#   ('data', xsdtype, pattern|None) | ('value', literal) | ('choice', [d...]) | ('list', d) | ('star', d) | ('plus', d)
#   | ('seq', [d...]) | ('empty',) | ('text',)
def attr_types(S):
    """{(element qname, attribute qname): descriptor} for every attribute pattern with a fixed name, per element it can occur on"""
    memo = {}
    def desc(n, stack=()):
        t = S.tag(n)
        if t == 'data':
            pat = None
            for p in n:
                if S.tag(p) == 'param' and p.get('name') == 'pattern': pat = (p.text or '')
            return ('data', n.get('type'), pat)
        if t == 'value': return ('value', (n.text or ''))
        if t == 'text': return ('text',)
        if t == 'empty': return ('empty',)
        if t == 'ref':
            nm = n.get('name')
            if nm in stack: return ('text',)
            if nm not in memo:
                ds = S.defs[nm]
                parts = [seq([desc(c, stack + (nm,)) for c in d]) for d in ds]
                memo[nm] = parts[0] if len(parts) == 1 else ('choice', parts)
            return memo[nm]
        if t == 'choice': return ('choice', [desc(c, stack) for c in n])
        if t == 'list': return ('list', seq([desc(c, stack) for c in n]))
        if t == 'zeroOrMore': return ('star', seq([desc(c, stack) for c in n]))
        if t == 'oneOrMore': return ('plus', seq([desc(c, stack) for c in n]))
        if t == 'optional': return ('choice', [seq([desc(c, stack) for c in n]), ('empty',)])
        if t in ('group', 'interleave'): return seq([desc(c, stack) for c in n])
        raise SystemExit('rnglib: unknown datatype pattern ' + str(n.tag))
    def seq(l):
        l = [x for x in l if x is not None]
        return l[0] if len(l) == 1 else (('empty',) if not l else ('seq', l))
    # attributes reachable from each element pattern (not crossing into child elements)
    out = {}
    def walk(n, el, stack):
        t = S.tag(n)
        if t == 'element': return
        if t == 'attribute':
            names, body = S.split(n)
            d = seq([desc(c) for c in body]) if body else ('text',)
            for a in names:
                if a == ANY: continue
                k = (el, a)
                if k in out and out[k] != d: out[k] = ('choice', [out[k], d]) if d not in (out[k][1] if out[k][0] == 'choice' else []) else out[k]
                else: out[k] = d
            return
        if t == 'ref':
            nm = n.get('name')
            if nm in stack: return
            for d in S.defs[nm]:
                for c in d: walk(c, el, stack + (nm,))
            return
        for c in n: walk(c, el, stack)
    for e in S.root.iter(R + 'element'):
        names, body = S.split(e)
        for el in names:
            if el == ANY: continue
            for c in body: walk(c, el, ())
    return out
