open Ascii
open Base
open Datatypes
open List
open Package
open String

(** val part_names : str list **)

let part_names =
  (s2l (String ((Ascii (true, true, false, false, true, true, true, false)),
    (String ((Ascii (true, false, true, false, false, true, true, false)),
    (String ((Ascii (false, false, true, false, true, true, true, false)),
    (String ((Ascii (false, false, true, false, true, true, true, false)),
    (String ((Ascii (true, false, false, true, false, true, true, false)),
    (String ((Ascii (false, true, true, true, false, true, true, false)),
    (String ((Ascii (true, true, true, false, false, true, true, false)),
    (String ((Ascii (true, true, false, false, true, true, true, false)),
    (String ((Ascii (false, true, true, true, false, true, false, false)),
    (String ((Ascii (false, false, false, true, true, true, true, false)),
    (String ((Ascii (true, false, true, true, false, true, true, false)),
    (String ((Ascii (false, false, true, true, false, true, true, false)),
    EmptyString))))))))))))))))))))))))) :: ((s2l (String ((Ascii (true,
                                               false, true, true, false,
                                               true, true, false)), (String
                                               ((Ascii (true, false, true,
                                               false, false, true, true,
                                               false)), (String ((Ascii
                                               (false, false, true, false,
                                               true, true, true, false)),
                                               (String ((Ascii (true, false,
                                               false, false, false, true,
                                               true, false)), (String ((Ascii
                                               (false, true, true, true,
                                               false, true, false, false)),
                                               (String ((Ascii (false, false,
                                               false, true, true, true, true,
                                               false)), (String ((Ascii
                                               (true, false, true, true,
                                               false, true, true, false)),
                                               (String ((Ascii (false, false,
                                               true, true, false, true, true,
                                               false)),
                                               EmptyString))))))))))))))))) :: (
    (s2l (String ((Ascii (true, true, false, false, false, true, true,
      false)), (String ((Ascii (true, true, true, true, false, true, true,
      false)), (String ((Ascii (false, true, true, true, false, true, true,
      false)), (String ((Ascii (false, false, true, false, true, true, true,
      false)), (String ((Ascii (true, false, true, false, false, true, true,
      false)), (String ((Ascii (false, true, true, true, false, true, true,
      false)), (String ((Ascii (false, false, true, false, true, true, true,
      false)), (String ((Ascii (false, true, true, true, false, true, false,
      false)), (String ((Ascii (false, false, false, true, true, true, true,
      false)), (String ((Ascii (true, false, true, true, false, true, true,
      false)), (String ((Ascii (false, false, true, true, false, true, true,
      false)), EmptyString))))))))))))))))))))))) :: ((s2l (String ((Ascii
                                                        (true, true, false,
                                                        false, true, true,
                                                        true, false)),
                                                        (String ((Ascii
                                                        (false, false, true,
                                                        false, true, true,
                                                        true, false)),
                                                        (String ((Ascii
                                                        (true, false, false,
                                                        true, true, true,
                                                        true, false)),
                                                        (String ((Ascii
                                                        (false, false, true,
                                                        true, false, true,
                                                        true, false)),
                                                        (String ((Ascii
                                                        (true, false, true,
                                                        false, false, true,
                                                        true, false)),
                                                        (String ((Ascii
                                                        (true, true, false,
                                                        false, true, true,
                                                        true, false)),
                                                        (String ((Ascii
                                                        (false, true, true,
                                                        true, false, true,
                                                        false, false)),
                                                        (String ((Ascii
                                                        (false, false, false,
                                                        true, true, true,
                                                        true, false)),
                                                        (String ((Ascii
                                                        (true, false, true,
                                                        true, false, true,
                                                        true, false)),
                                                        (String ((Ascii
                                                        (false, false, true,
                                                        true, false, true,
                                                        true, false)),
                                                        EmptyString))))))))))))))))))))) :: [])))

(** val parts_under : manifest -> str -> str list **)

let parts_under m folder =
  filter (in_manifest m) (map (fun n -> app folder n) part_names)

(** val load_reads : manifest -> str list **)

let load_reads m =
  sMANIFEST :: (app (parts_under m [])
                 (flat_map (fun e ->
                   match classify m (fst e) with
                   | IsObject -> parts_under m (fst e)
                   | _ -> []) m))
