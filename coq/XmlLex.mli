open Ascii
open Base
open BinNat
open BinNums
open Chars
open Datatypes
open List
open Nat
open String

type tok =
| TkStart of str * (str * str) list
| TkEmpty of str * (str * str) list
| TkEnd of str
| TkChars of str

type attlist = (str * str) list

type mode =
| MText of str * nat
| MRefT of str * str
| MLt of str
| MBang of str * nat
| MCData of str * nat
| MTagName of str
| MAttrs of str * attlist * bool
| MAttName of str * attlist * str
| MAttNameWs of str * attlist * str
| MAttEq of str * attlist * str
| MAttVal of str * attlist * str * cp * str
| MRefA of str * attlist * str * cp * str * str
| MSlash of str * attlist
| MEndName of str
| MEndWs of str
| MBad

type lstate = { toks : tok list; md : mode }

val cBANG : cp

val cHASH : cp

val cSLASH : cp

val cSEMI : cp

val cx : cp

val dec_digit : cp -> coq_N option

val hex_digit : cp -> coq_N option

val digits_val : coq_N -> (cp -> coq_N option) -> str -> coq_N -> coq_N option

val strip_prefix : str -> str -> str option

val char_of_val : coq_N option -> cp option

val resolve_ref : str -> cp option

val ref_char : cp -> bool

val flush_text : tok list -> str -> tok list

val sCDATA_KW : str

val lstep : lstate -> cp -> lstate

val run : str -> lstate -> lstate

val linit : lstate

val lfinish : lstate -> tok list option

val eol_norm : str -> str

val skip_decl_body : str -> str option

val sXMLDECL : str

val strip_decl : str -> str option

val lex : str -> tok list option
