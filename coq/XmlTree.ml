open Ascii
open Base
open BinNat
open BinNums
open Chars
open Datatypes
open List
open String
open XmlLex
open XmlPrint

type raw =
| RElem of str * attlist * raw list
| RText of str

type frame = (str * attlist) * raw list

(** val add_child :
    raw -> frame list -> raw option -> (frame list * raw option) option **)

let add_child e stk top =
  match stk with
  | [] -> (match top with
           | Some _ -> None
           | None -> Some ([], (Some e)))
  | f :: stk' ->
    let (p, k) = f in Some (((p, (app k (e :: []))) :: stk'), top)

(** val build : tok list -> frame list -> raw option -> raw option **)

let rec build ts stk top =
  match ts with
  | [] -> (match stk with
           | [] -> top
           | _ :: _ -> None)
  | t :: r ->
    (match t with
     | TkStart (n, a) ->
       (match stk with
        | [] ->
          (match top with
           | Some _ -> None
           | None -> build r (((n, a), []) :: stk) top)
        | _ :: _ -> build r (((n, a), []) :: stk) top)
     | TkEmpty (n, a) ->
       (match add_child (RElem (n, a, [])) stk top with
        | Some p -> let (stk', top') = p in build r stk' top'
        | None -> None)
     | TkEnd n ->
       (match stk with
        | [] -> None
        | f :: stk' ->
          let (p, k) = f in
          let (n', a) = p in
          if str_eqb n n'
          then (match add_child (RElem (n', a, k)) stk' top with
                | Some p0 -> let (stk'', top') = p0 in build r stk'' top'
                | None -> None)
          else None)
     | TkChars s ->
       (match stk with
        | [] -> if forallb is_ws s then build r [] top else None
        | f :: stk' ->
          let (p, k) = f in
          build r ((p, (app k ((RText s) :: []))) :: stk') top))

type qname = str * str

type node =
| Elem of qname * (qname * str) list * node list
| TextN of str
| CDataN of str

(** val qname_eqb : qname -> qname -> bool **)

let qname_eqb a b =
  (&&) (str_eqb (fst a) (fst b)) (str_eqb (snd a) (snd b))

(** val sXMLNS : str **)

let sXMLNS =
  s2l (String ((Ascii (false, false, false, true, true, true, true, false)),
    (String ((Ascii (true, false, true, true, false, true, true, false)),
    (String ((Ascii (false, false, true, true, false, true, true, false)),
    (String ((Ascii (false, true, true, true, false, true, true, false)),
    (String ((Ascii (true, true, false, false, true, true, true, false)),
    EmptyString))))))))))

(** val sXML : str **)

let sXML =
  s2l (String ((Ascii (false, false, false, true, true, true, true, false)),
    (String ((Ascii (true, false, true, true, false, true, true, false)),
    (String ((Ascii (false, false, true, true, false, true, true, false)),
    EmptyString))))))

(** val sXML_NS : str **)

let sXML_NS =
  s2l (String ((Ascii (false, false, false, true, false, true, true, false)),
    (String ((Ascii (false, false, true, false, true, true, true, false)),
    (String ((Ascii (false, false, true, false, true, true, true, false)),
    (String ((Ascii (false, false, false, false, true, true, true, false)),
    (String ((Ascii (false, true, false, true, true, true, false, false)),
    (String ((Ascii (true, true, true, true, false, true, false, false)),
    (String ((Ascii (true, true, true, true, false, true, false, false)),
    (String ((Ascii (true, true, true, false, true, true, true, false)),
    (String ((Ascii (true, true, true, false, true, true, true, false)),
    (String ((Ascii (true, true, true, false, true, true, true, false)),
    (String ((Ascii (false, true, true, true, false, true, false, false)),
    (String ((Ascii (true, true, true, false, true, true, true, false)),
    (String ((Ascii (true, true, false, false, true, true, false, false)),
    (String ((Ascii (false, true, true, true, false, true, false, false)),
    (String ((Ascii (true, true, true, true, false, true, true, false)),
    (String ((Ascii (false, true, false, false, true, true, true, false)),
    (String ((Ascii (true, true, true, false, false, true, true, false)),
    (String ((Ascii (true, true, true, true, false, true, false, false)),
    (String ((Ascii (false, false, false, true, true, false, true, false)),
    (String ((Ascii (true, false, true, true, false, false, true, false)),
    (String ((Ascii (false, false, true, true, false, false, true, false)),
    (String ((Ascii (true, true, true, true, false, true, false, false)),
    (String ((Ascii (true, false, false, false, true, true, false, false)),
    (String ((Ascii (true, false, false, true, true, true, false, false)),
    (String ((Ascii (true, false, false, true, true, true, false, false)),
    (String ((Ascii (false, false, false, true, true, true, false, false)),
    (String ((Ascii (true, true, true, true, false, true, false, false)),
    (String ((Ascii (false, true, true, true, false, true, true, false)),
    (String ((Ascii (true, false, false, false, false, true, true, false)),
    (String ((Ascii (true, false, true, true, false, true, true, false)),
    (String ((Ascii (true, false, true, false, false, true, true, false)),
    (String ((Ascii (true, true, false, false, true, true, true, false)),
    (String ((Ascii (false, false, false, false, true, true, true, false)),
    (String ((Ascii (true, false, false, false, false, true, true, false)),
    (String ((Ascii (true, true, false, false, false, true, true, false)),
    (String ((Ascii (true, false, true, false, false, true, true, false)),
    EmptyString))))))))))))))))))))))))))))))))))))))))))))))))))))))))))))))))))))))))

(** val cCOLON : cp **)

let cCOLON =
  Npos (Coq_xO (Coq_xI (Coq_xO (Coq_xI (Coq_xI Coq_xH)))))

(** val split_colon : str -> str -> str option * str **)

let rec split_colon s acc =
  match s with
  | [] -> (None, acc)
  | c :: r ->
    if N.eqb c cCOLON
    then ((Some acc), r)
    else split_colon r (app acc (c :: []))

type nsbinds = (str * str) list

(** val lookup_str : str -> (str * str) list -> str option **)

let rec lookup_str k = function
| [] -> None
| p :: r -> let (a, b) = p in if str_eqb a k then Some b else lookup_str k r

(** val ns_decls : attlist -> nsbinds option **)

let rec ns_decls = function
| [] -> Some []
| p :: r ->
  let (n, v) = p in
  (match ns_decls r with
   | Some ds ->
     if str_eqb n sXMLNS
     then Some (([], v) :: ds)
     else let (o, l) = split_colon n [] in
          (match o with
           | Some p0 ->
             if str_eqb p0 sXMLNS
             then if (&&) ((&&) (is_ncname l) (negb (str_eqb l sXMLNS)))
                       (negb (str_eqb v []))
                  then Some ((l, v) :: ds)
                  else None
             else Some ds
           | None -> Some ds)
   | None -> None)

(** val is_decl : str -> bool **)

let is_decl n =
  (||) (str_eqb n sXMLNS)
    (let (o, _) = split_colon n [] in
     (match o with
      | Some p -> str_eqb p sXMLNS
      | None -> false))

(** val resolve_elem_name : nsbinds -> str -> qname option **)

let resolve_elem_name env n =
  let (o, l) = split_colon n [] in
  (match o with
   | Some p ->
     if (&&) (is_ncname p) (is_ncname l)
     then (match lookup_str p env with
           | Some u -> Some (u, l)
           | None -> None)
     else None
   | None ->
     if is_ncname l
     then Some ((match lookup_str [] env with
                 | Some d -> d
                 | None -> []), l)
     else None)

(** val resolve_att_name : nsbinds -> str -> qname option **)

let resolve_att_name env n =
  let (o, l) = split_colon n [] in
  (match o with
   | Some p ->
     if (&&) (is_ncname p) (is_ncname l)
     then (match lookup_str p env with
           | Some u -> Some (u, l)
           | None -> None)
     else None
   | None -> if is_ncname l then Some ([], l) else None)

(** val resolve_atts : nsbinds -> attlist -> (qname * str) list option **)

let rec resolve_atts env = function
| [] -> Some []
| p :: r ->
  let (n, v) = p in
  if is_decl n
  then resolve_atts env r
  else (match resolve_att_name env n with
        | Some q ->
          (match resolve_atts env r with
           | Some l -> Some ((q, v) :: l)
           | None -> None)
        | None -> None)

(** val nodup_by : ('a1 -> 'a1 -> bool) -> 'a1 list -> bool **)

let rec nodup_by eqb0 = function
| [] -> true
| x :: r -> (&&) (negb (existsb (eqb0 x) r)) (nodup_by eqb0 r)

(** val resolve : nsbinds -> raw -> node option **)

let rec resolve env = function
| RElem (n, atts, kids) ->
  (match ns_decls atts with
   | Some ds ->
     let env' = app ds env in
     if negb (nodup_by str_eqb (map fst atts))
     then None
     else (match resolve_elem_name env' n with
           | Some q ->
             (match resolve_atts env' atts with
              | Some qa ->
                if negb (nodup_by qname_eqb (map fst qa))
                then None
                else (match let rec go = function
                            | [] -> Some []
                            | k :: r ->
                              (match resolve env' k with
                               | Some k' ->
                                 (match go r with
                                  | Some r' -> Some (k' :: r')
                                  | None -> None)
                               | None -> None)
                            in go kids with
                      | Some ks -> Some (Elem (q, qa, ks))
                      | None -> None)
              | None -> None)
           | None -> None)
   | None -> None)
| RText s -> Some (TextN s)

(** val init_env : nsbinds **)

let init_env =
  (sXML, sXML_NS) :: []

(** val xml_parse : str -> node option **)

let xml_parse s =
  match lex s with
  | Some ts ->
    (match build ts [] None with
     | Some r -> resolve init_env r
     | None -> None)
  | None -> None

type nsenv = (str * str) list

(** val prefix_of : nsenv -> str -> str **)

let prefix_of env ns =
  match lookup_str ns env with
  | Some p -> p
  | None -> []

(** val nsprefix : nsenv -> str -> str **)

let nsprefix env ns = match ns with
| [] -> []
| _ :: _ -> prefix_of env ns

(** val tag_of : nsenv -> qname -> str **)

let tag_of env q =
  match nsprefix env (fst q) with
  | [] -> snd q
  | c :: l -> app (c :: l) (app (cCOLON :: []) (snd q))

(** val sXMLNSCOLON : str **)

let sXMLNSCOLON =
  s2l (String ((Ascii (false, false, false, false, false, true, false,
    false)), (String ((Ascii (false, false, false, true, true, true, true,
    false)), (String ((Ascii (true, false, true, true, false, true, true,
    false)), (String ((Ascii (false, false, true, true, false, true, true,
    false)), (String ((Ascii (false, true, true, true, false, true, true,
    false)), (String ((Ascii (true, true, false, false, true, true, true,
    false)), (String ((Ascii (false, true, false, true, true, true, false,
    false)), EmptyString))))))))))))))

(** val ns_dump : (coq_N * coq_N) list -> nsenv -> str **)

let ns_dump filtered env =
  flat_map (fun e ->
    app sXMLNSCOLON
      (app (snd e) (app (cEQ :: []) (quoteattr filtered (fst e))))) env

(** val att_toXml : (coq_N * coq_N) list -> nsenv -> (qname * str) -> str **)

let att_toXml filtered env a =
  app (cSP :: [])
    (app (sanitize filtered [] (tag_of env (fst a)))
      (app (cEQ :: []) (quoteattr filtered (snd a))))

(** val open_tag :
    (coq_N * coq_N) list -> nsenv -> bool -> qname -> (qname * str) list ->
    str **)

let open_tag filtered env level0 q atts =
  app (cLT :: [])
    (app (tag_of env q)
      (app (if level0 then ns_dump filtered env else [])
        (flat_map (att_toXml filtered env) atts)))

(** val node_toXml : (coq_N * coq_N) list -> nsenv -> bool -> node -> str **)

let rec node_toXml filtered env level0 = function
| Elem (q, atts, kids) ->
  app (open_tag filtered env level0 q atts)
    (match kids with
     | [] -> cSLASH :: (cGT :: [])
     | _ :: _ ->
       app (cGT :: [])
         (app (flat_map (node_toXml filtered env false) kids)
           (app (cLT :: (cSLASH :: [])) (app (tag_of env q) (cGT :: [])))))
| TextN s -> textnode_toXml filtered s
| CDataN s -> cdata_toXml filtered s

(** val write_open_tag :
    (coq_N * coq_N) list -> nsenv -> bool -> qname -> (qname * str) list ->
    str **)

let write_open_tag filtered env level0 q atts =
  app (open_tag filtered env level0 q atts) (cGT :: [])

(** val write_close_tag : nsenv -> qname -> str **)

let write_close_tag env q =
  app (cLT :: (cSLASH :: [])) (app (tag_of env q) (cGT :: []))

(** val canon_str : (coq_N * coq_N) list -> str -> str **)

let canon_str =
  handle_unrepresentable

(** val merge_text : node list -> node list **)

let rec merge_text = function
| [] -> []
| x :: r ->
  (match x with
   | TextN a ->
     (match merge_text r with
      | [] ->
        let r' = [] in (match a with
                        | [] -> r'
                        | _ :: _ -> (TextN a) :: r')
      | n :: r' ->
        (match n with
         | TextN b -> (TextN (app a b)) :: r'
         | x0 ->
           let r'0 = x0 :: r' in
           (match a with
            | [] -> r'0
            | _ :: _ -> (TextN a) :: r'0)))
   | _ -> x :: (merge_text r))

(** val canon : (coq_N * coq_N) list -> node -> node **)

let rec canon filtered = function
| Elem (q, atts, kids) ->
  Elem (q, (map (fun a -> ((fst a), (canon_str filtered (snd a)))) atts),
    (merge_text (map (canon filtered) kids)))
| TextN s -> TextN (canon_str filtered s)
| CDataN s -> TextN (canon_str filtered s)
