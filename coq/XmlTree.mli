open Ascii
open Base
open BinNat
open BinNums
open Chars
open Datatypes
open List
open String
open XmlLex
open XmlPrint

type raw =
| RElem of str * attlist * raw list
| RText of str

type frame = (str * attlist) * raw list

val add_child :
  raw -> frame list -> raw option -> (frame list * raw option) option

val build : tok list -> frame list -> raw option -> raw option

type qname = str * str

type node =
| Elem of qname * (qname * str) list * node list
| TextN of str
| CDataN of str

val qname_eqb : qname -> qname -> bool

val sXMLNS : str

val sXML : str

val sXML_NS : str

val cCOLON : cp

val split_colon : str -> str -> str option * str

type nsbinds = (str * str) list

val lookup_str : str -> (str * str) list -> str option

val ns_decls : attlist -> nsbinds option

val is_decl : str -> bool

val resolve_elem_name : nsbinds -> str -> qname option

val resolve_att_name : nsbinds -> str -> qname option

val resolve_atts : nsbinds -> attlist -> (qname * str) list option

val nodup_by : ('a1 -> 'a1 -> bool) -> 'a1 list -> bool

val resolve : nsbinds -> raw -> node option

val init_env : nsbinds

val xml_parse : str -> node option

type nsenv = (str * str) list

val prefix_of : nsenv -> str -> str

val nsprefix : nsenv -> str -> str

val tag_of : nsenv -> qname -> str

val sXMLNSCOLON : str

val ns_dump : (coq_N * coq_N) list -> nsenv -> str

val att_toXml : (coq_N * coq_N) list -> nsenv -> (qname * str) -> str

val open_tag :
  (coq_N * coq_N) list -> nsenv -> bool -> qname -> (qname * str) list -> str

val node_toXml : (coq_N * coq_N) list -> nsenv -> bool -> node -> str

val write_open_tag :
  (coq_N * coq_N) list -> nsenv -> bool -> qname -> (qname * str) list -> str

val write_close_tag : nsenv -> qname -> str

val canon_str : (coq_N * coq_N) list -> str -> str

val merge_text : node list -> node list

val canon : (coq_N * coq_N) list -> node -> node
