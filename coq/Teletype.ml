open Base
open BinNat
open Datatypes
open List

type tnode =
| TText of str
| TCData of str
| TS of nat option
| TTab
| TLineBreak
| TOther of tnode list

(** val flush : str -> tnode list **)

let flush buf = match buf with
| [] -> []
| _ :: _ -> (TText buf) :: []

(** val close_run : str -> nat option -> tnode list * str **)

let close_run buf = function
| Some n ->
  (match n with
   | O -> ([], buf)
   | S k -> ((app (flush buf) ((TS (Some (S k))) :: [])), []))
| None -> ([], buf)

(** val enc : str -> str -> nat option -> tnode list **)

let rec enc s buf sc =
  match s with
  | [] -> let (out, buf') = close_run buf sc in app out (flush buf')
  | c :: r ->
    (match sc with
     | Some k ->
       if N.eqb c cSP
       then enc r buf (Some (S k))
       else let (out, buf') = close_run buf sc in
            if N.eqb c cTAB
            then app out (app (flush buf') (TTab :: (enc r [] None)))
            else if N.eqb c cLF
                 then app out
                        (app (flush buf') (TLineBreak :: (enc r [] None)))
                 else if N.eqb c cSP
                      then app out (enc r (app buf' (cSP :: [])) (Some O))
                      else app out (enc r (app buf' (c :: [])) None)
     | None ->
       let (out, buf') = close_run buf sc in
       if N.eqb c cTAB
       then app out (app (flush buf') (TTab :: (enc r [] None)))
       else if N.eqb c cLF
            then app out (app (flush buf') (TLineBreak :: (enc r [] None)))
            else if N.eqb c cSP
                 then app out (enc r (app buf' (cSP :: [])) (Some O))
                 else app out (enc r (app buf' (c :: [])) None))

(** val encode : str -> tnode list **)

let encode s =
  enc s [] None

type allows = { a_text : bool; a_s : bool; a_tab : bool; a_lb : bool }

(** val first_refusal : allows -> tnode list -> exn option **)

let rec first_refusal al = function
| [] -> None
| t :: r ->
  (match t with
   | TText _ -> if al.a_text then first_refusal al r else Some IllegalText
   | TS _ -> if al.a_s then first_refusal al r else Some IllegalChild
   | TTab -> if al.a_tab then first_refusal al r else Some IllegalChild
   | TLineBreak -> if al.a_lb then first_refusal al r else Some IllegalChild
   | _ -> first_refusal al r)

(** val add_text_checked :
    allows -> tnode list -> str -> tnode list result **)

let add_text_checked al kids s =
  match first_refusal al (encode s) with
  | Some e -> Raise e
  | None -> Ok (app kids (encode s))

(** val extract_node : tnode -> str **)

let rec extract_node = function
| TText s -> s
| TCData _ -> []
| TS c -> (match c with
           | Some k -> repeat cSP k
           | None -> cSP :: [])
| TTab -> cTAB :: []
| TLineBreak -> cLF :: []
| TOther kids -> flat_map extract_node kids

(** val extract : tnode list -> str **)

let extract kids =
  flat_map extract_node kids
