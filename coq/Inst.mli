open Base
open BinNums
open Doc
open GenChars
open GenNs
open GenStyleRefs
open XmlLex
open XmlPrint
open XmlTree

val coq_F : (coq_N * coq_N) list

val i_text_toXml : str -> str

val i_quoteattr : str -> str

val i_cdata_toXml : str -> str

val i_node_toXml : nsenv -> bool -> node -> str

val i_canon : node -> node

val i_write_open_tag : nsenv -> bool -> qname -> (qname * str) list -> str

val i_xml_parse : str -> node option

val i_lex : str -> tok list option

val coq_RA : qname list

val i_used_auto_styles : node list -> node -> node list

val i_contentxml : nsenv -> odfdoc -> str

val i_stylesxml : nsenv -> odfdoc -> str

val i_metaxml : nsenv -> odfdoc -> odfdoc * str

val i_settingsxml : nsenv -> odfdoc -> str

val i_flatxml : nsenv -> odfdoc -> odfdoc * str
