open Datatypes

val eqb : nat -> nat -> bool

val leb : nat -> nat -> bool

val min : nat -> nat -> nat
