open Ascii
open Base
open BinNat
open BinNums
open Datatypes
open List
open NsTable
open String
open XmlLex

type part =
| PStyles
| PContent
| PSettings
| PMeta

type payload =
| DBytes of str
| DPart of part * str
| DManifest

type entry = { e_name : str; e_stored : bool; e_extra : str; e_data : payload }

type pic = { pc_name : str; pc_data : str; pc_mt : str }

type odoc =
| ODoc of str * str * bool * pic list * odoc list

val o_mt : odoc -> str

val o_folder : odoc -> str

type topdoc = { t_root : odoc; t_thumb : (str * str) option;
                t_extras : ((str * str) * str option) list }

type manifest = (str * str) list

val sTEXTXML : str

val cSLASHc : cp

val objfolder : odoc -> str

val xml_entry : str -> part -> str -> entry

val save_xml : bool -> str -> odoc -> entry list * manifest

val save_pics : str -> odoc -> entry list * manifest

val sSIG : str

val sMANIFEST : str

val sMIMETYPE : str

val sTHUMBDIR : str

val sTHUMB : str

val save_m : topdoc -> entry list * manifest

val sOBJECT : str

val add_object : str -> nat -> odoc -> str option -> odoc * str

val starts_with : str -> str -> bool

val ends_slash : str -> bool

val in_manifest : manifest -> str -> bool

val sOBJ : str

val is_object_folder : manifest -> str -> bool

val split_last_slash : str -> str -> str -> str * str

val is_xml_part_name : str -> bool

val is_object_part : manifest -> str -> bool

type disposition =
| IsPicture
| IsThumbnail
| IsRootPart
| IsRootEntry
| IsObject
| IsObjectPart
| IsExtra

val classify : manifest -> str -> disposition

val load_m :
  manifest -> (str -> str) -> str -> bool -> (str -> bool) -> topdoc
