open BinNums
open BinPos
open Datatypes
open Decimal

module N :
 sig
  val add : coq_N -> coq_N -> coq_N

  val sub : coq_N -> coq_N -> coq_N

  val mul : coq_N -> coq_N -> coq_N

  val compare : coq_N -> coq_N -> comparison

  val eqb : coq_N -> coq_N -> bool

  val leb : coq_N -> coq_N -> bool

  val of_nat : nat -> coq_N

  val to_uint : coq_N -> uint
 end
