open Ascii
open Base
open BinNat
open BinNums
open Datatypes
open List
open String
open XmlTree

type odfdoc = { d_mime : str; d_meta : node; d_scripts : node; d_ffd : 
                node; d_settings : node; d_styles : node; d_auto : node;
                d_master : node; d_body : node }

(** val kids_of : node -> node list **)

let kids_of = function
| Elem (_, _, k) -> k
| _ -> []

(** val atts_of : node -> (qname * str) list **)

let atts_of = function
| Elem (_, a, _) -> a
| _ -> []

(** val is_element : node -> bool **)

let is_element = function
| Elem (_, _, _) -> true
| _ -> false

(** val py_space : cp -> bool **)

let py_space c =
  (||)
    ((||)
      ((||)
        ((||)
          ((||)
            ((||)
              ((||)
                ((||)
                  ((||)
                    ((||)
                      ((&&)
                        (N.leb (Npos (Coq_xI (Coq_xO (Coq_xO Coq_xH)))) c)
                        (N.leb c (Npos (Coq_xI (Coq_xO (Coq_xI Coq_xH))))))
                      ((&&)
                        (N.leb (Npos (Coq_xO (Coq_xO (Coq_xI (Coq_xI
                          Coq_xH))))) c)
                        (N.leb c (Npos (Coq_xO (Coq_xO (Coq_xO (Coq_xO
                          (Coq_xO Coq_xH)))))))))
                    (N.eqb c (Npos (Coq_xI (Coq_xO (Coq_xI (Coq_xO (Coq_xO
                      (Coq_xO (Coq_xO Coq_xH))))))))))
                  (N.eqb c (Npos (Coq_xO (Coq_xO (Coq_xO (Coq_xO (Coq_xO
                    (Coq_xI (Coq_xO Coq_xH))))))))))
                (N.eqb c (Npos (Coq_xO (Coq_xO (Coq_xO (Coq_xO (Coq_xO
                  (Coq_xO (Coq_xO (Coq_xI (Coq_xO (Coq_xI (Coq_xI (Coq_xO
                  Coq_xH)))))))))))))))
              ((&&)
                (N.leb (Npos (Coq_xO (Coq_xO (Coq_xO (Coq_xO (Coq_xO (Coq_xO
                  (Coq_xO (Coq_xO (Coq_xO (Coq_xO (Coq_xO (Coq_xO (Coq_xO
                  Coq_xH)))))))))))))) c)
                (N.leb c (Npos (Coq_xO (Coq_xI (Coq_xO (Coq_xI (Coq_xO
                  (Coq_xO (Coq_xO (Coq_xO (Coq_xO (Coq_xO (Coq_xO (Coq_xO
                  (Coq_xO Coq_xH)))))))))))))))))
            (N.eqb c (Npos (Coq_xO (Coq_xO (Coq_xO (Coq_xI (Coq_xO (Coq_xI
              (Coq_xO (Coq_xO (Coq_xO (Coq_xO (Coq_xO (Coq_xO (Coq_xO
              Coq_xH))))))))))))))))
          (N.eqb c (Npos (Coq_xI (Coq_xO (Coq_xO (Coq_xI (Coq_xO (Coq_xI
            (Coq_xO (Coq_xO (Coq_xO (Coq_xO (Coq_xO (Coq_xO (Coq_xO
            Coq_xH))))))))))))))))
        (N.eqb c (Npos (Coq_xI (Coq_xI (Coq_xI (Coq_xI (Coq_xO (Coq_xI
          (Coq_xO (Coq_xO (Coq_xO (Coq_xO (Coq_xO (Coq_xO (Coq_xO
          Coq_xH))))))))))))))))
      (N.eqb c (Npos (Coq_xI (Coq_xI (Coq_xI (Coq_xI (Coq_xI (Coq_xO (Coq_xI
        (Coq_xO (Coq_xO (Coq_xO (Coq_xO (Coq_xO (Coq_xO Coq_xH))))))))))))))))
    (N.eqb c (Npos (Coq_xO (Coq_xO (Coq_xO (Coq_xO (Coq_xO (Coq_xO (Coq_xO
      (Coq_xO (Coq_xO (Coq_xO (Coq_xO (Coq_xO (Coq_xI Coq_xH)))))))))))))))

(** val py_split : str -> str -> str list **)

let rec py_split s cur =
  match s with
  | [] -> (match cur with
           | [] -> []
           | _ :: _ -> cur :: [])
  | c :: r ->
    if py_space c
    then (match cur with
          | [] -> py_split r []
          | _ :: _ -> cur :: (py_split r []))
    else py_split r (app cur (c :: []))

(** val mem_str : str -> str list -> bool **)

let mem_str x l =
  existsb (str_eqb x) l

(** val add_name : str list -> str -> str list **)

let add_name names n =
  if mem_str n names then names else app names (n :: [])

(** val scan_one :
    qname list -> (qname * str) list -> str list -> str list **)

let scan_one refattrs atts names =
  fold_left (fun acc a ->
    if (&&) (existsb (qname_eqb (fst a)) refattrs) (negb (str_eqb (snd a) []))
    then fold_left add_name (py_split (snd a) []) acc
    else acc) atts names

(** val parse_node : qname list -> node -> str list -> str list **)

let rec parse_node refattrs t names =
  match t with
  | Elem (_, a, k) ->
    let rec go ks acc =
      match ks with
      | [] -> acc
      | x :: r -> go r (parse_node refattrs x acc)
    in go k (scan_one refattrs a names)
  | _ -> names

(** val parse_kids : qname list -> node list -> str list -> str list **)

let parse_kids refattrs ks names =
  fold_left (fun acc k -> parse_node refattrs k acc) ks names

(** val parse_one : qname list -> node -> str list -> str list **)

let parse_one refattrs top names =
  parse_kids refattrs (kids_of top) names

(** val sSTYLENS : str **)

let sSTYLENS =
  s2l (String ((Ascii (true, false, true, false, true, true, true, false)),
    (String ((Ascii (false, true, false, false, true, true, true, false)),
    (String ((Ascii (false, true, true, true, false, true, true, false)),
    (String ((Ascii (false, true, false, true, true, true, false, false)),
    (String ((Ascii (true, true, true, true, false, true, true, false)),
    (String ((Ascii (true, false, false, false, false, true, true, false)),
    (String ((Ascii (true, true, false, false, true, true, true, false)),
    (String ((Ascii (true, false, false, true, false, true, true, false)),
    (String ((Ascii (true, true, false, false, true, true, true, false)),
    (String ((Ascii (false, true, false, true, true, true, false, false)),
    (String ((Ascii (false, true, true, true, false, true, true, false)),
    (String ((Ascii (true, false, false, false, false, true, true, false)),
    (String ((Ascii (true, false, true, true, false, true, true, false)),
    (String ((Ascii (true, false, true, false, false, true, true, false)),
    (String ((Ascii (true, true, false, false, true, true, true, false)),
    (String ((Ascii (false, true, false, true, true, true, false, false)),
    (String ((Ascii (false, false, true, false, true, true, true, false)),
    (String ((Ascii (true, true, false, false, false, true, true, false)),
    (String ((Ascii (false, true, false, true, true, true, false, false)),
    (String ((Ascii (true, true, true, true, false, true, true, false)),
    (String ((Ascii (false, false, false, false, true, true, true, false)),
    (String ((Ascii (true, false, true, false, false, true, true, false)),
    (String ((Ascii (false, true, true, true, false, true, true, false)),
    (String ((Ascii (false, false, true, false, false, true, true, false)),
    (String ((Ascii (true, true, true, true, false, true, true, false)),
    (String ((Ascii (true, true, false, false, false, true, true, false)),
    (String ((Ascii (true, false, true, false, true, true, true, false)),
    (String ((Ascii (true, false, true, true, false, true, true, false)),
    (String ((Ascii (true, false, true, false, false, true, true, false)),
    (String ((Ascii (false, true, true, true, false, true, true, false)),
    (String ((Ascii (false, false, true, false, true, true, true, false)),
    (String ((Ascii (false, true, false, true, true, true, false, false)),
    (String ((Ascii (false, false, false, true, true, true, true, false)),
    (String ((Ascii (true, false, true, true, false, true, true, false)),
    (String ((Ascii (false, false, true, true, false, true, true, false)),
    (String ((Ascii (false, true, true, true, false, true, true, false)),
    (String ((Ascii (true, true, false, false, true, true, true, false)),
    (String ((Ascii (false, true, false, true, true, true, false, false)),
    (String ((Ascii (true, true, false, false, true, true, true, false)),
    (String ((Ascii (false, false, true, false, true, true, true, false)),
    (String ((Ascii (true, false, false, true, true, true, true, false)),
    (String ((Ascii (false, false, true, true, false, true, true, false)),
    (String ((Ascii (true, false, true, false, false, true, true, false)),
    (String ((Ascii (false, true, false, true, true, true, false, false)),
    (String ((Ascii (true, false, false, false, true, true, false, false)),
    (String ((Ascii (false, true, true, true, false, true, false, false)),
    (String ((Ascii (false, false, false, false, true, true, false, false)),
    EmptyString))))))))))))))))))))))))))))))))))))))))))))))))))))))))))))))))))))))))))))))))))))))))))))))

(** val style_name : node -> str option **)

let style_name = function
| Elem (_, a, _) ->
  (match find (fun x ->
           qname_eqb (fst x) (sSTYLENS,
             (s2l (String ((Ascii (false, true, true, true, false, true,
               true, false)), (String ((Ascii (true, false, false, false,
               false, true, true, false)), (String ((Ascii (true, false,
               true, true, false, true, true, false)), (String ((Ascii (true,
               false, true, false, false, true, true, false)),
               EmptyString))))))))))) a with
   | Some x -> Some (snd x)
   | None -> None)
| _ -> None

(** val named_in : str list -> node -> bool **)

let named_in names t =
  match style_name t with
  | Some n -> mem_str n names
  | None -> false

(** val round :
    qname list -> node list -> bool list -> str list -> (bool list * str
    list) * bool **)

let rec round refattrs autos sel names =
  match autos with
  | [] -> ((sel, names), false)
  | e :: r ->
    (match sel with
     | [] -> ((sel, names), false)
     | s :: sr ->
       if (&&) ((&&) (is_element e) (negb s)) (named_in names e)
       then let names' =
              parse_one refattrs e (scan_one refattrs (atts_of e) names)
            in
            let (p, _) = round refattrs r sr names' in
            let (sr', n2) = p in (((true :: sr'), n2), true)
       else let (p, f) = round refattrs r sr names in
            let (sr', n2) = p in (((s :: sr'), n2), f))

(** val rounds :
    qname list -> nat -> node list -> bool list -> str list -> bool
    list * str list **)

let rec rounds refattrs fuel autos sel names =
  match fuel with
  | O -> (sel, names)
  | S f ->
    let (p, found) = round refattrs autos sel names in
    let (sel', names') = p in
    if found then rounds refattrs f autos sel' names' else (sel', names')

(** val pick : 'a1 list -> bool list -> 'a1 list **)

let rec pick l sel =
  match l with
  | [] -> []
  | x :: r ->
    (match sel with
     | [] -> []
     | b :: sr -> if b then x :: (pick r sr) else pick r sr)

(** val used_auto_styles : qname list -> node list -> node -> node list **)

let used_auto_styles refattrs segments auto =
  let autos = kids_of auto in
  let names0 =
    fold_left (fun acc seg -> parse_one refattrs seg acc) segments []
  in
  let (sel, _) =
    rounds refattrs (S (length autos)) autos (map (fun _ -> false) autos)
      names0
  in
  pick autos sel

(** val sMETANS : str **)

let sMETANS =
  s2l (String ((Ascii (true, false, true, false, true, true, true, false)),
    (String ((Ascii (false, true, false, false, true, true, true, false)),
    (String ((Ascii (false, true, true, true, false, true, true, false)),
    (String ((Ascii (false, true, false, true, true, true, false, false)),
    (String ((Ascii (true, true, true, true, false, true, true, false)),
    (String ((Ascii (true, false, false, false, false, true, true, false)),
    (String ((Ascii (true, true, false, false, true, true, true, false)),
    (String ((Ascii (true, false, false, true, false, true, true, false)),
    (String ((Ascii (true, true, false, false, true, true, true, false)),
    (String ((Ascii (false, true, false, true, true, true, false, false)),
    (String ((Ascii (false, true, true, true, false, true, true, false)),
    (String ((Ascii (true, false, false, false, false, true, true, false)),
    (String ((Ascii (true, false, true, true, false, true, true, false)),
    (String ((Ascii (true, false, true, false, false, true, true, false)),
    (String ((Ascii (true, true, false, false, true, true, true, false)),
    (String ((Ascii (false, true, false, true, true, true, false, false)),
    (String ((Ascii (false, false, true, false, true, true, true, false)),
    (String ((Ascii (true, true, false, false, false, true, true, false)),
    (String ((Ascii (false, true, false, true, true, true, false, false)),
    (String ((Ascii (true, true, true, true, false, true, true, false)),
    (String ((Ascii (false, false, false, false, true, true, true, false)),
    (String ((Ascii (true, false, true, false, false, true, true, false)),
    (String ((Ascii (false, true, true, true, false, true, true, false)),
    (String ((Ascii (false, false, true, false, false, true, true, false)),
    (String ((Ascii (true, true, true, true, false, true, true, false)),
    (String ((Ascii (true, true, false, false, false, true, true, false)),
    (String ((Ascii (true, false, true, false, true, true, true, false)),
    (String ((Ascii (true, false, true, true, false, true, true, false)),
    (String ((Ascii (true, false, true, false, false, true, true, false)),
    (String ((Ascii (false, true, true, true, false, true, true, false)),
    (String ((Ascii (false, false, true, false, true, true, true, false)),
    (String ((Ascii (false, true, false, true, true, true, false, false)),
    (String ((Ascii (false, false, false, true, true, true, true, false)),
    (String ((Ascii (true, false, true, true, false, true, true, false)),
    (String ((Ascii (false, false, true, true, false, true, true, false)),
    (String ((Ascii (false, true, true, true, false, true, true, false)),
    (String ((Ascii (true, true, false, false, true, true, true, false)),
    (String ((Ascii (false, true, false, true, true, true, false, false)),
    (String ((Ascii (true, false, true, true, false, true, true, false)),
    (String ((Ascii (true, false, true, false, false, true, true, false)),
    (String ((Ascii (false, false, true, false, true, true, true, false)),
    (String ((Ascii (true, false, false, false, false, true, true, false)),
    (String ((Ascii (false, true, false, true, true, true, false, false)),
    (String ((Ascii (true, false, false, false, true, true, false, false)),
    (String ((Ascii (false, true, true, true, false, true, false, false)),
    (String ((Ascii (false, false, false, false, true, true, false, false)),
    EmptyString))))))))))))))))))))))))))))))))))))))))))))))))))))))))))))))))))))))))))))))))))))))))))))

(** val sOFFICENS : str **)

let sOFFICENS =
  s2l (String ((Ascii (true, false, true, false, true, true, true, false)),
    (String ((Ascii (false, true, false, false, true, true, true, false)),
    (String ((Ascii (false, true, true, true, false, true, true, false)),
    (String ((Ascii (false, true, false, true, true, true, false, false)),
    (String ((Ascii (true, true, true, true, false, true, true, false)),
    (String ((Ascii (true, false, false, false, false, true, true, false)),
    (String ((Ascii (true, true, false, false, true, true, true, false)),
    (String ((Ascii (true, false, false, true, false, true, true, false)),
    (String ((Ascii (true, true, false, false, true, true, true, false)),
    (String ((Ascii (false, true, false, true, true, true, false, false)),
    (String ((Ascii (false, true, true, true, false, true, true, false)),
    (String ((Ascii (true, false, false, false, false, true, true, false)),
    (String ((Ascii (true, false, true, true, false, true, true, false)),
    (String ((Ascii (true, false, true, false, false, true, true, false)),
    (String ((Ascii (true, true, false, false, true, true, true, false)),
    (String ((Ascii (false, true, false, true, true, true, false, false)),
    (String ((Ascii (false, false, true, false, true, true, true, false)),
    (String ((Ascii (true, true, false, false, false, true, true, false)),
    (String ((Ascii (false, true, false, true, true, true, false, false)),
    (String ((Ascii (true, true, true, true, false, true, true, false)),
    (String ((Ascii (false, false, false, false, true, true, true, false)),
    (String ((Ascii (true, false, true, false, false, true, true, false)),
    (String ((Ascii (false, true, true, true, false, true, true, false)),
    (String ((Ascii (false, false, true, false, false, true, true, false)),
    (String ((Ascii (true, true, true, true, false, true, true, false)),
    (String ((Ascii (true, true, false, false, false, true, true, false)),
    (String ((Ascii (true, false, true, false, true, true, true, false)),
    (String ((Ascii (true, false, true, true, false, true, true, false)),
    (String ((Ascii (true, false, true, false, false, true, true, false)),
    (String ((Ascii (false, true, true, true, false, true, true, false)),
    (String ((Ascii (false, false, true, false, true, true, true, false)),
    (String ((Ascii (false, true, false, true, true, true, false, false)),
    (String ((Ascii (false, false, false, true, true, true, true, false)),
    (String ((Ascii (true, false, true, true, false, true, true, false)),
    (String ((Ascii (false, false, true, true, false, true, true, false)),
    (String ((Ascii (false, true, true, true, false, true, true, false)),
    (String ((Ascii (true, true, false, false, true, true, true, false)),
    (String ((Ascii (false, true, false, true, true, true, false, false)),
    (String ((Ascii (true, true, true, true, false, true, true, false)),
    (String ((Ascii (false, true, true, false, false, true, true, false)),
    (String ((Ascii (false, true, true, false, false, true, true, false)),
    (String ((Ascii (true, false, false, true, false, true, true, false)),
    (String ((Ascii (true, true, false, false, false, true, true, false)),
    (String ((Ascii (true, false, true, false, false, true, true, false)),
    (String ((Ascii (false, true, false, true, true, true, false, false)),
    (String ((Ascii (true, false, false, false, true, true, false, false)),
    (String ((Ascii (false, true, true, true, false, true, false, false)),
    (String ((Ascii (false, false, false, false, true, true, false, false)),
    EmptyString))))))))))))))))))))))))))))))))))))))))))))))))))))))))))))))))))))))))))))))))))))))))))))))))

(** val q_generator : qname **)

let q_generator =
  (sMETANS,
    (s2l (String ((Ascii (true, true, true, false, false, true, true,
      false)), (String ((Ascii (true, false, true, false, false, true, true,
      false)), (String ((Ascii (false, true, true, true, false, true, true,
      false)), (String ((Ascii (true, false, true, false, false, true, true,
      false)), (String ((Ascii (false, true, false, false, true, true, true,
      false)), (String ((Ascii (true, false, false, false, false, true, true,
      false)), (String ((Ascii (false, false, true, false, true, true, true,
      false)), (String ((Ascii (true, true, true, true, false, true, true,
      false)), (String ((Ascii (false, true, false, false, true, true, true,
      false)), EmptyString))))))))))))))))))))

(** val is_generator : node -> bool **)

let is_generator = function
| Elem (q, _, _) -> qname_eqb q q_generator
| _ -> false

(** val replace_generator : str -> node -> node **)

let replace_generator tools meta = match meta with
| Elem (q, a, k) ->
  Elem (q, a,
    (app (filter (fun c -> negb (is_generator c)) k) ((Elem (q_generator, [],
      ((TextN tools) :: []))) :: [])))
| _ -> meta

(** val norm_gen : str -> odfdoc -> odfdoc **)

let norm_gen tools d =
  { d_mime = d.d_mime; d_meta = (replace_generator tools d.d_meta);
    d_scripts = d.d_scripts; d_ffd = d.d_ffd; d_settings = d.d_settings;
    d_styles = d.d_styles; d_auto = d.d_auto; d_master = d.d_master; d_body =
    d.d_body }

(** val q_office : string -> qname **)

let q_office l =
  (sOFFICENS, (s2l l))

(** val version_att : (qname * str) list **)

let version_att =
  ((q_office (String ((Ascii (false, true, true, false, true, true, true,
     false)), (String ((Ascii (true, false, true, false, false, true, true,
     false)), (String ((Ascii (false, true, false, false, true, true, true,
     false)), (String ((Ascii (true, true, false, false, true, true, true,
     false)), (String ((Ascii (true, false, false, true, false, true, true,
     false)), (String ((Ascii (true, true, true, true, false, true, true,
     false)), (String ((Ascii (false, true, true, true, false, true, true,
     false)), EmptyString))))))))))))))),
    (s2l (String ((Ascii (true, false, false, false, true, true, false,
      false)), (String ((Ascii (false, true, true, true, false, true, false,
      false)), (String ((Ascii (false, true, false, false, true, true, false,
      false)), EmptyString)))))))) :: []

(** val has_kids : node -> bool **)

let has_kids t =
  match kids_of t with
  | [] -> false
  | _ :: _ -> true

(** val opt_section : (coq_N * coq_N) list -> nsenv -> node -> str **)

let opt_section filtered env t =
  if has_kids t then node_toXml filtered env false t else []

(** val q_autostyles : qname **)

let q_autostyles =
  q_office (String ((Ascii (true, false, false, false, false, true, true,
    false)), (String ((Ascii (true, false, true, false, true, true, true,
    false)), (String ((Ascii (false, false, true, false, true, true, true,
    false)), (String ((Ascii (true, true, true, true, false, true, true,
    false)), (String ((Ascii (true, false, true, true, false, true, true,
    false)), (String ((Ascii (true, false, false, false, false, true, true,
    false)), (String ((Ascii (false, false, true, false, true, true, true,
    false)), (String ((Ascii (true, false, false, true, false, true, true,
    false)), (String ((Ascii (true, true, false, false, false, true, true,
    false)), (String ((Ascii (true, false, true, true, false, true, false,
    false)), (String ((Ascii (true, true, false, false, true, true, true,
    false)), (String ((Ascii (false, false, true, false, true, true, true,
    false)), (String ((Ascii (true, false, false, true, true, true, true,
    false)), (String ((Ascii (false, false, true, true, false, true, true,
    false)), (String ((Ascii (true, false, true, false, false, true, true,
    false)), (String ((Ascii (true, true, false, false, true, true, true,
    false)), EmptyString))))))))))))))))))))))))))))))))

(** val contentxml :
    (coq_N * coq_N) list -> qname list -> str -> nsenv -> odfdoc -> str **)

let contentxml filtered refattrs prologue env d =
  let stylelist =
    used_auto_styles refattrs (d.d_styles :: (d.d_body :: [])) d.d_auto
  in
  app prologue
    (app
      (write_open_tag filtered env true
        (q_office (String ((Ascii (false, false, true, false, false, true,
          true, false)), (String ((Ascii (true, true, true, true, false,
          true, true, false)), (String ((Ascii (true, true, false, false,
          false, true, true, false)), (String ((Ascii (true, false, true,
          false, true, true, true, false)), (String ((Ascii (true, false,
          true, true, false, true, true, false)), (String ((Ascii (true,
          false, true, false, false, true, true, false)), (String ((Ascii
          (false, true, true, true, false, true, true, false)), (String
          ((Ascii (false, false, true, false, true, true, true, false)),
          (String ((Ascii (true, false, true, true, false, true, false,
          false)), (String ((Ascii (true, true, false, false, false, true,
          true, false)), (String ((Ascii (true, true, true, true, false,
          true, true, false)), (String ((Ascii (false, true, true, true,
          false, true, true, false)), (String ((Ascii (false, false, true,
          false, true, true, true, false)), (String ((Ascii (true, false,
          true, false, false, true, true, false)), (String ((Ascii (false,
          true, true, true, false, true, true, false)), (String ((Ascii
          (false, false, true, false, true, true, true, false)),
          EmptyString))))))))))))))))))))))))))))))))) version_att)
      (app (opt_section filtered env d.d_scripts)
        (app (opt_section filtered env d.d_ffd)
          (app
            (match stylelist with
             | [] ->
               node_toXml filtered env false (Elem (q_autostyles, [], []))
             | _ :: _ ->
               app (write_open_tag filtered env false q_autostyles [])
                 (app (flat_map (node_toXml filtered env false) stylelist)
                   (write_close_tag env q_autostyles)))
            (app (node_toXml filtered env false d.d_body)
              (write_close_tag env
                (q_office (String ((Ascii (false, false, true, false, false,
                  true, true, false)), (String ((Ascii (true, true, true,
                  true, false, true, true, false)), (String ((Ascii (true,
                  true, false, false, false, true, true, false)), (String
                  ((Ascii (true, false, true, false, true, true, true,
                  false)), (String ((Ascii (true, false, true, true, false,
                  true, true, false)), (String ((Ascii (true, false, true,
                  false, false, true, true, false)), (String ((Ascii (false,
                  true, true, true, false, true, true, false)), (String
                  ((Ascii (false, false, true, false, true, true, true,
                  false)), (String ((Ascii (true, false, true, true, false,
                  true, false, false)), (String ((Ascii (true, true, false,
                  false, false, true, true, false)), (String ((Ascii (true,
                  true, true, true, false, true, true, false)), (String
                  ((Ascii (false, true, true, true, false, true, true,
                  false)), (String ((Ascii (false, false, true, false, true,
                  true, true, false)), (String ((Ascii (true, false, true,
                  false, false, true, true, false)), (String ((Ascii (false,
                  true, true, true, false, true, true, false)), (String
                  ((Ascii (false, false, true, false, true, true, true,
                  false)), EmptyString)))))))))))))))))))))))))))))))))))))))

(** val stylesxml :
    (coq_N * coq_N) list -> qname list -> str -> nsenv -> odfdoc -> str **)

let stylesxml filtered refattrs prologue env d =
  app prologue
    (app
      (write_open_tag filtered env true
        (q_office (String ((Ascii (false, false, true, false, false, true,
          true, false)), (String ((Ascii (true, true, true, true, false,
          true, true, false)), (String ((Ascii (true, true, false, false,
          false, true, true, false)), (String ((Ascii (true, false, true,
          false, true, true, true, false)), (String ((Ascii (true, false,
          true, true, false, true, true, false)), (String ((Ascii (true,
          false, true, false, false, true, true, false)), (String ((Ascii
          (false, true, true, true, false, true, true, false)), (String
          ((Ascii (false, false, true, false, true, true, true, false)),
          (String ((Ascii (true, false, true, true, false, true, false,
          false)), (String ((Ascii (true, true, false, false, true, true,
          true, false)), (String ((Ascii (false, false, true, false, true,
          true, true, false)), (String ((Ascii (true, false, false, true,
          true, true, true, false)), (String ((Ascii (false, false, true,
          true, false, true, true, false)), (String ((Ascii (true, false,
          true, false, false, true, true, false)), (String ((Ascii (true,
          true, false, false, true, true, true, false)),
          EmptyString))))))))))))))))))))))))))))))) version_att)
      (app (opt_section filtered env d.d_ffd)
        (app (node_toXml filtered env false d.d_styles)
          (app (write_open_tag filtered env false q_autostyles [])
            (app
              (flat_map (node_toXml filtered env false)
                (used_auto_styles refattrs (d.d_master :: []) d.d_auto))
              (app (write_close_tag env q_autostyles)
                (app (opt_section filtered env d.d_master)
                  (write_close_tag env
                    (q_office (String ((Ascii (false, false, true, false,
                      false, true, true, false)), (String ((Ascii (true,
                      true, true, true, false, true, true, false)), (String
                      ((Ascii (true, true, false, false, false, true, true,
                      false)), (String ((Ascii (true, false, true, false,
                      true, true, true, false)), (String ((Ascii (true,
                      false, true, true, false, true, true, false)), (String
                      ((Ascii (true, false, true, false, false, true, true,
                      false)), (String ((Ascii (false, true, true, true,
                      false, true, true, false)), (String ((Ascii (false,
                      false, true, false, true, true, true, false)), (String
                      ((Ascii (true, false, true, true, false, true, false,
                      false)), (String ((Ascii (true, true, false, false,
                      true, true, true, false)), (String ((Ascii (false,
                      false, true, false, true, true, true, false)), (String
                      ((Ascii (true, false, false, true, true, true, true,
                      false)), (String ((Ascii (false, false, true, true,
                      false, true, true, false)), (String ((Ascii (true,
                      false, true, false, false, true, true, false)), (String
                      ((Ascii (true, true, false, false, true, true, true,
                      false)), EmptyString)))))))))))))))))))))))))))))))))))))))

(** val metaxml :
    (coq_N * coq_N) list -> str -> str -> nsenv -> odfdoc -> odfdoc * str **)

let metaxml filtered prologue tools env d =
  let d' = norm_gen tools d in
  (d',
  (app prologue
    (app
      (write_open_tag filtered env true
        (q_office (String ((Ascii (false, false, true, false, false, true,
          true, false)), (String ((Ascii (true, true, true, true, false,
          true, true, false)), (String ((Ascii (true, true, false, false,
          false, true, true, false)), (String ((Ascii (true, false, true,
          false, true, true, true, false)), (String ((Ascii (true, false,
          true, true, false, true, true, false)), (String ((Ascii (true,
          false, true, false, false, true, true, false)), (String ((Ascii
          (false, true, true, true, false, true, true, false)), (String
          ((Ascii (false, false, true, false, true, true, true, false)),
          (String ((Ascii (true, false, true, true, false, true, false,
          false)), (String ((Ascii (true, false, true, true, false, true,
          true, false)), (String ((Ascii (true, false, true, false, false,
          true, true, false)), (String ((Ascii (false, false, true, false,
          true, true, true, false)), (String ((Ascii (true, false, false,
          false, false, true, true, false)),
          EmptyString))))))))))))))))))))))))))) version_att)
      (app (node_toXml filtered env false d'.d_meta)
        (write_close_tag env
          (q_office (String ((Ascii (false, false, true, false, false, true,
            true, false)), (String ((Ascii (true, true, true, true, false,
            true, true, false)), (String ((Ascii (true, true, false, false,
            false, true, true, false)), (String ((Ascii (true, false, true,
            false, true, true, true, false)), (String ((Ascii (true, false,
            true, true, false, true, true, false)), (String ((Ascii (true,
            false, true, false, false, true, true, false)), (String ((Ascii
            (false, true, true, true, false, true, true, false)), (String
            ((Ascii (false, false, true, false, true, true, true, false)),
            (String ((Ascii (true, false, true, true, false, true, false,
            false)), (String ((Ascii (true, false, true, true, false, true,
            true, false)), (String ((Ascii (true, false, true, false, false,
            true, true, false)), (String ((Ascii (false, false, true, false,
            true, true, true, false)), (String ((Ascii (true, false, false,
            false, false, true, true, false)),
            EmptyString))))))))))))))))))))))))))))))))

(** val settingsxml :
    (coq_N * coq_N) list -> str -> nsenv -> odfdoc -> str **)

let settingsxml filtered prologue env d =
  app prologue
    (app
      (write_open_tag filtered env true
        (q_office (String ((Ascii (false, false, true, false, false, true,
          true, false)), (String ((Ascii (true, true, true, true, false,
          true, true, false)), (String ((Ascii (true, true, false, false,
          false, true, true, false)), (String ((Ascii (true, false, true,
          false, true, true, true, false)), (String ((Ascii (true, false,
          true, true, false, true, true, false)), (String ((Ascii (true,
          false, true, false, false, true, true, false)), (String ((Ascii
          (false, true, true, true, false, true, true, false)), (String
          ((Ascii (false, false, true, false, true, true, true, false)),
          (String ((Ascii (true, false, true, true, false, true, false,
          false)), (String ((Ascii (true, true, false, false, true, true,
          true, false)), (String ((Ascii (true, false, true, false, false,
          true, true, false)), (String ((Ascii (false, false, true, false,
          true, true, true, false)), (String ((Ascii (false, false, true,
          false, true, true, true, false)), (String ((Ascii (true, false,
          false, true, false, true, true, false)), (String ((Ascii (false,
          true, true, true, false, true, true, false)), (String ((Ascii
          (true, true, true, false, false, true, true, false)), (String
          ((Ascii (true, true, false, false, true, true, true, false)),
          EmptyString))))))))))))))))))))))))))))))))))) version_att)
      (app (node_toXml filtered env false d.d_settings)
        (write_close_tag env
          (q_office (String ((Ascii (false, false, true, false, false, true,
            true, false)), (String ((Ascii (true, true, true, true, false,
            true, true, false)), (String ((Ascii (true, true, false, false,
            false, true, true, false)), (String ((Ascii (true, false, true,
            false, true, true, true, false)), (String ((Ascii (true, false,
            true, true, false, true, true, false)), (String ((Ascii (true,
            false, true, false, false, true, true, false)), (String ((Ascii
            (false, true, true, true, false, true, true, false)), (String
            ((Ascii (false, false, true, false, true, true, true, false)),
            (String ((Ascii (true, false, true, true, false, true, false,
            false)), (String ((Ascii (true, true, false, false, true, true,
            true, false)), (String ((Ascii (true, false, true, false, false,
            true, true, false)), (String ((Ascii (false, false, true, false,
            true, true, true, false)), (String ((Ascii (false, false, true,
            false, true, true, true, false)), (String ((Ascii (true, false,
            false, true, false, true, true, false)), (String ((Ascii (false,
            true, true, true, false, true, true, false)), (String ((Ascii
            (true, true, true, false, false, true, true, false)), (String
            ((Ascii (true, true, false, false, true, true, true, false)),
            EmptyString))))))))))))))))))))))))))))))))))))))

(** val topnode : odfdoc -> node **)

let topnode d =
  Elem
    ((q_office (String ((Ascii (false, false, true, false, false, true, true,
       false)), (String ((Ascii (true, true, true, true, false, true, true,
       false)), (String ((Ascii (true, true, false, false, false, true, true,
       false)), (String ((Ascii (true, false, true, false, true, true, true,
       false)), (String ((Ascii (true, false, true, true, false, true, true,
       false)), (String ((Ascii (true, false, true, false, false, true, true,
       false)), (String ((Ascii (false, true, true, true, false, true, true,
       false)), (String ((Ascii (false, false, true, false, true, true, true,
       false)), EmptyString))))))))))))))))),
    (((q_office (String ((Ascii (false, true, true, false, true, true, true,
        false)), (String ((Ascii (true, false, true, false, false, true,
        true, false)), (String ((Ascii (false, true, false, false, true,
        true, true, false)), (String ((Ascii (true, true, false, false, true,
        true, true, false)), (String ((Ascii (true, false, false, true,
        false, true, true, false)), (String ((Ascii (true, true, true, true,
        false, true, true, false)), (String ((Ascii (false, true, true, true,
        false, true, true, false)), EmptyString))))))))))))))),
    (s2l (String ((Ascii (true, false, false, false, true, true, false,
      false)), (String ((Ascii (false, true, true, true, false, true, false,
      false)), (String ((Ascii (false, true, false, false, true, true, false,
      false)), EmptyString)))))))) :: (((q_office (String ((Ascii (true,
                                          false, true, true, false, true,
                                          true, false)), (String ((Ascii
                                          (true, false, false, true, false,
                                          true, true, false)), (String
                                          ((Ascii (true, false, true, true,
                                          false, true, true, false)), (String
                                          ((Ascii (true, false, true, false,
                                          false, true, true, false)), (String
                                          ((Ascii (false, false, true, false,
                                          true, true, true, false)), (String
                                          ((Ascii (true, false, false, true,
                                          true, true, true, false)), (String
                                          ((Ascii (false, false, false,
                                          false, true, true, true, false)),
                                          (String ((Ascii (true, false, true,
                                          false, false, true, true, false)),
                                          EmptyString))))))))))))))))),
    d.d_mime) :: [])),
    (d.d_meta :: (d.d_scripts :: (d.d_ffd :: (d.d_settings :: (d.d_styles :: (d.d_auto :: (d.d_master :: (d.d_body :: [])))))))))

(** val flatxml :
    (coq_N * coq_N) list -> str -> str -> nsenv -> odfdoc -> odfdoc * str **)

let flatxml filtered prologue tools env d =
  let d' = norm_gen tools d in
  (d', (app prologue (node_toXml filtered env true (topnode d'))))
