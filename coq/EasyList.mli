open Base
open BinNat
open BinNums
open Datatypes

val is_format : cp -> bool

val first_format : str -> str -> ((str * cp) * str) option

type lkind =
| LNumber of cp * str * str * nat
| LBullet of cp

type level = { lv_level : nat; lv_kind : lkind; lv_factor : nat }

val make_level : bool -> nat -> str -> level result

val build_from : bool -> nat -> str list -> level list result

val style_from_list : str list -> bool -> level list result

val split1 : cp -> str -> str -> str list

val style_from_string : str -> cp -> bool -> level list result

val is_letter : cp -> bool

val span : (cp -> bool) -> str -> str * str

val css_split : str -> (str * str) option
