open Base
open Datatypes
open List
open Nat

type id = nat

type nkind =
| KElem of nat
| KText
| KCData

type nrec = { kind : nkind; parent : id option; kids : id list;
              prev : id option; next : id option; owner : bool;
              sname : nat option }

(** val is_elem : nrec -> bool **)

let is_elem r =
  match r.kind with
  | KElem _ -> true
  | _ -> false

(** val coq_Q_STYLE : nat **)

let coq_Q_STYLE =
  O

(** val coq_Q_STYLES : nat **)

let coq_Q_STYLES =
  S O

(** val coq_Q_AUTOSTYLES : nat **)

let coq_Q_AUTOSTYLES =
  S (S O)

type heap = { nodes : (id -> nrec); alloc : nat;
              edict : (nat * id list) list; sdict : (nat * id) list }

(** val upd : (id -> nrec) -> id -> nrec -> id -> nrec **)

let upd f i r j =
  if eqb j i then r else f j

(** val set_nodes : heap -> (id -> nrec) -> heap **)

let set_nodes h f =
  { nodes = f; alloc = h.alloc; edict = h.edict; sdict = h.sdict }

(** val with_parent : nrec -> id option -> nrec **)

let with_parent r p =
  { kind = r.kind; parent = p; kids = r.kids; prev = r.prev; next = r.next;
    owner = r.owner; sname = r.sname }

(** val with_kids : nrec -> id list -> nrec **)

let with_kids r k =
  { kind = r.kind; parent = r.parent; kids = k; prev = r.prev; next = r.next;
    owner = r.owner; sname = r.sname }

(** val with_prev : nrec -> id option -> nrec **)

let with_prev r p =
  { kind = r.kind; parent = r.parent; kids = r.kids; prev = p; next = r.next;
    owner = r.owner; sname = r.sname }

(** val with_next : nrec -> id option -> nrec **)

let with_next r n =
  { kind = r.kind; parent = r.parent; kids = r.kids; prev = r.prev; next = n;
    owner = r.owner; sname = r.sname }

(** val with_owner : nrec -> bool -> nrec **)

let with_owner r o =
  { kind = r.kind; parent = r.parent; kids = r.kids; prev = r.prev; next =
    r.next; owner = o; sname = r.sname }

type res =
| ROk of heap
| RRaise of exn * heap

(** val index_of : id -> id list -> nat option **)

let rec index_of x = function
| [] -> None
| y :: r ->
  if eqb y x then Some O else option_map (fun x0 -> S x0) (index_of x r)

(** val remove_first : id -> id list -> id list **)

let rec remove_first x = function
| [] -> []
| y :: r -> if eqb y x then r else y :: (remove_first x r)

(** val insert_at : nat -> id -> id list -> id list **)

let rec insert_at n x l =
  match n with
  | O -> x :: l
  | S n' -> (match l with
             | [] -> x :: []
             | y :: r -> y :: (insert_at n' x r))

(** val last_opt : id list -> id option **)

let last_opt l =
  match rev l with
  | [] -> None
  | x :: _ -> Some x

(** val in_subtree : nat -> (id -> nrec) -> id -> id -> bool **)

let rec in_subtree fuel f n m =
  if eqb m n
  then true
  else (match fuel with
        | O -> false
        | S fuel' ->
          (match (f m).parent with
           | Some p -> in_subtree fuel' f n p
           | None -> false))

(** val subtree_ids : heap -> id -> id list **)

let subtree_ids h n =
  filter (in_subtree h.alloc h.nodes n) (seq O h.alloc)

(** val set_owner : heap -> id -> bool -> heap **)

let set_owner h n o =
  let ids = subtree_ids h n in
  set_nodes h (fun j ->
    if existsb (eqb j) ids then with_owner (h.nodes j) o else h.nodes j)

(** val dict_get : nat -> (nat * 'a1) list -> 'a1 option **)

let rec dict_get k = function
| [] -> None
| p :: r -> let (k', v) = p in if eqb k' k then Some v else dict_get k r

(** val dict_set : nat -> 'a1 -> (nat * 'a1) list -> (nat * 'a1) list **)

let rec dict_set k v = function
| [] -> (k, v) :: []
| p :: r ->
  let (k', v') = p in
  if eqb k' k then (k, v) :: r else (k', v') :: (dict_set k v r)

(** val dict_del : nat -> (nat * 'a1) list -> (nat * 'a1) list **)

let rec dict_del k = function
| [] -> []
| p :: r ->
  let (k', v) = p in if eqb k' k then r else (k', v) :: (dict_del k r)

(** val style_parent_ok : heap -> id -> bool **)

let style_parent_ok h n =
  match (h.nodes n).parent with
  | Some p ->
    (match (h.nodes p).kind with
     | KElem q -> (||) (eqb q coq_Q_STYLES) (eqb q coq_Q_AUTOSTYLES)
     | _ -> false)
  | None -> false

(** val build_caches : heap -> id -> heap **)

let build_caches h n =
  match (h.nodes n).kind with
  | KElem q ->
    let l = match dict_get q h.edict with
            | Some l -> l
            | None -> [] in
    let h1 = { nodes = h.nodes; alloc = h.alloc; edict =
      (dict_set q (app l (n :: [])) h.edict); sdict = h.sdict }
    in
    if eqb q coq_Q_STYLE
    then (match (h.nodes n).sname with
          | Some nm ->
            if style_parent_ok h n
            then { nodes = h1.nodes; alloc = h1.alloc; edict = h1.edict;
                   sdict = (dict_set nm n h1.sdict) }
            else h1
          | None -> h1)
    else h1
  | _ -> h

(** val rebuild_caches : heap -> id -> heap **)

let rebuild_caches h n =
  fold_left (fun h' m ->
    if is_elem (h.nodes m) then build_caches h' m else h') (subtree_ids h n) h

(** val remove_one : heap -> id -> heap **)

let remove_one h n =
  match (h.nodes n).kind with
  | KElem q ->
    let ed =
      match dict_get q h.edict with
      | Some l -> dict_set q (remove_first n l) h.edict
      | None -> h.edict
    in
    let sd =
      if eqb q coq_Q_STYLE
      then (match (h.nodes n).sname with
            | Some nm ->
              (match dict_get nm h.sdict with
               | Some m -> if eqb m n then dict_del nm h.sdict else h.sdict
               | None -> h.sdict)
            | None -> h.sdict)
      else h.sdict
    in
    { nodes = h.nodes; alloc = h.alloc; edict = ed; sdict = sd }
  | _ -> h

(** val remove_from_caches : heap -> id list -> heap **)

let remove_from_caches h ids =
  fold_left (fun h' m -> if is_elem (h.nodes m) then remove_one h' m else h')
    ids h

(** val is_childless : nrec -> bool **)

let is_childless r =
  negb (is_elem r)

(** val unlink : (id -> nrec) -> id -> id -> id -> nrec **)

let unlink f p c =
  let f1 = upd f p (with_kids (f p) (remove_first c (f p).kids)) in
  let c0 = f1 c in
  let f2 =
    match c0.next with
    | Some nx -> upd f1 nx (with_prev (f1 nx) c0.prev)
    | None -> f1
  in
  let f3 =
    match c0.prev with
    | Some pv -> upd f2 pv (with_next (f2 pv) c0.next)
    | None -> f2
  in
  upd f3 c (with_parent (with_prev (with_next (f3 c) None) None) None)

(** val remove_child : heap -> id -> id -> res **)

let remove_child h p c =
  let p0 = h.nodes p in
  if is_childless p0
  then RRaise (NotFoundErr, h)
  else (match index_of c p0.kids with
        | Some _ ->
          let sub = subtree_ids h c in
          let h4 = set_nodes h (unlink h.nodes p c) in
          let h5 =
            if (&&) (h4.nodes p).owner (is_elem (h4.nodes c))
            then remove_from_caches h4 sub
            else h4
          in
          let h6 =
            set_nodes h5 (fun j ->
              if existsb (eqb j) sub
              then with_owner (h5.nodes j) false
              else h5.nodes j)
          in
          ROk h6
        | None -> RRaise (NotFoundErr, h))

(** val bind_res : res -> (heap -> res) -> res **)

let bind_res r f =
  match r with
  | ROk h -> f h
  | RRaise (e, h) -> RRaise (e, h)

(** val adopt : heap -> id -> id -> heap **)

let adopt h p c =
  let o = (h.nodes p).owner in
  let h1 = set_owner h c o in
  if (&&) o (is_elem (h1.nodes c)) then rebuild_caches h1 c else h1

(** val link_last : (id -> nrec) -> id -> id -> id -> nrec **)

let link_last f p c =
  let ks = (f p).kids in
  let f2 =
    match last_opt ks with
    | Some l ->
      let f1 = upd f c (with_prev (f c) (Some l)) in
      upd f1 l (with_next (f1 l) (Some c))
    | None -> f
  in
  let f3 = upd f2 p (with_kids (f2 p) (app (f2 p).kids (c :: []))) in
  upd f3 c (with_next (with_parent (f3 c) (Some p)) None)

(** val append_child : heap -> id -> id -> res **)

let append_child h p c =
  let p0 = h.nodes p in
  if is_childless p0
  then RRaise (HierarchyErr, h)
  else bind_res
         (match (h.nodes c).parent with
          | Some op0 -> remove_child h op0 c
          | None -> ROk h) (fun h1 -> ROk
         (adopt (set_nodes h1 (link_last h1.nodes p c)) p c))

(** val link_before : (id -> nrec) -> id -> id -> id -> nat -> id -> nrec **)

let link_before f p c r i =
  let f2 = upd f p (with_kids (f p) (insert_at i c (f p).kids)) in
  let f3 = upd f2 c (with_next (f2 c) (Some r)) in
  let f4 = upd f3 r (with_prev (f3 r) (Some c)) in
  let f5 =
    match i with
    | O -> upd f4 c (with_prev (f4 c) None)
    | S i' ->
      (match nth_error (f p).kids i' with
       | Some pv ->
         let g = upd f4 pv (with_next (f4 pv) (Some c)) in
         upd g c (with_prev (g c) (Some pv))
       | None -> f4)
  in
  upd f5 c (with_parent (f5 c) (Some p))

(** val insert_before : heap -> id -> id -> id option -> res **)

let insert_before h p c ref =
  let p0 = h.nodes p in
  if is_childless p0
  then RRaise (HierarchyErr, h)
  else (match ref with
        | Some r ->
          (match index_of r p0.kids with
           | Some _ ->
             if eqb r c
             then ROk h
             else bind_res
                    (match (h.nodes c).parent with
                     | Some op0 -> remove_child h op0 c
                     | None -> ROk h) (fun h1 ->
                    match index_of r (h1.nodes p).kids with
                    | Some i ->
                      ROk
                        (adopt (set_nodes h1 (link_before h1.nodes p c r i))
                          p c)
                    | None -> RRaise (NotFoundErr, h1))
           | None -> RRaise (NotFoundErr, h))
        | None -> append_child h p c)

(** val add_element : heap -> id -> id -> bool -> res **)

let add_element h p c allowed =
  if negb allowed then RRaise (IllegalChild, h) else append_child h p c

(** val new_node : heap -> nkind -> heap * id **)

let new_node h k =
  ({ nodes =
    (upd h.nodes h.alloc { kind = k; parent = None; kids = []; prev = None;
      next = None; owner = false; sname = None }); alloc = (S h.alloc);
    edict = h.edict; sdict = h.sdict }, h.alloc)

(** val add_text : heap -> id -> bool -> bool -> bool -> res **)

let add_text h p allowed empty cdata =
  if negb (is_elem (h.nodes p))
  then RRaise (AttributeErr, h)
  else if negb allowed
       then RRaise (IllegalText, h)
       else if (&&) empty (negb cdata)
            then ROk h
            else let (h1, t) = new_node h (if cdata then KCData else KText) in
                 append_child h1 p t

(** val get_elements_by_type : heap -> nat -> id list **)

let get_elements_by_type h q =
  match dict_get q h.edict with
  | Some l -> l
  | None -> []

(** val get_style_by_name : heap -> nat -> id option **)

let get_style_by_name h nm =
  dict_get nm h.sdict

type op =
| OAppend of id * id
| OInsert of id * id * id option
| ORemove of id * id
| OAddElement of id * id * bool
| OAddText of id * bool * bool * bool

(** val step : heap -> op -> res **)

let step h = function
| OAppend (p, c) -> append_child h p c
| OInsert (p, c, r) -> insert_before h p c r
| ORemove (p, c) -> remove_child h p c
| OAddElement (p, c, a) -> add_element h p c a
| OAddText (p, a, e, cd) -> add_text h p a e cd

(** val heap_of : res -> heap **)

let heap_of = function
| ROk h -> h
| RRaise (_, h) -> h
