open BinNums
open BinPos
open Datatypes
open Decimal

module N =
 struct
  (** val add : coq_N -> coq_N -> coq_N **)

  let add n m =
    match n with
    | N0 -> m
    | Npos p -> (match m with
                 | N0 -> n
                 | Npos q -> Npos (Pos.add p q))

  (** val sub : coq_N -> coq_N -> coq_N **)

  let sub n m =
    match n with
    | N0 -> N0
    | Npos n' ->
      (match m with
       | N0 -> n
       | Npos m' ->
         (match Pos.sub_mask n' m' with
          | Pos.IsPos p -> Npos p
          | _ -> N0))

  (** val mul : coq_N -> coq_N -> coq_N **)

  let mul n m =
    match n with
    | N0 -> N0
    | Npos p -> (match m with
                 | N0 -> N0
                 | Npos q -> Npos (Pos.mul p q))

  (** val compare : coq_N -> coq_N -> comparison **)

  let compare n m =
    match n with
    | N0 -> (match m with
             | N0 -> Eq
             | Npos _ -> Lt)
    | Npos n' -> (match m with
                  | N0 -> Gt
                  | Npos m' -> Pos.compare n' m')

  (** val eqb : coq_N -> coq_N -> bool **)

  let eqb n m =
    match n with
    | N0 -> (match m with
             | N0 -> true
             | Npos _ -> false)
    | Npos p -> (match m with
                 | N0 -> false
                 | Npos q -> Pos.eqb p q)

  (** val leb : coq_N -> coq_N -> bool **)

  let leb x y =
    match compare x y with
    | Gt -> false
    | _ -> true

  (** val of_nat : nat -> coq_N **)

  let of_nat = function
  | O -> N0
  | S n' -> Npos (Pos.of_succ_nat n')

  (** val to_uint : coq_N -> uint **)

  let to_uint = function
  | N0 -> D0 Nil
  | Npos p -> Pos.to_uint p
 end
