open Ascii
open Base
open BinNat
open BinNums
open Chars
open Datatypes
open List
open String

(** val filter_char : (coq_N * coq_N) list -> cp -> cp **)

let filter_char filtered c =
  if in_ranges filtered c then cFFFD else c

(** val handle_unrepresentable : (coq_N * coq_N) list -> str -> str **)

let handle_unrepresentable filtered s =
  map (filter_char filtered) s

(** val replace1 : cp -> str -> str -> str **)

let replace1 c r s =
  flat_map (fun x -> if N.eqb x c then r else x :: []) s

(** val sAMP : str **)

let sAMP =
  s2l (String ((Ascii (false, true, true, false, false, true, false, false)),
    (String ((Ascii (true, false, false, false, false, true, true, false)),
    (String ((Ascii (true, false, true, true, false, true, true, false)),
    (String ((Ascii (false, false, false, false, true, true, true, false)),
    (String ((Ascii (true, true, false, true, true, true, false, false)),
    EmptyString))))))))))

(** val sLT : str **)

let sLT =
  s2l (String ((Ascii (false, true, true, false, false, true, false, false)),
    (String ((Ascii (false, false, true, true, false, true, true, false)),
    (String ((Ascii (false, false, true, false, true, true, true, false)),
    (String ((Ascii (true, true, false, true, true, true, false, false)),
    EmptyString))))))))

(** val sGT : str **)

let sGT =
  s2l (String ((Ascii (false, true, true, false, false, true, false, false)),
    (String ((Ascii (true, true, true, false, false, true, true, false)),
    (String ((Ascii (false, false, true, false, true, true, true, false)),
    (String ((Ascii (true, true, false, true, true, true, false, false)),
    EmptyString))))))))

(** val sQUOT : str **)

let sQUOT =
  s2l (String ((Ascii (false, true, true, false, false, true, false, false)),
    (String ((Ascii (true, false, false, false, true, true, true, false)),
    (String ((Ascii (true, false, true, false, true, true, true, false)),
    (String ((Ascii (true, true, true, true, false, true, true, false)),
    (String ((Ascii (false, false, true, false, true, true, true, false)),
    (String ((Ascii (true, true, false, true, true, true, false, false)),
    EmptyString))))))))))))

(** val sREF10 : str **)

let sREF10 =
  s2l (String ((Ascii (false, true, true, false, false, true, false, false)),
    (String ((Ascii (true, true, false, false, false, true, false, false)),
    (String ((Ascii (true, false, false, false, true, true, false, false)),
    (String ((Ascii (false, false, false, false, true, true, false, false)),
    (String ((Ascii (true, true, false, true, true, true, false, false)),
    EmptyString))))))))))

(** val sREF13 : str **)

let sREF13 =
  s2l (String ((Ascii (false, true, true, false, false, true, false, false)),
    (String ((Ascii (true, true, false, false, false, true, false, false)),
    (String ((Ascii (true, false, false, false, true, true, false, false)),
    (String ((Ascii (true, true, false, false, true, true, false, false)),
    (String ((Ascii (true, true, false, true, true, true, false, false)),
    EmptyString))))))))))

(** val sREF9 : str **)

let sREF9 =
  s2l (String ((Ascii (false, true, true, false, false, true, false, false)),
    (String ((Ascii (true, true, false, false, false, true, false, false)),
    (String ((Ascii (true, false, false, true, true, true, false, false)),
    (String ((Ascii (true, true, false, true, true, true, false, false)),
    EmptyString))))))))

(** val escape : (cp * str) list -> str -> str **)

let escape ents s =
  fold_left (fun d e -> replace1 (fst e) (snd e) d) ents
    (replace1 cGT sGT (replace1 cLT sLT (replace1 cAMP sAMP s)))

(** val sanitize : (coq_N * coq_N) list -> (cp * str) list -> str -> str **)

let sanitize filtered ents s =
  escape ents (handle_unrepresentable filtered s)

(** val text_ents : (cp * str) list **)

let text_ents =
  (cCR, sREF13) :: []

(** val text_toXml : (coq_N * coq_N) list -> str -> str **)

let text_toXml filtered s =
  sanitize filtered text_ents s

(** val attr_ents : (cp * str) list **)

let attr_ents =
  (cLF, sREF10) :: ((cCR, sREF13) :: ((cTAB, sREF9) :: []))

(** val quoteattr : (coq_N * coq_N) list -> str -> str **)

let quoteattr filtered s =
  let d = sanitize filtered attr_ents s in
  if mem_cp cQUOT d
  then if mem_cp cAPOS d
       then app (cQUOT :: []) (app (replace1 cQUOT sQUOT d) (cQUOT :: []))
       else app (cAPOS :: []) (app d (cAPOS :: []))
  else app (cQUOT :: []) (app d (cQUOT :: []))

(** val replace_cdend : str -> str -> str **)

let rec replace_cdend r = function
| [] -> []
| a :: s1 ->
  (match s1 with
   | [] -> a :: (replace_cdend r s1)
   | b :: l ->
     (match l with
      | [] -> a :: (replace_cdend r s1)
      | c :: t ->
        if (&&) ((&&) (N.eqb a cRSQB) (N.eqb b cRSQB)) (N.eqb c cGT)
        then app r (replace_cdend r t)
        else a :: (replace_cdend r s1)))

(** val sCDOPEN : str **)

let sCDOPEN =
  s2l (String ((Ascii (false, false, true, true, true, true, false, false)),
    (String ((Ascii (true, false, false, false, false, true, false, false)),
    (String ((Ascii (true, true, false, true, true, false, true, false)),
    (String ((Ascii (true, true, false, false, false, false, true, false)),
    (String ((Ascii (false, false, true, false, false, false, true, false)),
    (String ((Ascii (true, false, false, false, false, false, true, false)),
    (String ((Ascii (false, false, true, false, true, false, true, false)),
    (String ((Ascii (true, false, false, false, false, false, true, false)),
    (String ((Ascii (true, true, false, true, true, false, true, false)),
    EmptyString))))))))))))))))))

(** val sCDCLOSE : str **)

let sCDCLOSE =
  s2l (String ((Ascii (true, false, true, true, true, false, true, false)),
    (String ((Ascii (true, false, true, true, true, false, true, false)),
    (String ((Ascii (false, true, true, true, true, true, false, false)),
    EmptyString))))))

(** val sCDSPLIT : str **)

let sCDSPLIT =
  s2l (String ((Ascii (true, false, true, true, true, false, true, false)),
    (String ((Ascii (true, false, true, true, true, false, true, false)),
    (String ((Ascii (true, false, true, true, true, false, true, false)),
    (String ((Ascii (true, false, true, true, true, false, true, false)),
    (String ((Ascii (false, true, true, true, true, true, false, false)),
    (String ((Ascii (false, false, true, true, true, true, false, false)),
    (String ((Ascii (true, false, false, false, false, true, false, false)),
    (String ((Ascii (true, true, false, true, true, false, true, false)),
    (String ((Ascii (true, true, false, false, false, false, true, false)),
    (String ((Ascii (false, false, true, false, false, false, true, false)),
    (String ((Ascii (true, false, false, false, false, false, true, false)),
    (String ((Ascii (false, false, true, false, true, false, true, false)),
    (String ((Ascii (true, false, false, false, false, false, true, false)),
    (String ((Ascii (true, true, false, true, true, false, true, false)),
    (String ((Ascii (false, true, true, true, true, true, false, false)),
    EmptyString))))))))))))))))))))))))))))))

(** val sCDCR : str **)

let sCDCR =
  s2l (String ((Ascii (true, false, true, true, true, false, true, false)),
    (String ((Ascii (true, false, true, true, true, false, true, false)),
    (String ((Ascii (false, true, true, true, true, true, false, false)),
    (String ((Ascii (false, true, true, false, false, true, false, false)),
    (String ((Ascii (true, true, false, false, false, true, false, false)),
    (String ((Ascii (true, false, false, false, true, true, false, false)),
    (String ((Ascii (true, true, false, false, true, true, false, false)),
    (String ((Ascii (true, true, false, true, true, true, false, false)),
    (String ((Ascii (false, false, true, true, true, true, false, false)),
    (String ((Ascii (true, false, false, false, false, true, false, false)),
    (String ((Ascii (true, true, false, true, true, false, true, false)),
    (String ((Ascii (true, true, false, false, false, false, true, false)),
    (String ((Ascii (false, false, true, false, false, false, true, false)),
    (String ((Ascii (true, false, false, false, false, false, true, false)),
    (String ((Ascii (false, false, true, false, true, false, true, false)),
    (String ((Ascii (true, false, false, false, false, false, true, false)),
    (String ((Ascii (true, true, false, true, true, false, true, false)),
    EmptyString))))))))))))))))))))))))))))))))))

(** val cdata_toXml : (coq_N * coq_N) list -> str -> str **)

let cdata_toXml filtered s = match s with
| [] -> []
| _ :: _ ->
  app sCDOPEN
    (app
      (replace1 cCR sCDCR
        (replace_cdend sCDSPLIT (handle_unrepresentable filtered s)))
      sCDCLOSE)

(** val textnode_toXml : (coq_N * coq_N) list -> str -> str **)

let textnode_toXml filtered s = match s with
| [] -> []
| _ :: _ -> text_toXml filtered s
