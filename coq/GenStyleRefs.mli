open BinNums

val scanned_refattrs : (coq_N list * coq_N list) list
