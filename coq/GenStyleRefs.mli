open BinNums

val scanned_refattrs : (coq_N list * coq_N list) list

val redirect_excluded : (coq_N list * coq_N list) list

val redirect_excluded_on :
  ((coq_N list * coq_N list) * (coq_N list * coq_N list)) list
