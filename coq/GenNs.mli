open BinNums

val toolsversion : coq_N list
