open Base
open BinNat
open BinNums
open Datatypes

(** val is_format : cp -> bool **)

let is_format c =
  (||)
    ((||)
      ((||)
        ((||)
          (N.eqb c (Npos (Coq_xI (Coq_xO (Coq_xO (Coq_xO (Coq_xI Coq_xH)))))))
          (N.eqb c (Npos (Coq_xI (Coq_xO (Coq_xO (Coq_xI (Coq_xO (Coq_xO
            Coq_xH)))))))))
        (N.eqb c (Npos (Coq_xI (Coq_xO (Coq_xO (Coq_xI (Coq_xO (Coq_xI
          Coq_xH)))))))))
      (N.eqb c (Npos (Coq_xI (Coq_xO (Coq_xO (Coq_xO (Coq_xO (Coq_xO
        Coq_xH)))))))))
    (N.eqb c (Npos (Coq_xI (Coq_xO (Coq_xO (Coq_xO (Coq_xO (Coq_xI
      Coq_xH))))))))

(** val first_format : str -> str -> ((str * cp) * str) option **)

let rec first_format s pre =
  match s with
  | [] -> None
  | c :: r ->
    if is_format c
    then Some ((pre, c), r)
    else first_format r (app pre (c :: []))

type lkind =
| LNumber of cp * str * str * nat
| LBullet of cp

type level = { lv_level : nat; lv_kind : lkind; lv_factor : nat }

(** val make_level : bool -> nat -> str -> level result **)

let make_level show_all i spec =
  match first_format spec [] with
  | Some p ->
    let (p0, suf) = p in
    let (pre, f) = p0 in
    Ok { lv_level = (S i); lv_kind = (LNumber (f, pre, suf,
    (if show_all then S i else S O))); lv_factor = (S i) }
  | None ->
    (match spec with
     | [] -> Raise IndexErr
     | c :: _ ->
       Ok { lv_level = (S i); lv_kind = (LBullet c); lv_factor = (S i) })

(** val build_from : bool -> nat -> str list -> level list result **)

let rec build_from show_all i = function
| [] -> Ok []
| s :: r ->
  (match make_level show_all i s with
   | Ok l ->
     (match build_from show_all (S i) r with
      | Ok ls -> Ok (l :: ls)
      | Raise e -> Raise e)
   | Raise e -> Raise e)

(** val style_from_list : str list -> bool -> level list result **)

let style_from_list specs show_all =
  build_from show_all O specs

(** val split1 : cp -> str -> str -> str list **)

let rec split1 d s cur =
  match s with
  | [] -> cur :: []
  | c :: r ->
    if N.eqb c d
    then cur :: (split1 d r [])
    else split1 d r (app cur (c :: []))

(** val style_from_string : str -> cp -> bool -> level list result **)

let style_from_string specifiers d show_all =
  style_from_list (split1 d specifiers []) show_all

(** val is_letter : cp -> bool **)

let is_letter c =
  (||)
    ((&&)
      (N.leb (Npos (Coq_xI (Coq_xO (Coq_xO (Coq_xO (Coq_xO (Coq_xO
        Coq_xH))))))) c)
      (N.leb c (Npos (Coq_xO (Coq_xI (Coq_xO (Coq_xI (Coq_xI (Coq_xO
        Coq_xH)))))))))
    ((&&)
      (N.leb (Npos (Coq_xI (Coq_xO (Coq_xO (Coq_xO (Coq_xO (Coq_xI
        Coq_xH))))))) c)
      (N.leb c (Npos (Coq_xO (Coq_xI (Coq_xO (Coq_xI (Coq_xI (Coq_xI
        Coq_xH)))))))))

(** val span : (cp -> bool) -> str -> str * str **)

let rec span p s = match s with
| [] -> ([], [])
| c :: r -> if p c then let (a, b) = span p r in ((c :: a), b) else ([], s)

(** val css_split : str -> (str * str) option **)

let css_split spacing =
  let (_, s1) = span is_letter spacing in
  (match s1 with
   | [] -> None
   | _ :: _ ->
     let (num, s2) = span (fun c -> negb (is_letter c)) s1 in
     let (unit0, _) = span is_letter s2 in Some (num, unit0))
