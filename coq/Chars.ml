open Base
open BinNat
open BinNums
open List

(** val xml10_char : cp -> bool **)

let xml10_char c =
  (||)
    ((||)
      ((||)
        ((||)
          ((||) (N.eqb c (Npos (Coq_xI (Coq_xO (Coq_xO Coq_xH)))))
            (N.eqb c (Npos (Coq_xO (Coq_xI (Coq_xO Coq_xH))))))
          (N.eqb c (Npos (Coq_xI (Coq_xO (Coq_xI Coq_xH))))))
        ((&&)
          (N.leb (Npos (Coq_xO (Coq_xO (Coq_xO (Coq_xO (Coq_xO Coq_xH)))))) c)
          (N.leb c (Npos (Coq_xI (Coq_xI (Coq_xI (Coq_xI (Coq_xI (Coq_xI
            (Coq_xI (Coq_xI (Coq_xI (Coq_xI (Coq_xI (Coq_xO (Coq_xI (Coq_xO
            (Coq_xI Coq_xH)))))))))))))))))))
      ((&&)
        (N.leb (Npos (Coq_xO (Coq_xO (Coq_xO (Coq_xO (Coq_xO (Coq_xO (Coq_xO
          (Coq_xO (Coq_xO (Coq_xO (Coq_xO (Coq_xO (Coq_xO (Coq_xI (Coq_xI
          Coq_xH)))))))))))))))) c)
        (N.leb c (Npos (Coq_xI (Coq_xO (Coq_xI (Coq_xI (Coq_xI (Coq_xI
          (Coq_xI (Coq_xI (Coq_xI (Coq_xI (Coq_xI (Coq_xI (Coq_xI (Coq_xI
          (Coq_xI Coq_xH)))))))))))))))))))
    ((&&)
      (N.leb (Npos (Coq_xO (Coq_xO (Coq_xO (Coq_xO (Coq_xO (Coq_xO (Coq_xO
        (Coq_xO (Coq_xO (Coq_xO (Coq_xO (Coq_xO (Coq_xO (Coq_xO (Coq_xO
        (Coq_xO Coq_xH))))))))))))))))) c)
      (N.leb c (Npos (Coq_xI (Coq_xI (Coq_xI (Coq_xI (Coq_xI (Coq_xI (Coq_xI
        (Coq_xI (Coq_xI (Coq_xI (Coq_xI (Coq_xI (Coq_xI (Coq_xI (Coq_xI
        (Coq_xI (Coq_xO (Coq_xO (Coq_xO (Coq_xO Coq_xH)))))))))))))))))))))))

(** val in_ranges : (coq_N * coq_N) list -> cp -> bool **)

let rec in_ranges r c =
  match r with
  | [] -> false
  | p :: r' ->
    let (lo, hi) = p in (||) ((&&) (N.leb lo c) (N.leb c hi)) (in_ranges r' c)

(** val is_alpha : cp -> bool **)

let is_alpha c =
  (||)
    ((&&)
      (N.leb (Npos (Coq_xI (Coq_xO (Coq_xO (Coq_xO (Coq_xO (Coq_xO
        Coq_xH))))))) c)
      (N.leb c (Npos (Coq_xO (Coq_xI (Coq_xO (Coq_xI (Coq_xI (Coq_xO
        Coq_xH)))))))))
    ((&&)
      (N.leb (Npos (Coq_xI (Coq_xO (Coq_xO (Coq_xO (Coq_xO (Coq_xI
        Coq_xH))))))) c)
      (N.leb c (Npos (Coq_xO (Coq_xI (Coq_xO (Coq_xI (Coq_xI (Coq_xI
        Coq_xH)))))))))

(** val is_digit : cp -> bool **)

let is_digit c =
  (&&) (N.leb (Npos (Coq_xO (Coq_xO (Coq_xO (Coq_xO (Coq_xI Coq_xH)))))) c)
    (N.leb c (Npos (Coq_xI (Coq_xO (Coq_xO (Coq_xI (Coq_xI Coq_xH)))))))

(** val nc_start : cp -> bool **)

let nc_start c =
  (||) (is_alpha c)
    (N.eqb c (Npos (Coq_xI (Coq_xI (Coq_xI (Coq_xI (Coq_xI (Coq_xO
      Coq_xH))))))))

(** val nc_char : cp -> bool **)

let nc_char c =
  (||)
    ((||) ((||) (nc_start c) (is_digit c))
      (N.eqb c (Npos (Coq_xI (Coq_xO (Coq_xI (Coq_xI (Coq_xO Coq_xH))))))))
    (N.eqb c (Npos (Coq_xO (Coq_xI (Coq_xI (Coq_xI (Coq_xO Coq_xH)))))))

(** val name_start : cp -> bool **)

let name_start c =
  (||) (nc_start c)
    (N.eqb c (Npos (Coq_xO (Coq_xI (Coq_xO (Coq_xI (Coq_xI Coq_xH)))))))

(** val name_char : cp -> bool **)

let name_char c =
  (||) (nc_char c)
    (N.eqb c (Npos (Coq_xO (Coq_xI (Coq_xO (Coq_xI (Coq_xI Coq_xH)))))))

(** val is_ws : cp -> bool **)

let is_ws c =
  (||)
    ((||)
      ((||)
        (N.eqb c (Npos (Coq_xO (Coq_xO (Coq_xO (Coq_xO (Coq_xO Coq_xH)))))))
        (N.eqb c (Npos (Coq_xI (Coq_xO (Coq_xO Coq_xH))))))
      (N.eqb c (Npos (Coq_xO (Coq_xI (Coq_xO Coq_xH))))))
    (N.eqb c (Npos (Coq_xI (Coq_xO (Coq_xI Coq_xH)))))

(** val is_ncname : str -> bool **)

let is_ncname = function
| [] -> false
| c :: r -> (&&) (nc_start c) (forallb nc_char r)
