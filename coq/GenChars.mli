open BinNums

val filtered_ranges : (coq_N * coq_N) list

val xml_prologue : coq_N list
