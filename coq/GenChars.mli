open BinNums

val filtered_ranges : (coq_N * coq_N) list
