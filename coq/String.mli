open Ascii

type string =
| EmptyString
| String of ascii * string

val list_ascii_of_string : string -> ascii list
