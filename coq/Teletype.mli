open Base
open BinNat
open Datatypes
open List

type tnode =
| TText of str
| TCData of str
| TS of nat option
| TTab
| TLineBreak
| TOther of tnode list

val flush : str -> tnode list

val close_run : str -> nat option -> tnode list * str

val enc : str -> str -> nat option -> tnode list

val encode : str -> tnode list

type allows = { a_text : bool; a_s : bool; a_tab : bool; a_lb : bool }

val first_refusal : allows -> tnode list -> exn option

val add_text_checked : allows -> tnode list -> str -> tnode list result

val extract_node : tnode -> str

val extract : tnode list -> str
