(* Grammar.v — the grammar checks of odf/element.py (Element.__init__, addElement, addText, addCDATA, setAttribute) over
   the four tables of odf/grammar.py, and what the ODF 1.2 schema permits over the tables read from the RELAX NG file.
   Elements and attributes are numbers (the numbering of gen/GenGrammar.v). *)
From Odf Require Import model.Base.

Fixpoint lookup {A} (k : N) (t : list (N * A)) : option A :=
  match t with [] => None | (k', v) :: r => if N.eqb k' k then Some v else lookup k r end.
Definition memN (x : N) (l : list N) : bool := existsb (N.eqb x) l.
Definition mem2 (x : N * N) (l : list (N * N)) : bool := existsb (fun y => N.eqb (fst x) (fst y) && N.eqb (snd x) (snd y)) l.

Record gtab := mkG {
  gt_children : list (N * option (list N));   (* grammar.allowed_children *)
  gt_text : list N;                           (* grammar.allows_text *)
  gt_attrs : list (N * option (list N));      (* grammar.allowed_attributes *)
  gt_req : list (N * list N);                 (* grammar.required_attributes *)
  gt_local : list (N * str)                   (* local name of every attribute *)
}.

Inductive outcome := Accepted | IllegalChildErr | IllegalTextErr | AttributeErr | ValueErr.
Definition accepted (o : outcome) : bool := match o with Accepted => true | _ => false end.

(* grammar.allowed_children.get(qname): a missing entry and None both mean "no restriction" *)
Definition child_list (G : gtab) (p : N) : option (list N) :=
  match lookup p (gt_children G) with Some (Some l) => Some l | _ => None end.
Definition attr_list (G : gtab) (el : N) : option (list N) :=
  match lookup el (gt_attrs G) with Some (Some l) => Some l | _ => None end.

(* Element.addElement(child, check_grammar) *)
Definition add_element_in (allowed : option (list N)) (c : N) (check : bool) : outcome :=
  if check then match allowed with Some l => if memN c l then Accepted else IllegalChildErr | None => Accepted end
  else Accepted.
Definition add_element (G : gtab) (p c : N) (check : bool) : outcome := add_element_in (child_list G p) c check.
(* Element.addText / addCDATA (text, check_grammar) *)
Definition add_text (G : gtab) (p : N) (check : bool) : outcome :=
  if check && negb (memN p (gt_text G)) then IllegalTextErr else Accepted.

(* the keyword of an attribute: a[1].lower().replace('-','') (local names are ASCII: obligation ascii_locals) *)
Definition lower (c : cp) : cp := if (65 <=? c) && (c <=? 90) then c + 32 else c.
Definition kw_of (s : str) : str := filter (fun c => negb (c =? 45)) (map lower s).
Definition attr_kw (L : list (N * str)) (a : N) : str := match lookup a L with Some s => kw_of s | None => [] end.

(* Element.setAttribute(keyword, value, check_grammar), as far as the grammar decides it (the value conversion is C15) *)
Definition set_attribute_in (L : list (N * str)) (allowed : option (list N)) (kw : str) (check : bool) : outcome :=
  match allowed with
  | None => AttributeErr
  | Some l => if existsb (fun a => str_eqb (attr_kw L a) kw) l then Accepted else if check then AttributeErr else ValueErr
  end.
Definition set_attribute' (G : gtab) (el : N) (kw : str) (check : bool) : outcome := set_attribute_in (gt_local G) (attr_list G el) kw check.
Definition set_attribute (G : gtab) (el : N) (kw : str) (check : bool) : outcome :=
  match attr_list G el with
  | None => AttributeErr                          (* "Unable to add simple attribute - use (namespace, localpart)" *)
  | Some l => if existsb (fun a => str_eqb (attr_kw (gt_local G) a) kw) l then Accepted
              else if check then AttributeErr else ValueErr    (* allowed_args.index(attr) *)
  end.

(* Element.__init__(..., check_grammar): given = the attributes present when the required ones are tested *)
Definition construct (G : gtab) (el : N) (given : list N) (check : bool) : outcome :=
  if check then match lookup el (gt_req G) with
                | Some r => if forallb (fun a => memN a given) r then Accepted else AttributeErr
                | None => Accepted end
  else Accepted.

(* ---------------- the schema ---------------- *)
Definition srow := ((bool * list N) * bool * (bool * list N) * list N)%type.
Definition s_child_row (row : option srow) (c : N) : bool :=
  match row with Some (cs, _, _, _) => fst cs || memN c (snd cs) | None => false end.
Definition s_child (S : list (N * srow)) (p c : N) : bool := s_child_row (lookup p S) c.
Definition s_text (S : list (N * srow)) (p : N) : bool :=
  match lookup p S with Some (_, t, _, _) => t | None => false end.
Definition s_attr (S : list (N * srow)) (el a : N) : bool :=
  match lookup el S with Some (_, _, ats, _) => fst ats || memN a (snd ats) | None => false end.
Definition s_attr_kw (S : list (N * srow)) (L : list (N * str)) (el : N) (kw : str) : bool :=
  match lookup el S with Some (_, _, ats, _) => fst ats || existsb (fun a => str_eqb (attr_kw L a) kw) (snd ats) | None => false end.
Definition s_required (S : list (N * srow)) (el : N) : list N :=
  match lookup el S with Some (_, _, _, r) => r | None => [] end.
Definition s_complete (S : list (N * srow)) (el : N) (given : list N) : bool := forallb (fun a => memN a given) (s_required S el).
