(* Teletype.v — model of odf/teletype.py (WhitespaceText.addTextToElement,
   _emitTextBuffer, _emitSpaces, extractText).

   The child list of an element is a list of [tnode]; the encoder appends to it.
   The Python loop
        while i < len(s): ch = s[i] ...   (with an inner while over a run of blanks)
   is rendered as structural recursion over the string carrying the two pieces
   of instance state the loop has: [buf] (self.textBuffer) and [sc]:
     sc = None     — not inside a run of blanks
     sc = Some k   — a blank has just been appended to the buffer and k further
                     blanks of the same run have been counted (self.spaceCount)
   The inner while loop is the [Some k -> Some (k+1)] transition. *)
From Odf Require Import model.Base.

Inductive tnode :=
  | TText (s : str)                (* element.Text *)
  | TCData (s : str)               (* element.CDATASection: ignored by extractText *)
  | TS (c : option nat)            (* text:s, attribute text:c (None: absent or falsy) *)
  | TTab                           (* text:tab *)
  | TLineBreak                     (* text:line-break *)
  | TOther (kids : list tnode).    (* any other element: extractText recurses *)

(* _emitTextBuffer: addText skips nothing here because the buffer is non-empty
   when len(textBuffer) > 0; an empty buffer emits nothing. *)
Definition flush (buf : str) : list tnode :=
  match buf with [] => [] | _ => [TText buf] end.

(* closing a run of blanks: `if self.spaceCount > 0: _emitTextBuffer; _emitSpaces` *)
Definition close_run (buf : str) (sc : option nat) : list tnode * str :=
  match sc with
  | Some (S k) => (flush buf ++ [TS (Some (S k))], [])
  | _ => ([], buf)
  end.

Fixpoint enc (s : str) (buf : str) (sc : option nat) : list tnode :=
  match s with
  | [] => let '(out, buf') := close_run buf sc in out ++ flush buf'
  | c :: r =>
      match sc, (c =? cSP) with
      | Some k, true => enc r buf (Some (S k))
      | _, _ =>
          let '(out, buf') := close_run buf sc in
          if c =? cTAB then out ++ flush buf' ++ TTab :: enc r [] None
          else if c =? cLF then out ++ flush buf' ++ TLineBreak :: enc r [] None
          else if c =? cSP then out ++ enc r (buf' ++ [cSP]) (Some 0%nat)
          else out ++ enc r (buf' ++ [c]) None
      end
  end.

(* addTextToElement(elem, s): children appended to the existing ones. *)
Definition encode (s : str) : list tnode := enc s [] None.
Definition add_text_to_element (kids : list tnode) (s : str) : list tnode :=
  kids ++ encode s.

(* With grammar checking the first refused addText/addElement raises; which it
   is depends on what the receiving element allows. *)
Record allows := { a_text : bool; a_s : bool; a_tab : bool; a_lb : bool }.
Fixpoint first_refusal (al : allows) (ns : list tnode) : option exn :=
  match ns with
  | [] => None
  | TText _ :: r => if a_text al then first_refusal al r else Some IllegalText
  | TS _ :: r => if a_s al then first_refusal al r else Some IllegalChild
  | TTab :: r => if a_tab al then first_refusal al r else Some IllegalChild
  | TLineBreak :: r => if a_lb al then first_refusal al r else Some IllegalChild
  | _ :: r => first_refusal al r
  end.
Definition add_text_checked (al : allows) (kids : list tnode) (s : str)
  : result (list tnode) :=
  match first_refusal al (encode s) with
  | Some e => Raise e
  | None => Ok (kids ++ encode s)
  end.

(* extractText *)
Fixpoint extract_node (n : tnode) : str :=
  match n with
  | TText s => s
  | TCData _ => []
  | TS (Some k) => repeat cSP k
  | TS None => [cSP]
  | TTab => [cTAB]
  | TLineBreak => [cLF]
  | TOther kids => flat_map extract_node kids
  end.
Definition extract (kids : list tnode) : str := flat_map extract_node kids.

(* "never hold a literal tab or newline nor two adjacent literal spaces" *)
Fixpoint no_two_spaces (s : str) : bool :=
  match s with
  | a :: ((b :: _) as r) => negb ((a =? cSP) && (b =? cSP)) && no_two_spaces r
  | _ => true
  end.
Definition clean_text (s : str) : bool :=
  negb (mem_cp cTAB s) && negb (mem_cp cLF s) && no_two_spaces s.
Definition clean_node (n : tnode) : bool :=
  match n with TText s => clean_text s && negb (str_eqb s []) | _ => true end.
(* two Text nodes are never adjacent (a consumer concatenating neighbours would
   otherwise see a blank at the end of one and at the start of the next) *)
Fixpoint no_adjacent_text (ns : list tnode) : bool :=
  match ns with
  | TText _ :: ((TText _ :: _) as r) => false
  | _ :: r => no_adjacent_text r
  | [] => true
  end.

(* What a parser makes of the serialised children (save + load, or any XML consumer):
   a CDATA section arrives as character data, character data that stands side by side
   arrives as one text node, and an empty text node leaves no trace. *)
Fixpoint merge_text (ns : list tnode) : list tnode :=
  match ns with
  | [] => []
  | TText a :: r =>
      match merge_text r with
      | TText b :: r' => TText (a ++ b) :: r'
      | m => match a with [] => m | _ => TText a :: m end
      end
  | n :: r => n :: merge_text r
  end.
Fixpoint reparse_node (n : tnode) : tnode :=
  match n with
  | TCData s => TText s
  | TOther kids => TOther (merge_text (map reparse_node kids))
  | x => x
  end.
Definition reparse (ns : list tnode) : list tnode := merge_text (map reparse_node ns).
(* extractText skips CDATA sections; a tree that holds none reads the same before and after *)
Fixpoint no_cdata_node (n : tnode) : bool :=
  match n with
  | TCData _ => false
  | TOther kids => forallb no_cdata_node kids
  | _ => true
  end.
