(* Construct.v — Element.__init__ as far as the document can see it: a new element is
   created, its attributes are processed one by one (each step may raise: unknown
   keyword -> AttributeError, invalid value -> ValueError, refused text -> IllegalText),
   the required-attribute check runs when check_grammar is on, and only then the
   `parent` pseudo-attribute attaches the element (Element.addElement, grammar check
   included).  Also: Element.setAttrNS on an existing element (convert, then store). *)
From Odf Require Import model.Base model.Dom.

Definition new_elem (h : heap) (q : nat) (sn : option nat) : heap * id :=
  (mkH (upd (nodes h) (alloc h) (mkN (KElem q) None [] None None false sn)) (S (alloc h)) (edict h) (sdict h), alloc h).

Fixpoint first_raise (steps : list (option exn)) : option exn :=
  match steps with
  | [] => None
  | Some e :: _ => Some e
  | None :: r => first_raise r
  end.

(* steps: the outcome of each text/cdata/attribute step in the order __init__ performs them *)
Definition construct (h : heap) (q : nat) (sn : option nat) (steps : list (option exn))
    (check required_ok : bool) (par : option (id * bool)) : res :=
  let '(h1, n) := new_elem h q sn in
  match first_raise steps with
  | Some e => RRaise e h1
  | None =>
      if check && negb required_ok then RRaise AttributeErr h1
      else match par with
           | Some (p, allowed) => add_element h1 p n allowed
           | None => ROk h1
           end
  end.

(* the order the code had before the repair: `parent` was one of the keyword steps and
   attached the element at that point (kept to show what the theorem excludes) *)
Inductive ostep := OAttr (r : option exn) | OParent (p : id) (allowed : bool).
Fixpoint old_steps (h : heap) (n : id) (steps : list ostep) : res :=
  match steps with
  | [] => ROk h
  | OAttr None :: r => old_steps h n r
  | OAttr (Some e) :: _ => RRaise e h
  | OParent p allowed :: r =>
      match add_element h p n allowed with
      | ROk h' => old_steps h' n r
      | RRaise e h' => RRaise e h'
      end
  end.
Definition construct_old (h : heap) (q : nat) (sn : option nat) (steps : list ostep) (check required_ok : bool) : res :=
  let '(h1, n) := new_elem h q sn in
  match old_steps h1 n steps with
  | ROk h2 => if check && negb required_ok then RRaise AttributeErr h2 else ROk h2
  | r => r
  end.

(* attribute store of one element: setAttrNS converts first, stores second *)
Definition attrs := list (nat * str).
Fixpoint attr_set (k : nat) (v : str) (a : attrs) : attrs :=
  match a with
  | [] => [(k, v)]
  | (k', v') :: r => if Nat.eqb k' k then (k, v) :: r else (k', v') :: attr_set k v r
  end.
Definition set_attr_ns (a : attrs) (k : nat) (converted : result str) : result attrs :=
  match converted with Ok v => Ok (attr_set k v a) | Raise e => Raise e end.
(* setAttribute(keyword): unknown keyword -> AttributeError before anything else *)
Definition set_attribute (a : attrs) (known : option nat) (converted : result str) : result attrs :=
  match known with None => Raise AttributeErr | Some k => set_attr_ns a k converted end.
