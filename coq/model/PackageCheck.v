(* PackageCheck.v — deciders for the premises of "no member name occurring twice" (C03): the
   (folder, local name) pairs of the members a document tree gives rise to, and the three conditions
   under which distinct pairs are distinct member names.  No proofs here (proofs/PackageNoDup.v);
   extracted, so that the check evaluates the premises on the model image of every real document. *)
From Odf Require Import model.Base model.XmlLex model.Package.

Definition cO : cp := 79.
Definition cat (pn : str * str) : str := fst pn ++ snd pn.

Fixpoint pairs_xml (top : bool) (path : str) (o : odoc) : list (str * str) :=
  match o with
  | ODoc mt folder hs _ kids =>
      [(path, s2l "styles.xml"); (path, s2l "content.xml")]
      ++ (if hs then [(path, s2l "settings.xml")] else [])
      ++ (if top then [([], s2l "meta.xml")] else [])
      ++ flat_map (fun k => pairs_xml false (objfolder k) k) kids
  end.

Fixpoint pairs_pics (path : str) (o : odoc) : list (str * str) :=
  match o with
  | ODoc _ _ _ pics kids =>
      map (fun p => (path, pc_name p)) pics ++ flat_map (fun k => pairs_pics (objfolder k) k) kids
  end.

Definition thumb_pairs (t : topdoc) : list (str * str) :=
  match t_thumb t with Some _ => [([], sTHUMB)] | None => [] end.

(* everything the library names itself *)
Definition core (t : topdoc) : list (str * str) :=
  ([], sMANIFEST) :: ([], sMIMETYPE) :: pairs_xml true [] (t_root t) ++ pairs_pics [] (t_root t) ++ thumb_pairs t.

(* the opaque extra files that are written (those with content, the signature file left out) *)
Definition extra_names (t : topdoc) : list str :=
  flat_map (fun x => match snd x with Some _ => [fst (fst x)] | None => [] end)
           (filter (fun x => negb (str_eqb (fst (fst x)) sSIG)) (t_extras t)).

(* ---- shape of folders and local names ---- *)
Definition leaf_ok (n : str) : bool := match n with c :: _ => negb (c =? cO) | [] => false end.
Definition path_sep (p q : str) : bool :=
  match strip_prefix p q with Some (c :: _) => c =? cO | _ => true end.
Definition shape_ok (l : list (str * str)) : bool :=
  forallb (fun x => leaf_ok (snd x)) l &&
  forallb (fun x => forallb (fun y => path_sep (fst x) (fst y)) l) l.

(* ---- decidable distinctness ---- *)
Definition pair_eqb (a b : str * str) : bool := str_eqb (fst a) (fst b) && str_eqb (snd a) (snd b).
Fixpoint nodupb {A} (eqb : A -> A -> bool) (l : list A) : bool :=
  match l with [] => true | x :: r => negb (existsb (eqb x) r) && nodupb eqb r end.
Definition pairs_distinct (t : topdoc) : bool := nodupb pair_eqb (core t).
Definition extras_apart (t : topdoc) : bool :=
  nodupb str_eqb (extra_names t) &&
  forallb (fun e => negb (existsb (str_eqb e) (map cat (core t)))) (extra_names t).

