(* ConvInst.v — the converter model over the regenerated tables *)
From Odf Require Import model.Base model.Regex model.Convert gen.GenConv.
Definition kind_of (f : option N) : ckind := match f with Some i => nth (N.to_nat i) conv_kinds KId | None => KId end.
Definition type_of (j : N) : stype := nth (N.to_nat j) schema_types SAny.
Definition validating (k : ckind) : bool := match k with KEnum _ | KPat _ | KPatPrefix _ | KUnion _ _ => true | _ => false end.
(* the instances with their positions *)
Definition numbered : list (N * (option N * N)) := combine (map N.of_nat (seq 0 (List.length instances))) instances.
Definition i_convert (f : option N) (s : str) : cres := convert (kind_of f) s.
Definition i_valid (j : N) (s : str) : bool := s_valid (type_of j) s.
