(* GrammarInst.v — the grammar model over the regenerated tables *)
From Odf Require Import model.Base model.Grammar gen.GenGrammar.
Definition G : gtab := mkG g_children g_text g_attrs g_required attr_local.
Definition S : list (N * srow) := schema_rows.
Definition selems : list N := map fst schema_rows.
Definition attr_ids : list N := map fst attr_local.
Definition known (p : N) : bool := negb (memN p dev_unknown).
Definition g_req_of (el : N) : list N := match lookup el (gt_req G) with Some r => r | None => [] end.
Definition i_add_element := add_element G.
Definition i_add_text := add_text G.
Definition i_set_attribute := set_attribute G.
Definition i_construct := construct G.
