(* HtmlDoc.v — the output of odf2xhtml.py as a sequence of writer events.  Every handler of ODF2XHTML produces output
   through opentag / closetag / emptytag / writedata, plus three literal forms: the character reference for text:s, the
   escaped strings written with writeout(escape(..)) (the same bytes as writedata), and the internal style sheet between
   the CDATA markers of html_body().  h_render is what those calls write, in order; the harness records the calls of a real
   conversion and compares the real output with h_render of the recorded events (tools/props/C18.py). *)
From Odf Require Import model.Base model.Chars model.XmlPrint model.XmlLex model.Html.

Inductive hev :=
  | HOpen (tag : str) (atts : list (str * str)) (block : bool)      (* opentag(tag, attrs, block) *)
  | HClose (tag : str) (block : bool)                               (* closetag(tag, block) *)
  | HEmpty (tag : str) (atts : list (str * str))                    (* emptytag(tag, attrs) *)
  | HData (d : str)                                                 (* writedata() / writeout(escape(d)) *)
  | HNbsp                                                           (* writeout('&#160;') *)
  | HCss (body : str).                                              (* '/*<![CDATA[*/\n' css '/*]]>*/\n' *)

Definition sNBSP : str := s2l "&#160;".
Definition sCOPEN : str := s2l "/*".          (* comment brackets of the style sheet language around the CDATA markers *)
Definition sCCLOSE : str := s2l "*/" ++ [10].
(* the character data the style element ends up with *)
Definition css_text (body : str) : str := sCOPEN ++ sCCLOSE ++ body ++ sCOPEN ++ sCCLOSE.
(* what is written: the CDATA section holds  */\n body /*  with every "]]>" of the body split *)
Definition h_css (body : str) : str :=
  sCOPEN ++ sCDOPEN ++ sCCLOSE ++ replace_cdend sCDSPLIT body ++ sCOPEN ++ sCDCLOSE ++ sCCLOSE.

Definition h_event (e : hev) : str :=
  match e with
  | HOpen t a b => h_opentag t a b
  | HClose t b => h_closetag t b
  | HEmpty t a => h_emptytag t a
  | HData d => h_writedata d
  | HNbsp => sNBSP
  | HCss s => h_css s
  end.
Definition h_render (evs : list hev) : str := flat_map h_event evs.

(* ---- the token stream a conforming parser must see: one token per tag event, character data exactly as given ---- *)
Definition flushT (acc : str) : list tok := match acc with [] => [] | _ => [TkChars acc] end.
Fixpoint ev_toks (evs : list hev) (acc : str) : list tok :=
  match evs with
  | [] => flushT acc
  | HOpen t a b :: r => flushT acc ++ TkStart t a :: ev_toks r (nl b)
  | HClose t b :: r => flushT acc ++ TkEnd t :: ev_toks r (nl b)
  | HEmpty t a :: r => flushT acc ++ TkEmpty t a :: ev_toks r [10]
  | HData d :: r => ev_toks r (acc ++ d)
  | HNbsp :: r => ev_toks r (acc ++ [160])
  | HCss s :: r => ev_toks r (acc ++ css_text s)
  end.

(* ---- tag stack discipline: every closetag closes the innermost open tag, one root, text only inside elements ---- *)
Fixpoint wellnested (evs : list hev) (stk : list str) (rooted : bool) : bool :=
  match evs with
  | [] => match stk with [] => rooted | _ => false end
  | HOpen t _ _ :: r => match stk with [] => negb rooted && wellnested r [t] true | _ => wellnested r (t :: stk) true end
  | HClose t _ :: r => match stk with t' :: s => str_eqb t t' && wellnested r s rooted | [] => false end
  | HEmpty _ _ :: r => match stk with [] => negb rooted && wellnested r [] true | _ => wellnested r stk true end
  | HData _ :: r | HCss _ :: r => match stk with [] => false | _ => wellnested r stk rooted end
  | HNbsp :: r => match stk with [] => false | _ => wellnested r stk rooted end
  end.

(* what the strings of an event must be for the statement to apply: tag and attribute names are names, all other
   strings are arbitrary XML characters (character data and the style sheet without carriage return: a parser
   normalises those before anything else) *)
Definition is_name (s : str) : bool := match s with [] => false | c :: r => name_start c && forallb name_char r end.
Definition att_okb (kv : str * str) : bool := is_name (fst kv) && forallb xml10_char (snd kv).
Definition plain (s : str) : bool := forallb xml10_char s && negb (mem_cp cCR s).
Definition ev_ok (e : hev) : bool :=
  match e with
  | HOpen t a _ | HEmpty t a => is_name t && forallb att_okb a
  | HClose t _ => is_name t
  | HData d | HCss d => plain d
  | HNbsp => true
  end.
