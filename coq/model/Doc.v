(* Doc.v — an OpenDocument as its eight sections; the selection of automatic styles for the two parts
   (_scanoneelement, _parseoneelement, _used_auto_styles), the generator normalisation
   (__replaceGenerator) and the renderers contentxml, stylesxml, metaxml, settingsxml, xml. *)
From Odf Require Import model.Base model.Chars model.XmlPrint model.XmlLex model.XmlTree.

Record odfdoc := mkDoc {
  d_mime : str;
  d_meta : node; d_scripts : node; d_ffd : node; d_settings : node;
  d_styles : node; d_auto : node; d_master : node; d_body : node
}.

Definition kids_of (t : node) : list node := match t with Elem _ _ k => k | _ => [] end.
Definition atts_of (t : node) : list (qname * str) := match t with Elem _ a _ => a | _ => [] end.
Definition is_element (t : node) : bool := match t with Elem _ _ _ => true | _ => false end.

(* ---------------- automatic styles ---------------- *)
Section AutoStyles.
Variable refattrs : list qname.          (* _STYLE_REFERENCE_ATTRIBUTES, regenerated *)

(* str.split(): runs of white space separate the tokens *)
Definition py_space (c : cp) : bool :=
  ((9 <=? c) && (c <=? 13)) || ((28 <=? c) && (c <=? 32)) || (c =? 133) || (c =? 160) || (c =? 5760) ||
  ((8192 <=? c) && (c <=? 8202)) || (c =? 8232) || (c =? 8233) || (c =? 8239) || (c =? 8287) || (c =? 12288).
Fixpoint py_split (s : str) (cur : str) : list str :=
  match s with
  | [] => match cur with [] => [] | _ => [cur] end
  | c :: r => if py_space c then (match cur with [] => py_split r [] | _ => cur :: py_split r [] end)
              else py_split r (cur ++ [c])
  end.

Definition mem_str (x : str) (l : list str) : bool := existsb (str_eqb x) l.
Definition add_name (names : list str) (n : str) : list str := if mem_str n names then names else names ++ [n].

(* _scanoneelement: the names one element refers to *)
Definition scan_one (atts : list (qname * str)) (names : list str) : list str :=
  fold_left (fun acc a =>
    if existsb (qname_eqb (fst a)) refattrs && negb (str_eqb (snd a) [])
    then fold_left add_name (py_split (snd a) []) acc else acc) atts names.

(* _parseoneelement(top): every element below top, in document order; [parse_node] is one iteration of its
   loop for an element child: scan the child, then descend *)
Fixpoint parse_node (t : node) (names : list str) : list str :=
  match t with
  | Elem q a k =>
      (fix go (ks : list node) (acc : list str) : list str :=
         match ks with [] => acc | x :: r => go r (parse_node x acc) end) k (scan_one a names)
  | _ => names
  end.
Definition parse_kids (ks : list node) (names : list str) : list str := fold_left (fun acc k => parse_node k acc) ks names.
Definition parse_one (top : node) (names : list str) : list str := parse_kids (kids_of top) names.

Definition sSTYLENS := s2l "urn:oasis:names:tc:opendocument:xmlns:style:1.0".
Definition style_name (t : node) : option str :=
  match t with
  | Elem _ a _ => match find (fun x => qname_eqb (fst x) (sSTYLENS, s2l "name")) a with Some x => Some (snd x) | None => None end
  | _ => None
  end.
Definition named_in (names : list str) (t : node) : bool :=
  match style_name t with Some n => mem_str n names | None => false end.

(* one round of the while loop: for e in automaticstyles.childNodes ... ; state = (selected flags, names, found) *)
Fixpoint round (autos : list node) (sel : list bool) (names : list str) : list bool * list str * bool :=
  match autos, sel with
  | e :: r, s :: sr =>
      if is_element e && negb s && named_in names e then
        let names' := parse_one e (scan_one (atts_of e) names) in
        let '(sr', n2, _) := round r sr names' in (true :: sr', n2, true)
      else let '(sr', n2, f) := round r sr names in (s :: sr', n2, f)
  | _, _ => (sel, names, false)
  end.

Fixpoint rounds (fuel : nat) (autos : list node) (sel : list bool) (names : list str) : list bool * list str :=
  match fuel with
  | O => (sel, names)
  | S f => let '(sel', names', found) := round autos sel names in
           if found then rounds f autos sel' names' else (sel', names')
  end.

Fixpoint pick {A} (l : list A) (sel : list bool) : list A :=
  match l, sel with
  | x :: r, true :: sr => x :: pick r sr
  | _ :: r, false :: sr => pick r sr
  | _, _ => []
  end.

(* _used_auto_styles(segments) *)
Definition used_auto_styles (segments : list node) (auto : node) : list node :=
  let autos := kids_of auto in
  let names0 := fold_left (fun acc seg => parse_one seg acc) segments [] in
  let '(sel, _) := rounds (S (List.length autos)) autos (map (fun _ => false) autos) names0 in
  pick autos sel.
End AutoStyles.

(* ---------------- generator ---------------- *)
Definition sMETANS := s2l "urn:oasis:names:tc:opendocument:xmlns:meta:1.0".
Definition sOFFICENS := s2l "urn:oasis:names:tc:opendocument:xmlns:office:1.0".
Definition q_generator : qname := (sMETANS, s2l "generator").
Definition is_generator (t : node) : bool := match t with Elem q _ _ => qname_eqb q q_generator | _ => false end.

(* __replaceGenerator: remove every meta:generator child, add a new one (text = TOOLSVERSION) at the end *)
Definition replace_generator (tools : str) (meta : node) : node :=
  match meta with
  | Elem q a k => Elem q a (filter (fun c => negb (is_generator c)) k ++ [Elem q_generator [] [TextN tools]])
  | t => t
  end.
Definition norm_gen (tools : str) (d : odfdoc) : odfdoc :=
  mkDoc (d_mime d) (replace_generator tools (d_meta d)) (d_scripts d) (d_ffd d) (d_settings d) (d_styles d) (d_auto d) (d_master d) (d_body d).

(* ---------------- renderers ---------------- *)
Section Render.
Variable filtered : list (N * N).
Variable refattrs : list qname.
Variable prologue : str.
Variable tools : str.
Variable env : nsenv.

Definition q_office (l : string) : qname := (sOFFICENS, s2l l).
Definition version_att : list (qname * str) := [(q_office "version", s2l "1.2")].
Definition has_kids (t : node) : bool := match kids_of t with [] => false | _ => true end.
Definition opt_section (t : node) : str := if has_kids t then node_toXml filtered env false t else [].

Definition q_autostyles := q_office "automatic-styles".

(* contentxml() *)
Definition contentxml (d : odfdoc) : str :=
  let stylelist := used_auto_styles refattrs [d_styles d; d_body d] (d_auto d) in
  prologue ++ write_open_tag filtered env true (q_office "document-content") version_att ++
  opt_section (d_scripts d) ++ opt_section (d_ffd d) ++
  (match stylelist with
   | [] => node_toXml filtered env false (Elem q_autostyles [] [])
   | _ => write_open_tag filtered env false q_autostyles [] ++ flat_map (node_toXml filtered env false) stylelist ++ write_close_tag env q_autostyles
   end) ++
  node_toXml filtered env false (d_body d) ++ write_close_tag env (q_office "document-content").

(* stylesxml() *)
Definition stylesxml (d : odfdoc) : str :=
  prologue ++ write_open_tag filtered env true (q_office "document-styles") version_att ++
  opt_section (d_ffd d) ++ node_toXml filtered env false (d_styles d) ++
  write_open_tag filtered env false q_autostyles [] ++
  flat_map (node_toXml filtered env false) (used_auto_styles refattrs [d_master d] (d_auto d)) ++
  write_close_tag env q_autostyles ++
  opt_section (d_master d) ++ write_close_tag env (q_office "document-styles").

(* metaxml(): normalises the generator first *)
Definition metaxml (d : odfdoc) : odfdoc * str :=
  let d' := norm_gen tools d in
  (d', prologue ++ write_open_tag filtered env true (q_office "document-meta") version_att ++
       node_toXml filtered env false (d_meta d') ++ write_close_tag env (q_office "document-meta")).

(* settingsxml() *)
Definition settingsxml (d : odfdoc) : str :=
  prologue ++ write_open_tag filtered env true (q_office "document-settings") version_att ++
  node_toXml filtered env false (d_settings d) ++ write_close_tag env (q_office "document-settings").

(* xml(): the flat document = topnode.toXml(0); topnode's children in the order OpenDocument.__init__ adds them *)
Definition topnode (d : odfdoc) : node :=
  Elem (q_office "document") [(q_office "version", s2l "1.2"); (q_office "mimetype", d_mime d)]
       [d_meta d; d_scripts d; d_ffd d; d_settings d; d_styles d; d_auto d; d_master d; d_body d].
Definition flatxml (d : odfdoc) : odfdoc * str :=
  let d' := norm_gen tools d in (d', prologue ++ node_toXml filtered env true (topnode d')).

Inductive rkind := RContent | RStyles | RMeta | RSettings | RXml | RSave.

(* save() renders styles, content, settings, meta (in that order); its effect on the document is metaxml's *)
Definition render (r : rkind) (d : odfdoc) : odfdoc * list str :=
  match r with
  | RContent => (d, [contentxml d])
  | RStyles => (d, [stylesxml d])
  | RSettings => (d, [settingsxml d])
  | RMeta => let '(d', s) := metaxml d in (d', [s])
  | RXml => let '(d', s) := flatxml d in (d', [s])
  | RSave => let '(d', m) := metaxml d in
             (d', [stylesxml d; contentxml d] ++ (if has_kids (d_settings d) then [settingsxml d] else []) ++ [m])
  end.
End Render.
