(* NsTable.v — the process-global namespace bookkeeping of odf/element.py:
   namespaces.nsdict (namespace name -> prefix, grows for unknown namespaces) and
   Element.namespaces (the bindings written on every root element).
   Both are Python dicts, modelled as insertion-ordered association lists. *)
From Coq Require Import DecimalN.
From Odf Require Import model.Base model.Chars model.XmlTree.

Definition nstab := list (str * str).

Record nsstate := mkNs { nd : nstab; nsp : nstab }.

(* str(int) for a non-negative int *)
Fixpoint uint_chars (u : Decimal.uint) : str :=
  match u with
  | Decimal.Nil => []
  | Decimal.D0 r => 48 :: uint_chars r | Decimal.D1 r => 49 :: uint_chars r
  | Decimal.D2 r => 50 :: uint_chars r | Decimal.D3 r => 51 :: uint_chars r
  | Decimal.D4 r => 52 :: uint_chars r | Decimal.D5 r => 53 :: uint_chars r
  | Decimal.D6 r => 54 :: uint_chars r | Decimal.D7 r => 55 :: uint_chars r
  | Decimal.D8 r => 56 :: uint_chars r | Decimal.D9 r => 57 :: uint_chars r
  end.
Definition dec (n : N) : str := uint_chars (N.to_uint n).

Definition sNS := s2l "ns".
Definition gen_prefix (k : nat) : str := sNS ++ dec (N.of_nat k).

(* _nsassign: nsdict.setdefault(namespace, "ns" + str(len(nsdict))) *)
Definition nsassign (d : nstab) (ns : str) : nstab * str :=
  match lookup_str ns d with
  | Some p => (d, p)
  | None => let p := gen_prefix (List.length d) in (d ++ [(ns, p)], p)
  end.

(* Element.get_nsprefix *)
Definition get_nsprefix (s : nsstate) (ns : str) : nsstate * str :=
  match ns with
  | [] => (s, [])
  | _ =>
      let '(d', p) := nsassign (nd s) ns in
      (mkNs d' (match lookup_str ns (nsp s) with Some _ => nsp s | None => nsp s ++ [(ns, p)] end), p)
  end.

(* Element.get_knownns: first namespace of nsdict bound to the prefix *)
Fixpoint get_knownns (d : nstab) (p : str) : option str :=
  match d with
  | [] => None
  | (ns, q) :: r => if str_eqb q p then Some ns else get_knownns r p
  end.

(* attrconverters.__save_prefix (cnv_formula, cnv_namespacedToken): a value
   "prefix:rest" whose prefix is known makes that namespace a declared one *)
Definition save_prefix (s : nsstate) (arg : str) : nsstate :=
  match split_colon arg [] with
  | (Some p, _) =>
      match get_knownns (nd s) p with
      | Some ns => fst (get_nsprefix s ns)
      | None => s
      end
  | (None, _) => s
  end.

Inductive nsop := OpPrefix (ns : str) | OpSavePrefix (arg : str).

Definition ns_step (s : nsstate) (o : nsop) : nsstate :=
  match o with
  | OpPrefix ns => fst (get_nsprefix s ns)
  | OpSavePrefix a => save_prefix s a
  end.
