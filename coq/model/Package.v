(* Package.v — model of the package writer and reader of odf/opendocument.py:
   __zipwrite, _saveXmlObjects, _savePictures, addObject, _objectfolder, addPicture*,
   and the manifest dispatch of load().  A zip is the list of its entries in the order
   they are written; the XML of a part is a symbolic payload (what the part contains is
   properties C01-C05, C10); picture and extra-member bytes are concrete. *)
From Odf Require Import model.Base model.XmlLex model.XmlTree model.NsTable.

Inductive part := PStyles | PContent | PSettings | PMeta.

Inductive payload :=
  | DBytes (b : str)                      (* literal bytes *)
  | DPart (p : part) (folder : str)       (* the XML of that part of the document stored in `folder` ("" = the main document) *)
  | DManifest.                            (* META-INF/manifest.xml: rendered from the manifest list *)

Record entry := mkE { e_name : str; e_stored : bool; e_extra : str; e_data : payload }.

Record pic := mkPic { pc_name : str; pc_data : str; pc_mt : str }.

(* an OpenDocument object: mimetype, folder (as set by addObject; "" for the main document), whether
   office:settings has children, its pictures (insertion order of the Pictures dict), its childobjects *)
Inductive odoc := ODoc (mt : str) (folder : str) (has_settings : bool) (pics : list pic) (kids : list odoc).

Definition o_mt (o : odoc) := match o with ODoc m _ _ _ _ => m end.
Definition o_folder (o : odoc) := match o with ODoc _ f _ _ _ => f end.
Definition o_settings (o : odoc) := match o with ODoc _ _ s _ _ => s end.
Definition o_pics (o : odoc) := match o with ODoc _ _ _ p _ => p end.
Definition o_kids (o : odoc) := match o with ODoc _ _ _ _ k => k end.

Record topdoc := mkTop {
  t_root : odoc;
  t_thumb : option (str * str);                  (* thumbnail: bytes, media type of its manifest entry *)
  t_extras : list (str * str * option str)      (* OpaqueObject: filename, mediatype, content *)
}.

Definition manifest := list (str * str).          (* full-path, media-type; in the order the entries are added *)

Definition sTEXTXML := s2l "text/xml".
Definition cSLASHc : cp := 47.

(* _objectfolder: subobject.folder[1:] + "/" *)
Definition objfolder (o : odoc) : str := tl (o_folder o) ++ [cSLASHc].

Definition xml_entry (name : str) (p : part) (folder : str) : entry := mkE name false [] (DPart p folder).

(* _saveXmlObjects(anObject, folder); `top` = (self == anObject) *)
Fixpoint save_xml (top : bool) (path : str) (o : odoc) : list entry * manifest :=
  match o with
  | ODoc mt folder hs _ kids =>
      let m1 := [((if top then [cSLASHc] else path), mt);
                 (path ++ s2l "styles.xml", sTEXTXML); (path ++ s2l "content.xml", sTEXTXML)] in
      let e1 := [xml_entry (path ++ s2l "styles.xml") PStyles folder; xml_entry (path ++ s2l "content.xml") PContent folder] in
      let m2 := if hs then [(path ++ s2l "settings.xml", sTEXTXML)] else [] in
      let e2 := if hs then [xml_entry (path ++ s2l "settings.xml") PSettings folder] else [] in
      let m3 := if top then [(s2l "meta.xml", sTEXTXML)] else [] in
      let e3 := if top then [xml_entry (s2l "meta.xml") PMeta folder] else [] in
      let sub := map (fun k => save_xml false (objfolder k) k) kids in
      (e1 ++ e2 ++ e3 ++ flat_map fst sub, m1 ++ m2 ++ m3 ++ flat_map snd sub)
  end.

(* _savePictures(anObject, folder): every picture is written STORED under folder + name *)
Fixpoint save_pics (path : str) (o : odoc) : list entry * manifest :=
  match o with
  | ODoc _ _ _ pics kids =>
      let e := map (fun p => mkE (path ++ pc_name p) true [] (DBytes (pc_data p))) pics in
      let m := map (fun p => (path ++ pc_name p, pc_mt p)) pics in
      let sub := map (fun k => save_pics (objfolder k) k) kids in
      (e ++ flat_map fst sub, m ++ flat_map snd sub)
  end.

Definition sSIG := s2l "META-INF/documentsignatures.xml".
Definition sMANIFEST := s2l "META-INF/manifest.xml".
Definition sMIMETYPE := s2l "mimetype".
Definition sTHUMBDIR := s2l "Thumbnails/".
Definition sTHUMB := s2l "Thumbnails/thumbnail.png".

(* __zipwrite *)
Definition save_m (t : topdoc) : list entry * manifest :=
  let mime := mkE sMIMETYPE true [] (DBytes (o_mt (t_root t))) in
  let '(ex, mx) := save_xml true [] (t_root t) in
  let '(ep, mp) := save_pics [] (t_root t) in
  let et := match t_thumb t with Some b => [mkE sTHUMB false [] (DBytes (fst b))] | None => [] end in
  let mt := match t_thumb t with Some b => [(sTHUMBDIR, []); (sTHUMB, snd b)] | None => [] end in
  let xs := filter (fun x => negb (str_eqb (fst (fst x)) sSIG)) (t_extras t) in
  let ee := flat_map (fun x => match snd x with Some b => [mkE (fst (fst x)) false [] (DBytes b)] | None => [] end) xs in
  let me := map (fun x => (fst (fst x), snd (fst x))) xs in
  (mime :: ex ++ ep ++ et ++ ee ++ [mkE sMANIFEST false [] DManifest], mx ++ mp ++ mt ++ me).

(* ---------------- addObject ---------------- *)
Definition sOBJECT := s2l "/Object ".
(* returns the updated child (folder set) and the reference string *)
(* the first free "Object N" of the parent: N starts at the number of children after the append; a folder may be taken because
   a loaded package numbered it so or because a caller named it so *)
Fixpoint fresh_folder (fuel : nat) (pf : str) (taken : list str) (n : nat) : str :=
  let f := pf ++ sOBJECT ++ dec (N.of_nat n) in
  match fuel with
  | O => f
  | S k => if existsb (str_eqb f) taken then fresh_folder k pf taken (S n) else f
  end.
Definition add_object (parent_folder : str) (taken : list str) (child : odoc) (name : option str) : odoc * str :=
  let f := match name with
           | None => fresh_folder (S (List.length taken)) parent_folder taken (S (List.length taken))
           | Some n => match n with 47 :: _ => n | _ => cSLASHc :: n end
           end in
  (match child with ODoc mt _ hs p k => ODoc mt f hs p k end, 46 :: f).

(* ---------------- load(): what the manifest entries become ---------------- *)
Definition starts_with (p s : str) : bool := match strip_prefix p s with Some _ => true | None => false end.
Definition ends_slash (s : str) : bool := match rev s with c :: _ => c =? cSLASHc | [] => false end.
Definition in_manifest (m : manifest) (p : str) : bool := existsb (fun e => str_eqb (fst e) p) m.

Definition sOBJ := s2l "Object ".
(* foreign: the folders whose content.xml is not an OpenDocument part (the root element is of another vocabulary: the MathML of
   a formula object) - what load() finds out by looking at the member (__isOpenDocumentPart); such a folder is no sub-document,
   its files are carried over as they are *)
Definition is_object_folder (foreign : str -> bool) (m : manifest) (p : str) : bool :=
  starts_with sOBJ p && ends_slash p && negb (foreign p) && (in_manifest m (p ++ s2l "content.xml") || in_manifest m (p ++ s2l "styles.xml")).

(* last path component and the folder before it *)
Fixpoint split_last_slash (s : str) (dir cur : str) : str * str :=
  match s with
  | [] => (dir, cur)
  | c :: r => if c =? cSLASHc then split_last_slash r (dir ++ cur ++ [c]) [] else split_last_slash r dir (cur ++ [c])
  end.
Definition is_xml_part_name (n : str) : bool :=
  str_eqb n (s2l "settings.xml") || str_eqb n (s2l "meta.xml") || str_eqb n (s2l "content.xml") || str_eqb n (s2l "styles.xml").
Definition is_object_part (foreign : str -> bool) (m : manifest) (p : str) : bool :=
  let '(dir, base) := split_last_slash p [] [] in
  starts_with sOBJ p && negb (str_eqb dir []) && is_xml_part_name base && in_manifest m dir && negb (foreign dir).

Inductive disposition :=
  | IsPicture | IsThumbnail | IsRootPart | IsRootEntry | IsObject | IsObjectPart | IsExtra.

Definition classify (foreign : str -> bool) (m : manifest) (p : str) : disposition :=
  if starts_with (s2l "Pictures/") p && negb (str_eqb p (s2l "Pictures/")) && negb (ends_slash p) then IsPicture
  else if str_eqb p sTHUMB then IsThumbnail
  else if is_xml_part_name p then IsRootPart
  else if str_eqb p [cSLASHc] || str_eqb p sTHUMBDIR then IsRootEntry
  else if is_object_folder foreign m p then IsObject
  else if is_object_part foreign m p then IsObjectPart
  else IsExtra.

(* the loaded document, from the manifest and a reader for member bytes *)
Definition load_m (foreign : str -> bool) (m : manifest) (member : str -> str) (mimetype : str) (root_settings : bool) (obj_settings : str -> bool) : topdoc :=
  let pics := flat_map (fun e => match classify foreign m (fst e) with IsPicture => [mkPic (fst e) (member (fst e)) (snd e)] | _ => [] end) m in
  let objs := flat_map (fun e => match classify foreign m (fst e) with
                                 | IsObject => [ODoc (snd e) (cSLASHc :: removelast (fst e)) (obj_settings (fst e)) [] []]
                                 | _ => [] end) m in
  let thumb := match find (fun e => match classify foreign m (fst e) with IsThumbnail => true | _ => false end) m with
               | Some e => Some (member sTHUMB, snd e) | None => None end in
  let extras := flat_map (fun e => match classify foreign m (fst e) with
                                   | IsExtra => [(fst e, snd e, if ends_slash (fst e) then None else Some (member (fst e)))]
                                   | _ => [] end) m in
  mkTop (ODoc mimetype [] root_settings pics objs) thumb extras.
