(* Html.v — the writer layer of odf/odf2xhtml.py: every handler produces output through writedata (escape), opentag,
   closetag and emptytag (quoteattr).  escape / quoteattr are xml.sax.saxutils's: the printer functions of XmlPrint with
   no character filter and no extra entities. *)
From Odf Require Import model.Base model.Chars model.XmlPrint.

Definition h_escape (s : str) : str := escape [] s.                 (* xml.sax.saxutils.escape(data) *)
Definition h_quoteattr (s : str) : str := quoteattr [] s.            (* xml.sax.saxutils.quoteattr(data) *)

Definition join_sp (l : list str) : str := match l with [] => [] | x :: r => x ++ flat_map (fun y => 32 :: y) r end.
Definition h_atts (atts : list (str * str)) : list str := map (fun kv => fst kv ++ [61] ++ h_quoteattr (snd kv)) atts.
Definition nl (b : bool) : str := if b then [10] else [].

(* opentag(tag, attrs, block) *)
Definition h_opentag (tag : str) (atts : list (str * str)) (block : bool) : str :=
  match atts with
  | [] => [60] ++ tag ++ [62]
  | _ => [60] ++ tag ++ [32] ++ join_sp (h_atts atts) ++ [62]
  end ++ nl block.
(* closetag(tag, block) *)
Definition h_closetag (tag : str) (block : bool) : str := [60; 47] ++ tag ++ [62] ++ nl block.
(* emptytag(tag, attrs) *)
Definition h_emptytag (tag : str) (atts : list (str * str)) : str := [60] ++ tag ++ [32] ++ join_sp (h_atts atts) ++ [47; 62; 10].
(* writedata() *)
Definition h_writedata (d : str) : str := h_escape d.
