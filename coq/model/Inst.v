(* Inst.v — the printer instantiated with the regenerated filter set. *)
From Odf Require Import model.Base model.Chars model.XmlPrint model.XmlLex model.XmlTree model.Doc gen.GenChars gen.GenNs gen.GenStyleRefs.

Definition F := filtered_ranges.
Definition i_text_toXml := textnode_toXml F.
Definition i_quoteattr := quoteattr F.
Definition i_cdata_toXml := cdata_toXml F.
Definition i_node_toXml := node_toXml F.
Definition i_canon := canon F.
Definition i_write_open_tag := write_open_tag F.
Definition i_xml_parse := xml_parse.
Definition i_lex := lex.

(* the document layer instantiated with the regenerated tables *)
Definition RA : list qname := scanned_refattrs.
Definition i_used_auto_styles := used_auto_styles RA.
Definition i_contentxml := contentxml F RA xml_prologue.
Definition i_stylesxml := stylesxml F RA xml_prologue.
Definition i_metaxml := metaxml F xml_prologue toolsversion.
Definition i_settingsxml := settingsxml F xml_prologue.
Definition i_flatxml := flatxml F xml_prologue toolsversion.
