(* Inst.v — the printer instantiated with the regenerated filter set. *)
From Odf Require Import model.Base model.Chars model.XmlPrint model.XmlLex model.XmlTree gen.GenChars.

Definition F := filtered_ranges.
Definition i_text_toXml := textnode_toXml F.
Definition i_quoteattr := quoteattr F.
Definition i_cdata_toXml := cdata_toXml F.
Definition i_node_toXml := node_toXml F.
Definition i_canon := canon F.
Definition i_write_open_tag := write_open_tag F.
Definition i_xml_parse := xml_parse.
Definition i_lex := lex.
