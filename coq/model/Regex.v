(* Regex.v — regular expressions over code points and matching by derivatives; the patterns of odf/attrconverters.py and
   of the ODF schema are translated into this type by tools/relib.py. *)
From Odf Require Import model.Base.

Inductive re :=
  | Emp | Eps
  | Cls (neg : bool) (ranges : list (N * N))       (* a character class: [lo-hi ...] or its complement *)
  | Cat (a b : re) | Alt (a b : re) | Star (a : re).

Fixpoint nullable (r : re) : bool :=
  match r with
  | Eps | Star _ => true
  | Emp | Cls _ _ => false
  | Cat a b => nullable a && nullable b
  | Alt a b => nullable a || nullable b
  end.
Definition in_cls (neg : bool) (rs : list (N * N)) (c : N) : bool := xorb neg (existsb (fun r => (fst r <=? c) && (c <=? snd r)) rs).

Fixpoint deriv (c : N) (r : re) : re :=
  match r with
  | Emp | Eps => Emp
  | Cls n rs => if in_cls n rs c then Eps else Emp
  | Cat a b => if nullable a then Alt (Cat (deriv c a) b) (deriv c b) else Cat (deriv c a) b
  | Alt a b => Alt (deriv c a) (deriv c b)
  | Star a => Cat (deriv c a) (Star a)
  end.
(* derivatives are simplified on the way so that terms stay small; same language (RegexProofs.simp_ok) *)
Fixpoint simp (r : re) : re :=
  match r with
  | Cat a b => match simp a, simp b with
               | Emp, _ | _, Emp => Emp
               | Eps, b' => b'
               | a', Eps => a'
               | a', b' => Cat a' b'
               end
  | Alt a b => match simp a, simp b with
               | Emp, b' => b'
               | a', Emp => a'
               | a', b' => Alt a' b'
               end
  | r => r
  end.
Definition matches (r : re) (s : str) : bool := nullable (fold_left (fun r c => simp (deriv c r)) s r).
