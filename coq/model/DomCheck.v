(* DomCheck.v — heaps given as a finite list of node records (what the harness reads off a real document), and executable
   checkers for the hypotheses of C07/C08/C09: structural consistency, agreement of the two lookup dictionaries with the
   tree, completeness of the style dictionary.  proofs/DomCheckProofs.v shows that a checker answering true establishes
   the corresponding invariant (WF, Idx, Comp), so a history that starts from a checked snapshot is covered by the
   theorems about every history. *)
From Odf Require Import model.Base model.Dom.

Definition dflt : nrec := mkN KText None [] None None false None.
(* the heap whose nodes are the records of l (ids = positions); everything beyond is unallocated *)
Definition lheap (l : list nrec) (ed : list (nat * list id)) (sd : list (nat * id)) : heap :=
  mkH (fun j => nth j l dflt) (List.length l) ed sd.

Definition oid_eqb (a b : option id) : bool :=
  match a, b with Some x, Some y => Nat.eqb x y | None, None => true | _, _ => false end.
Definition kind_eqb (a b : nkind) : bool :=
  match a, b with KElem x, KElem y => Nat.eqb x y | KText, KText => true | KCData, KCData => true | _, _ => false end.
Definition memb (x : id) (l : list id) : bool := existsb (Nat.eqb x) l.
Fixpoint nodupb (l : list id) : bool := match l with [] => true | x :: r => negb (memb x r) && nodupb r end.
Definition is_none (a : option id) : bool := match a with None => true | Some _ => false end.

Definition hd_or' (nx : option id) (l : list id) : option id := match l with x :: _ => Some x | [] => nx end.
Fixpoint chainb (f : id -> nrec) (pv : option id) (l : list id) (nx : option id) : bool :=
  match l with
  | [] => true
  | c :: r => oid_eqb (prev (f c)) pv && oid_eqb (next (f c)) (hd_or' nx r) && chainb f (Some c) r nx
  end.

(* ---- structural consistency (C08's WF) ---- *)
Definition wf_node (f : id -> nrec) (j : id) : bool :=
  forallb (fun c => oid_eqb (parent (f c)) (Some j)) (kids (f j)) &&
  match parent (f j) with Some p => memb j (kids (f p)) && negb (Nat.eqb p j) | None => is_none (prev (f j)) && is_none (next (f j)) end &&
  nodupb (kids (f j)) &&
  chainb f None (kids (f j)) None &&
  (is_elem (f j) || match kids (f j) with [] => true | _ => false end).
Definition wf_ok (l : list nrec) : bool :=
  let f := fun j => nth j l dflt in forallb (wf_node f) (seq 0 (List.length l)).

(* ---- the lookups agree with the tree (C09's Idx) ---- *)
Fixpoint upb (f : id -> nrec) (m : id) (k : nat) : option id :=
  match k with O => Some m | S k' => match parent (f m) with Some p => upb f p k' | None => None end end.
Definition pokb (f : id -> nrec) (n : id) : bool :=
  match parent (f n) with
  | Some p => match kind (f p) with KElem q => Nat.eqb q Q_STYLES || Nat.eqb q Q_AUTOSTYLES | _ => false end
  | None => false
  end.
Definition idx_node (top : id) (f : id -> nrec) (N : nat) (ed : list (nat * list id)) (j : id) : bool :=
  (if owner (f j) then
     match kind (f j) with KElem q => memb j (match dict_get q ed with Some x => x | None => [] end) | _ => true end &&
     existsb (fun k => oid_eqb (upb f j k) (Some top)) (seq 0 (S N))
   else true) &&
  match parent (f j) with Some p => Bool.eqb (owner (f j)) (owner (f p)) | None => true end.
Definition idx_ok (top : id) (l : list nrec) (ed : list (nat * list id)) (sd : list (nat * id)) : bool :=
  let f := fun j => nth j l dflt in
  forallb (idx_node top f (List.length l) ed) (seq 0 (List.length l)) &&
  forallb (fun e => forallb (fun n => kind_eqb (kind (f n)) (KElem (fst e)) && owner (f n)) (snd e) && nodupb (snd e)) ed &&
  (Nat.ltb top (List.length l) && owner (f top) && is_none (parent (f top))) &&
  nodupb (map fst sd) &&
  forallb (fun e => kind_eqb (kind (f (snd e))) (KElem Q_STYLE) && oid_eqb (sname (f (snd e))) (Some (fst e)) && owner (f (snd e)) && pokb f (snd e)) sd.

(* ---- every registrable style is in the style dictionary (C09's Comp) ---- *)
Definition comp_node (f : id -> nrec) (sd : list (nat * id)) (j : id) : bool :=
  if kind_eqb (kind (f j)) (KElem Q_STYLE) && owner (f j) && pokb f j
  then match sname (f j) with Some nm => oid_eqb (dict_get nm sd) (Some j) | None => true end
  else true.
Definition comp_ok (l : list nrec) (sd : list (nat * id)) : bool :=
  let f := fun j => nth j l dflt in forallb (comp_node f sd) (seq 0 (List.length l)).

(* ---- the side conditions of the history theorems, per operation ---- *)
Definition op_okb (h : heap) (o : op) : bool :=
  match o with
  | OAppend p c | OAddElement p c _ | OInsert p c _ => Nat.ltb p (alloc h) && Nat.ltb c (alloc h) && negb (Nat.eqb c p)
  | ORemove p c => Nat.ltb p (alloc h) && Nat.ltb c (alloc h)
  | OAddText p _ _ _ => Nat.ltb p (alloc h)
  end.
Definition keeps_topb (top : id) (o : op) : bool :=
  match o with OAppend _ c | OAddElement _ c _ | OInsert _ c _ => negb (Nat.eqb c top) | _ => true end.
