(* Dom.v — model of the mutable node tree of odf/element.py (Node.insertBefore,
   appendChild, removeChild, _append_child, _adopt, _set_owner_doc, Childless;
   Element.addElement, addText, addCDATA) and of the per-document lookups of
   odf/opendocument.py (element_dict, _styles_dict; build/rebuild/remove_from_caches,
   getElementsByType, getStyleByName).

   The heap keeps the link fields the code stores (parentNode, childNodes,
   previousSibling, nextSibling, ownerDocument); every operation performs the
   reads, writes and raises of the Python method in the same order. A raising
   operation returns the heap as it is at the raise, so partial mutation is
   visible.

   Two abstractions (validated by the correspondence check): (1) the subtree a
   recursive helper (_set_owner_doc, rebuild_caches, remove_from_caches) walks
   downwards through childNodes is computed upwards, as "the nodes whose parent
   chain passes through the root of the walk"; (2) the lists of element_dict are
   kept up to permutation (ids in increasing order instead of preorder). *)
From Odf Require Import model.Base.

Definition id := nat.

Inductive nkind :=
  | KElem (q : nat)          (* an element; q = index of its qname in the harness's table *)
  | KText
  | KCData.

Record nrec := mkN {
  kind : nkind;
  parent : option id;
  kids : list id;
  prev : option id;
  next : option id;
  owner : bool;              (* ownerDocument is the (one) document / None *)
  sname : option nat         (* style:name of a style:style element (index in a name table) *)
}.

Definition is_elem (r : nrec) : bool := match kind r with KElem _ => true | _ => false end.
Definition qn (r : nrec) : option nat := match kind r with KElem q => Some q | _ => None end.

(* distinguished qnames of the harness's table *)
Definition Q_STYLE : nat := 0.          (* style:style *)
Definition Q_STYLES : nat := 1.         (* office:styles *)
Definition Q_AUTOSTYLES : nat := 2.     (* office:automatic-styles *)

Record heap := mkH {
  nodes : id -> nrec;
  alloc : nat;                               (* ids below alloc are allocated *)
  edict : list (nat * list id);              (* element_dict: qname -> elements *)
  sdict : list (nat * id)                    (* _styles_dict: name -> style element *)
}.

Definition upd (f : id -> nrec) (i : id) (r : nrec) : id -> nrec :=
  fun j => if Nat.eqb j i then r else f j.

Definition set_nodes (h : heap) (f : id -> nrec) : heap := mkH f (alloc h) (edict h) (sdict h).

Definition with_parent (r : nrec) (p : option id) := mkN (kind r) p (kids r) (prev r) (next r) (owner r) (sname r).
Definition with_kids (r : nrec) (k : list id) := mkN (kind r) (parent r) k (prev r) (next r) (owner r) (sname r).
Definition with_prev (r : nrec) (p : option id) := mkN (kind r) (parent r) (kids r) p (next r) (owner r) (sname r).
Definition with_next (r : nrec) (n : option id) := mkN (kind r) (parent r) (kids r) (prev r) n (owner r) (sname r).
Definition with_owner (r : nrec) (o : bool) := mkN (kind r) (parent r) (kids r) (prev r) (next r) o (sname r).

Definition setf (h : heap) (i : id) (g : nrec -> nrec) : heap := set_nodes h (upd (nodes h) i (g (nodes h i))).

Inductive res := ROk (h : heap) | RRaise (e : exn) (h : heap).

(* ---------------- list surgery on childNodes ---------------- *)
Fixpoint index_of (x : id) (l : list id) : option nat :=
  match l with
  | [] => None
  | y :: r => if Nat.eqb y x then Some 0%nat else option_map S (index_of x r)
  end.

(* list.remove(x): the first occurrence *)
Fixpoint remove_first (x : id) (l : list id) : list id :=
  match l with
  | [] => []
  | y :: r => if Nat.eqb y x then r else y :: remove_first x r
  end.

Fixpoint insert_at (n : nat) (x : id) (l : list id) : list id :=
  match n, l with
  | O, _ => x :: l
  | S n', y :: r => y :: insert_at n' x r
  | S _, [] => [x]
  end.

Definition last_opt (l : list id) : option id := match rev l with x :: _ => Some x | [] => None end.

(* ---------------- subtrees, upwards ---------------- *)
(* does the parent chain of m (m included) pass through n?  fuel = number of nodes *)
Fixpoint in_subtree (fuel : nat) (f : id -> nrec) (n m : id) : bool :=
  if Nat.eqb m n then true else
  match fuel with
  | O => false
  | S fuel' => match parent (f m) with Some p => in_subtree fuel' f n p | None => false end
  end.

Definition subtree_ids (h : heap) (n : id) : list id :=
  filter (in_subtree (alloc h) (nodes h) n) (seq 0 (alloc h)).

(* _set_owner_doc(node, doc) *)
Definition set_owner (h : heap) (n : id) (o : bool) : heap :=
  let ids := subtree_ids h n in
  set_nodes h (fun j => if existsb (Nat.eqb j) ids then with_owner (nodes h j) o else nodes h j).

(* ---------------- the document's lookups ---------------- *)
Fixpoint dict_get {A} (k : nat) (d : list (nat * A)) : option A :=
  match d with [] => None | (k', v) :: r => if Nat.eqb k' k then Some v else dict_get k r end.
Fixpoint dict_set {A} (k : nat) (v : A) (d : list (nat * A)) : list (nat * A) :=
  match d with
  | [] => [(k, v)]
  | (k', v') :: r => if Nat.eqb k' k then (k, v) :: r else (k', v') :: dict_set k v r
  end.
Fixpoint dict_del {A} (k : nat) (d : list (nat * A)) : list (nat * A) :=
  match d with [] => [] | (k', v) :: r => if Nat.eqb k' k then r else (k', v) :: dict_del k r end.

Definition style_parent_ok (h : heap) (n : id) : bool :=
  match parent (nodes h n) with
  | Some p => match kind (nodes h p) with KElem q => Nat.eqb q Q_STYLES || Nat.eqb q Q_AUTOSTYLES | _ => false end
  | None => false
  end.

(* build_caches(elt): index it; register a named style:style child of office:styles /
   office:automatic-styles (the rename on a name clash is property C11's business and
   is modelled there; here a clashing name overwrites) *)
Definition build_caches (h : heap) (n : id) : heap :=
  match kind (nodes h n) with
  | KElem q =>
      let l := match dict_get q (edict h) with Some l => l | None => [] end in
      let h1 := mkH (nodes h) (alloc h) (dict_set q (l ++ [n]) (edict h)) (sdict h) in
      if Nat.eqb q Q_STYLE then
        match sname (nodes h n) with
        | Some nm => if style_parent_ok h n then mkH (nodes h1) (alloc h1) (edict h1) (dict_set nm n (sdict h1)) else h1
        | None => h1
        end
      else h1
  | _ => h
  end.

(* rebuild_caches(node): build_caches for every element of the subtree *)
Definition rebuild_caches (h : heap) (n : id) : heap :=
  fold_left (fun h' m => if is_elem (nodes h m) then build_caches h' m else h') (subtree_ids h n) h.

Definition remove_one (h : heap) (n : id) : heap :=
  match kind (nodes h n) with
  | KElem q =>
      let ed := match dict_get q (edict h) with
                | Some l => dict_set q (remove_first n l) (edict h)
                | None => edict h
                end in
      let sd := if Nat.eqb q Q_STYLE then
                  match sname (nodes h n) with
                  | Some nm => match dict_get nm (sdict h) with
                               | Some m => if Nat.eqb m n then dict_del nm (sdict h) else sdict h
                               | None => sdict h end
                  | None => sdict h
                  end
                else sdict h in
      mkH (nodes h) (alloc h) ed sd
  | _ => h
  end.

(* remove_from_caches(elt) for the subtree; computed on the heap in which the
   subtree is still linked below n *)
Definition remove_from_caches (h : heap) (ids : list id) : heap :=
  fold_left (fun h' m => if is_elem (nodes h m) then remove_one h' m else h') ids h.

(* ---------------- Node methods ---------------- *)
Definition is_childless (r : nrec) : bool := negb (is_elem r).

(* the link updates of Node.removeChild(p, c), in the order the method performs them *)
Definition unlink (f : id -> nrec) (p c : id) : id -> nrec :=
  let f1 := upd f p (with_kids (f p) (remove_first c (kids (f p)))) in
  let C := f1 c in
  let f2 := match next C with Some nx => upd f1 nx (with_prev (f1 nx) (prev C)) | None => f1 end in
  let f3 := match prev C with Some pv => upd f2 pv (with_next (f2 pv) (next C)) | None => f2 end in
  upd f3 c (with_parent (with_prev (with_next (f3 c) None) None) None).

(* Node.removeChild(p, c) *)
Definition remove_child (h : heap) (p c : id) : res :=
  let P := nodes h p in
  if is_childless P then RRaise NotFoundErr h else
  match index_of c (kids P) with
  | None => RRaise NotFoundErr h
  | Some _ =>
      let sub := subtree_ids h c in                      (* the subtree while still linked *)
      let h4 := set_nodes h (unlink (nodes h) p c) in
      let h5 := if owner (nodes h4 p) && is_elem (nodes h4 c) then remove_from_caches h4 sub else h4 in
      let h6 := set_nodes h5 (fun j => if existsb (Nat.eqb j) sub then with_owner (nodes h5 j) false else nodes h5 j) in
      ROk h6
  end.

Definition bind_res (r : res) (f : heap -> res) : res :=
  match r with ROk h => f h | RRaise e h => RRaise e h end.

(* Node._adopt(p, c): c has just been linked under p *)
Definition adopt (h : heap) (p c : id) : heap :=
  let o := owner (nodes h p) in
  let h1 := set_owner h c o in
  if o && is_elem (nodes h1 c) then rebuild_caches h1 c else h1.

(* _append_child(p, c); c.nextSibling = None *)
Definition link_last (f : id -> nrec) (p c : id) : id -> nrec :=
  let ks := kids (f p) in
  let f2 := match last_opt ks with
            | Some l => let f1 := upd f c (with_prev (f c) (Some l)) in upd f1 l (with_next (f1 l) (Some c))
            | None => f
            end in
  let f3 := upd f2 p (with_kids (f2 p) (kids (f2 p) ++ [c])) in
  upd f3 c (with_next (with_parent (f3 c) (Some p)) None).

(* Node.appendChild(p, c) *)
Definition append_child (h : heap) (p c : id) : res :=
  let P := nodes h p in
  if is_childless P then RRaise HierarchyErr h else
  bind_res (match parent (nodes h c) with Some op => remove_child h op c | None => ROk h end) (fun h1 =>
    ROk (adopt (set_nodes h1 (link_last (nodes h1) p c)) p c)).

(* the link updates of insertBefore(p, c, r) with r at position i of p's children *)
Definition link_before (f : id -> nrec) (p c r : id) (i : nat) : id -> nrec :=
  let f2 := upd f p (with_kids (f p) (insert_at i c (kids (f p)))) in
  let f3 := upd f2 c (with_next (f2 c) (Some r)) in
  let f4 := upd f3 r (with_prev (f3 r) (Some c)) in
  let f5 := match i with
            | S i' => match nth_error (kids (f p)) i' with
                      | Some pv => let g := upd f4 pv (with_next (f4 pv) (Some c)) in upd g c (with_prev (g c) (Some pv))
                      | None => f4
                      end
            | O => upd f4 c (with_prev (f4 c) None)
            end in
  upd f5 c (with_parent (f5 c) (Some p)).

(* Node.insertBefore(p, c, ref) *)
Definition insert_before (h : heap) (p c : id) (ref : option id) : res :=
  let P := nodes h p in
  if is_childless P then RRaise HierarchyErr h else
  match ref with
  | None => append_child h p c
  | Some r =>
      match index_of r (kids P) with
      | None => RRaise NotFoundErr h
      | Some _ =>
          if Nat.eqb r c then ROk h else
          bind_res (match parent (nodes h c) with Some op => remove_child h op c | None => ROk h end) (fun h1 =>
            match index_of r (kids (nodes h1 p)) with
            | None => RRaise NotFoundErr h1
            | Some i => ROk (adopt (set_nodes h1 (link_before (nodes h1) p c r i)) p c)
            end)
      end
  end.

(* Element.addElement(p, c, check): `allowed` is the outcome of the grammar check *)
Definition add_element (h : heap) (p c : id) (allowed : bool) : res :=
  if negb allowed then RRaise IllegalChild h else append_child h p c.

(* Element.addText / addCDATA (p, check): a new node of the given kind *)
Definition new_node (h : heap) (k : nkind) : heap * id :=
  (mkH (upd (nodes h) (alloc h) (mkN k None [] None None false None)) (S (alloc h)) (edict h) (sdict h), alloc h).

Definition add_text (h : heap) (p : id) (allowed : bool) (empty : bool) (cdata : bool) : res :=
  if negb (is_elem (nodes h p)) then RRaise AttributeErr h    (* addText/addCDATA are Element methods *)
  else if negb allowed then RRaise IllegalText h
  else if empty && negb cdata then ROk h
  else let '(h1, t) := new_node h (if cdata then KCData else KText) in append_child h1 p t.

(* queries *)
Definition get_elements_by_type (h : heap) (q : nat) : list id :=
  match dict_get q (edict h) with Some l => l | None => [] end.
Definition get_style_by_name (h : heap) (nm : nat) : option id := dict_get nm (sdict h).

Inductive op :=
  | OAppend (p c : id) | OInsert (p c : id) (r : option id) | ORemove (p c : id)
  | OAddElement (p c : id) (allowed : bool) | OAddText (p : id) (allowed empty cdata : bool).

Definition step (h : heap) (o : op) : res :=
  match o with
  | OAppend p c => append_child h p c
  | OInsert p c r => insert_before h p c r
  | ORemove p c => remove_child h p c
  | OAddElement p c a => add_element h p c a
  | OAddText p a e cd => add_text h p a e cd
  end.

Definition heap_of (r : res) : heap := match r with ROk h => h | RRaise _ h => h end.
