(* Convert.v — the attribute value converters of odf/attrconverters.py on strings, by kind, and the lexical spaces the
   ODF schema gives to attributes. *)
From Odf Require Import model.Base model.Regex.

Inductive ckind :=
  | KId                                         (* str(arg): cnv_string, integers, dates, anyURI, IDs, style name references ... *)
  | KBool (falses trues : list str)             (* cnv_boolean: case-insensitive, canonicalised to "false"/"true" *)
  | KEnum (allowed : list str)                  (* if str(arg) not in (...): raise ValueError *)
  | KPat (p : re)                               (* pattern.match(arg) with \Z at its end *)
  | KPatPrefix (p : re)                         (* pattern.match(arg) without: a prefix suffices *)
  | KUnion (p q : re)                           (* cnv_lengthorpercent *)
  | KMangle (chars : list N).                   (* cnv_NCName / make_NCName: each listed character becomes _hex_ *)

Inductive cres := COk (v : str) | CValueError.

Definition lower (c : N) : N := if (65 <=? c) && (c <=? 90) then c + 32 else c.
Definition in_strs (x : str) (l : list str) : bool := existsb (str_eqb x) l.

(* "_%x_" % ord(c) *)
Definition hexdigit (d : N) : N := if d <? 10 then 48 + d else 87 + d.
Fixpoint hex_go (fuel : nat) (n : N) (acc : str) : str :=
  match fuel with O => acc | S f => let acc' := hexdigit (n mod 16) :: acc in if n / 16 =? 0 then acc' else hex_go f (n / 16) acc' end.
Definition hex (n : N) : str := hex_go 8 n [].
Definition mangle (chars : list N) (s : str) : str :=
  flat_map (fun c => if existsb (N.eqb c) chars then 95 :: hex c ++ [95] else [c]) s.

(* a prefix of s matches p *)
Fixpoint prefix_matches (p : re) (s : str) : bool :=
  nullable p || match s with [] => false | c :: r => prefix_matches (simp (deriv c p)) r end.

Definition convert (k : ckind) (s : str) : cres :=
  match k with
  | KId => COk s
  | KBool fs ts => let l := map lower s in
                   if in_strs l fs then COk (s2l "false") else if in_strs l ts then COk (s2l "true") else CValueError
  | KEnum l => if in_strs s l then COk s else CValueError
  | KPat p => if matches p s then COk s else CValueError
  | KPatPrefix p => if prefix_matches p s then COk s else CValueError
  | KUnion p q => if matches p s || matches q s then COk s else CValueError
  | KMangle cs => COk (mangle cs s)
  end.

(* ---- lexical spaces of the schema ---- *)
Inductive stype :=
  | SAny                                        (* no more than "some strings": xsd:string, integers, dates, URIs ... (an upper bound) *)
  | SValues (l : list str)                      (* <value>...</value> alternatives *)
  | SPat (p : re)                               (* <data type="string"><param name="pattern"> *)
  | SNoColonSpace                               (* NCName, ID, IDREF: no colon and no white space (an upper bound) *)
  | SChoice (a b : stype).

Definition no_colon_space (s : str) : bool := forallb (fun c => negb ((c =? 58) || (c =? 32))) s.
Fixpoint s_valid (t : stype) (s : str) : bool :=
  match t with
  | SAny => true
  | SValues l => in_strs s l
  | SPat p => matches p s
  | SNoColonSpace => no_colon_space s
  | SChoice a b => s_valid a s || s_valid b s
  end.
