(* Base.v — code points, strings, small list utilities shared by every model layer.
   A Python str is a sequence of code points 0 .. 0x10FFFF (lone surrogates
   included), modelled as [list N]. *)
From Coq Require Export List NArith Bool Ascii String.
Export ListNotations.
Open Scope N_scope.

Definition cp := N.
Definition str := list cp.

(* Coq string literal -> code point list (ASCII only; used for constants). *)
Definition s2l (s : string) : str := map N_of_ascii (list_ascii_of_string s).

Definition cTAB : cp := 9.
Definition cLF  : cp := 10.
Definition cCR  : cp := 13.
Definition cSP  : cp := 32.
Definition cQUOT : cp := 34.   (* double quote *)
Definition cAMP  : cp := 38.   (* ampersand *)
Definition cAPOS : cp := 39.   (* apostrophe *)
Definition cLT   : cp := 60.
Definition cEQ   : cp := 61.
Definition cGT   : cp := 62.
Definition cRSQB : cp := 93.   (* right square bracket *)
Definition cFFFD : cp := 65533.

Fixpoint str_eqb (a b : str) : bool :=
  match a, b with
  | [], [] => true
  | x :: a', y :: b' => (x =? y) && str_eqb a' b'
  | _, _ => false
  end.

Fixpoint mem_cp (c : cp) (s : str) : bool :=
  match s with [] => false | x :: r => (x =? c) || mem_cp c r end.

(* Python-visible outcome of an operation that may raise. *)
Inductive exn :=
  | IllegalChild | IllegalText | AttributeErr | ValueErr | NotFoundErr
  | HierarchyErr | AssertionErr | KeyErr | IndexErr | TypeErr.

Inductive result (A : Type) := Ok (a : A) | Raise (e : exn).
Arguments Ok {A} a.
Arguments Raise {A} e.

Definition bind {A B} (r : result A) (f : A -> result B) : result B :=
  match r with Ok a => f a | Raise e => Raise e end.
