(* UserField.v — model of odf/userfield.py: UserFields.update, list_fields_and_values, list_fields,
   list_values, get, get_type_and_value (load and save underneath are properties C04/C05). *)
From Odf Require Import model.Base model.XmlTree.

(* the value attributes of text:user-field-decl, as indices *)
Definition A_VALUE : nat := 0.  Definition A_DATE : nat := 1.  Definition A_TIME : nat := 2.
Definition A_BOOL : nat := 3.   Definition A_STRING : nat := 4.

Record decl := mkDecl {
  d_name : str;
  d_type : str;                         (* office:value-type as written *)
  d_vals : list (nat * str);            (* the value attributes present *)
  d_other : list (nat * str)            (* every other attribute (opaque here) *)
}.

(* VALUE_TYPES.get(value_type, (OFFICENS, 'value')) *)
Definition value_attr (vt : str) : nat :=
  if str_eqb vt (s2l "float") then A_VALUE else if str_eqb vt (s2l "percentage") then A_VALUE
  else if str_eqb vt (s2l "currency") then A_VALUE else if str_eqb vt (s2l "date") then A_DATE
  else if str_eqb vt (s2l "time") then A_TIME else if str_eqb vt (s2l "boolean") then A_BOOL
  else if str_eqb vt (s2l "string") then A_STRING else A_VALUE.

Fixpoint aget (k : nat) (a : list (nat * str)) : option str :=
  match a with [] => None | (k', v) :: r => if Nat.eqb k' k then Some v else aget k r end.
Fixpoint aset (k : nat) (v : str) (a : list (nat * str)) : list (nat * str) :=
  match a with
  | [] => [(k, v)]
  | (k', v') :: r => if Nat.eqb k' k then (k, v) :: r else (k', v') :: aset k v r
  end.

(* attribute converters on the way in: office:boolean-value is canonicalised, the others are kept *)
Definition lower (c : cp) : cp := if (65 <=? c) && (c <=? 90) then c + 32 else c.
Definition conv_value (k : nat) (v : str) : result str :=
  if Nat.eqb k A_BOOL then
    let l := map lower v in
    if str_eqb l (s2l "0") || str_eqb l (s2l "false") || str_eqb l (s2l "no") then Ok (s2l "false")
    else if str_eqb l (s2l "1") || str_eqb l (s2l "true") || str_eqb l (s2l "yes") then Ok (s2l "true")
    else Raise ValueErr
  else Ok v.

Fixpoint dlookup (k : str) (d : list (str * str)) : option str :=
  match d with [] => None | (k', v) :: r => if str_eqb k' k then Some v else dlookup k r end.

(* the loop of update(): every declaration whose name is a key of data *)
Fixpoint update (data : list (str * str)) (ds : list decl) : result (list decl) :=
  match ds with
  | [] => Ok []
  | f :: r =>
      match dlookup (d_name f) data with
      | None => match update data r with Ok r' => Ok (f :: r') | Raise e => Raise e end
      | Some v =>
          let k := value_attr (d_type f) in
          match conv_value k v with
          | Raise e => Raise e
          | Ok v' => match update data r with
                     | Ok r' => Ok (mkDecl (d_name f) (d_type f) (aset k v' (d_vals f)) (d_other f) :: r')
                     | Raise e => Raise e
                     end
          end
      end
  end.

(* list_fields_and_values(field_names) *)
Definition field_row (f : decl) : str * str * option str := (d_name f, d_type f, aget (value_attr (d_type f)) (d_vals f)).
Definition list_fields_and_values (names : option (list str)) (ds : list decl) : list (str * str * option str) :=
  map field_row (filter (fun f => match names with None => true | Some l => existsb (str_eqb (d_name f)) l end) ds).
