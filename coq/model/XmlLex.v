(* XmlLex.v — the *specification side*: a conforming XML 1.0 lexer for the
   sub-language without DTD, processing instructions and comments (DESIGN.md 3.1
   L1'), as a character-at-a-time state machine run by fold_left, so that
   [run (a ++ b) s = run b (run a s)].  Names are ASCII.

   End-of-line normalisation (XML 1.0 2.11) is a separate pass [eol_norm]
   applied before lexing, as the recommendation describes it. *)
From Odf Require Import model.Base model.Chars.

Inductive tok :=
  | TkStart (n : str) (atts : list (str * str))
  | TkEmpty (n : str) (atts : list (str * str))
  | TkEnd (n : str)
  | TkChars (s : str).

Definition attlist := list (str * str).

Inductive mode :=
  | MText (acc : str) (k : nat)            (* character data; k = trailing ']' seen (0,1,2) *)
  | MRefT (acc : str) (r : str)            (* reference in character data *)
  | MLt (acc : str)                        (* after '<' *)
  | MBang (acc : str) (i : nat)            (* after "<!" and i characters of "[CDATA[" *)
  | MCData (acc : str) (k : nat)           (* in a CDATA section; k pending ']' *)
  | MTagName (n : str)
  | MAttrs (n : str) (atts : attlist) (ws : bool)
  | MAttName (n : str) (atts : attlist) (an : str)
  | MAttNameWs (n : str) (atts : attlist) (an : str)
  | MAttEq (n : str) (atts : attlist) (an : str)
  | MAttVal (n : str) (atts : attlist) (an : str) (q : cp) (acc : str)
  | MRefA (n : str) (atts : attlist) (an : str) (q : cp) (acc : str) (r : str)
  | MSlash (n : str) (atts : attlist)
  | MEndName (n : str)
  | MEndWs (n : str)
  | MBad.

Record lstate := mkL { toks : list tok; md : mode }.   (* toks: emitted so far, in order *)

Definition cBANG : cp := 33.
Definition cHASH : cp := 35.
Definition cSLASH : cp := 47.
Definition cSEMI : cp := 59.
Definition cLSQB : cp := 91.
Definition cx : cp := 120.

(* value of a decimal / hexadecimal digit string *)
Definition dec_digit (c : cp) : option N := if is_digit c then Some (c - 48) else None.
Definition hex_digit (c : cp) : option N :=
  if is_digit c then Some (c - 48)
  else if (97 <=? c) && (c <=? 102) then Some (c - 87)
  else if (65 <=? c) && (c <=? 70) then Some (c - 55)
  else None.
Fixpoint digits_val (base : N) (dig : cp -> option N) (s : str) (acc : N) : option N :=
  match s with
  | [] => Some acc
  | c :: r => match dig c with Some d => digits_val base dig r (acc * base + d) | None => None end
  end.

Fixpoint strip_prefix (p s : str) : option str :=
  match p, s with
  | [], _ => Some s
  | a :: p', b :: s' => if a =? b then strip_prefix p' s' else None
  | _, [] => None
  end.

Definition char_of_val (v : option N) : option cp :=
  match v with Some v => if xml10_char v then Some v else None | None => None end.

Definition resolve_ref (r : str) : option cp :=
  if str_eqb r (s2l "amp") then Some cAMP
  else if str_eqb r (s2l "lt") then Some cLT
  else if str_eqb r (s2l "gt") then Some cGT
  else if str_eqb r (s2l "quot") then Some cQUOT
  else if str_eqb r (s2l "apos") then Some cAPOS
  else match strip_prefix [cHASH; cx] r with
       | Some (c :: h) => char_of_val (digits_val 16 hex_digit (c :: h) 0)
       | _ => match strip_prefix [cHASH] r with
              | Some (c :: d) => char_of_val (digits_val 10 dec_digit (c :: d) 0)
              | _ => None
              end
       end.

Definition ref_char (c : cp) : bool := is_alpha c || is_digit c || (c =? cHASH).

Definition flush_text (ts : list tok) (acc : str) : list tok :=
  match acc with [] => ts | _ => ts ++ [TkChars acc] end.

Definition sCDATA_KW : str := s2l "[CDATA[".

Definition lstep (st : lstate) (c : cp) : lstate :=
  let ts := toks st in
  let bad := mkL ts MBad in
  match md st with
  | MBad => st
  | MText acc k =>
      if c =? cLT then mkL ts (MLt acc)
      else if c =? cAMP then mkL ts (MRefT acc [])
      else if c =? cGT then (if Nat.leb 2 k then bad else mkL ts (MText (acc ++ [c]) 0))
      else if c =? cRSQB then mkL ts (MText (acc ++ [c]) (Nat.min 2 (S k)))
      else if xml10_char c then mkL ts (MText (acc ++ [c]) 0) else bad
  | MRefT acc r =>
      if c =? cSEMI then
        match resolve_ref r with Some ch => mkL ts (MText (acc ++ [ch]) 0) | None => bad end
      else if ref_char c then mkL ts (MRefT acc (r ++ [c])) else bad
  | MLt acc =>
      if c =? cSLASH then mkL (flush_text ts acc) (MEndName [])
      else if c =? cBANG then mkL ts (MBang acc 0)
      else if name_start c then mkL (flush_text ts acc) (MTagName [c])
      else bad
  | MBang acc i =>
      match nth_error sCDATA_KW i with
      | Some e => if c =? e then (if Nat.eqb i 6 then mkL ts (MCData acc 0) else mkL ts (MBang acc (S i))) else bad
      | None => bad
      end
  | MCData acc k =>
      if c =? cRSQB then
        (if Nat.leb 2 k then mkL ts (MCData (acc ++ [cRSQB]) 2) else mkL ts (MCData acc (S k)))
      else if c =? cGT then
        (if Nat.leb 2 k then mkL ts (MText acc 0) else mkL ts (MCData (acc ++ repeat cRSQB k ++ [c]) 0))
      else if xml10_char c then mkL ts (MCData (acc ++ repeat cRSQB k ++ [c]) 0) else bad
  | MTagName n =>
      if name_char c then mkL ts (MTagName (n ++ [c]))
      else if is_ws c then mkL ts (MAttrs n [] true)
      else if c =? cGT then mkL (ts ++ [TkStart n []]) (MText [] 0)
      else if c =? cSLASH then mkL ts (MSlash n [])
      else bad
  | MAttrs n atts ws =>
      if is_ws c then mkL ts (MAttrs n atts true)
      else if c =? cGT then mkL (ts ++ [TkStart n atts]) (MText [] 0)
      else if c =? cSLASH then mkL ts (MSlash n atts)
      else if name_start c then (if ws then mkL ts (MAttName n atts [c]) else bad)
      else bad
  | MAttName n atts an =>
      if name_char c then mkL ts (MAttName n atts (an ++ [c]))
      else if c =? cEQ then mkL ts (MAttEq n atts an)
      else if is_ws c then mkL ts (MAttNameWs n atts an)
      else bad
  | MAttNameWs n atts an =>
      if is_ws c then st
      else if c =? cEQ then mkL ts (MAttEq n atts an)
      else bad
  | MAttEq n atts an =>
      if is_ws c then st
      else if (c =? cQUOT) || (c =? cAPOS) then mkL ts (MAttVal n atts an c [])
      else bad
  | MAttVal n atts an q acc =>
      if c =? q then mkL ts (MAttrs n (atts ++ [(an, acc)]) false)
      else if c =? cLT then bad
      else if c =? cAMP then mkL ts (MRefA n atts an q acc [])
      else if (c =? cTAB) || (c =? cLF) || (c =? cCR) then mkL ts (MAttVal n atts an q (acc ++ [cSP]))
      else if xml10_char c then mkL ts (MAttVal n atts an q (acc ++ [c])) else bad
  | MRefA n atts an q acc r =>
      if c =? cSEMI then
        match resolve_ref r with Some ch => mkL ts (MAttVal n atts an q (acc ++ [ch])) | None => bad end
      else if ref_char c then mkL ts (MRefA n atts an q acc (r ++ [c])) else bad
  | MSlash n atts =>
      if c =? cGT then mkL (ts ++ [TkEmpty n atts]) (MText [] 0) else bad
  | MEndName n =>
      match n with
      | [] => if name_start c then mkL ts (MEndName [c]) else bad
      | _ => if name_char c then mkL ts (MEndName (n ++ [c]))
             else if is_ws c then mkL ts (MEndWs n)
             else if c =? cGT then mkL (ts ++ [TkEnd n]) (MText [] 0)
             else bad
      end
  | MEndWs n =>
      if is_ws c then st
      else if c =? cGT then mkL (ts ++ [TkEnd n]) (MText [] 0)
      else bad
  end.

Definition run (s : str) (st : lstate) : lstate := fold_left lstep s st.

Definition linit : lstate := mkL [] (MText [] 0).

Definition lfinish (st : lstate) : option (list tok) :=
  match md st with
  | MText acc _ => Some (flush_text (toks st) acc)
  | _ => None
  end.

(* XML 1.0 section 2.11: CR LF -> LF, lone CR -> LF, before anything else *)
Fixpoint eol_norm (s : str) : str :=
  match s with
  | [] => []
  | c :: r =>
      if c =? cCR then
        match r with
        | d :: r' => if d =? cLF then cLF :: eol_norm r' else cLF :: eol_norm r
        | [] => [cLF]
        end
      else c :: eol_norm r
  end.

(* The XML declaration: "<?xml" ... "?>" at the very start is skipped (its
   pseudo-attributes are not interpreted by this model; see DESIGN.md 4). *)
Fixpoint skip_decl_body (s : str) : option str :=
  match s with
  | [] => None
  | c :: r =>
      if c =? 63 then
        match r with
        | d :: r' => if d =? cGT then Some r' else skip_decl_body r
        | [] => None
        end
      else if c =? cLT then None else skip_decl_body r
  end.
Definition sXMLDECL := s2l "<?xml".
Definition strip_decl (s : str) : option str :=
  match strip_prefix sXMLDECL s with
  | Some (c :: r) => if is_ws c then skip_decl_body r else None
  | Some [] => None
  | None => Some s
  end.

Definition lex (s : str) : option (list tok) :=
  match strip_decl (eol_norm s) with
  | Some body => lfinish (run body linit)
  | None => None
  end.
