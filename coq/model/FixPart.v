(* FixPart.v — odf/opendocument.py:__fixXmlPart: the textual patch load() applies to every XML member before it is parsed
   (namespace declarations some producers leave out are inserted where the first " xmlns:" stands).  What matters for C13:
   the patch must not reach into a document type declaration, or a member that declares entities reaches the parser in
   another shape than it has in the package (it did: fix f5cab13). *)
From Coq Require Import ZArith.
From Odf Require Import model.Base model.XmlLex.

Fixpoint find_from (needle s : str) (i : nat) : option nat :=
  match s with
  | [] => match needle with [] => Some i | _ => None end
  | c :: r => match strip_prefix needle s with Some _ => Some i | None => find_from needle r (S i) end
  end.
Definition contains (needle s : str) : bool := match find_from needle s 0 with Some _ => true | None => false end.

(* the end of the document type declaration that starts at position i: quotes and the brackets of the internal subset
   are respected; None = it never ends *)
Fixpoint dtd_end (s : str) (i : nat) (quote : option cp) (depth : Z) : option nat :=
  match s with
  | [] => None
  | c :: r =>
      match quote with
      | Some q => dtd_end r (S i) (if c =? q then None else quote) depth
      | None =>
          if (c =? 34) || (c =? 39) then dtd_end r (S i) (Some c) depth
          else if c =? 91 then dtd_end r (S i) None (depth + 1)
          else if c =? 93 then dtd_end r (S i) None (depth - 1)
          else if (c =? 62) && (depth =? 0)%Z then Some (S i)
          else dtd_end r (S i) None depth
      end
  end.

Definition sDOCTYPE : str := s2l "<!DOCTYPE".
Definition sXMLNS_SP : str := s2l " xmlns:".
Definition root_start (s : str) : nat :=
  match find_from sDOCTYPE s 0 with
  | None => 0%nat
  | Some pos => match dtd_end (skipn pos s) pos None 0 with Some e => e | None => List.length s end
  end.

Definition prefixes : list str := map s2l ["meta"; "config"; "dc"; "style"; "svg"; "fo"; "draw"; "table"; "form"]%string.
Definition decl (p : str) : str := sXMLNS_SP ++ p ++ s2l "=""urn:oasis:names:tc:opendocument:xmlns:" ++ p ++ s2l ":1.0""".
Definition insert_at (s : str) (i : nat) (x : str) : str := firstn i s ++ x ++ skipn i s.

Definition fix_one (orig : str) (start : nat) (result p : str) : str :=
  if contains (sXMLNS_SP ++ p) (skipn start orig) then result
  else match find_from sXMLNS_SP (skipn start result) start with
       | Some pos => insert_at result pos (decl p)
       | None => result
       end.
Definition fix_part (s : str) : str := fold_left (fix_one s (root_start s)) prefixes s.
