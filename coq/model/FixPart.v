(* FixPart.v — odf/opendocument.py:__fixXmlPart and __endOfDoctype: the textual patch load() applies to every XML member
   before it is parsed (namespace declarations some producers leave out are inserted in front of the first declaration).
   What matters for C13: the patch must not reach into a document type declaration, or a member that declares entities
   reaches the parser in another shape than it has in the package (it did: fixes f5cab13, cd18065, becf442). *)
From Coq Require Import ZArith.
From Odf Require Import model.Base model.Chars model.XmlLex.

(* str.find(needle, from): index of the first occurrence at or after position i of s *)
Fixpoint find_from (needle s : str) (i : nat) : option nat :=
  match s with
  | [] => match needle with [] => Some i | _ => None end
  | c :: r => match strip_prefix needle s with Some _ => Some i | None => find_from needle r (S i) end
  end.
Definition starts (p s : str) : bool := match strip_prefix p s with Some _ => true | None => false end.

Definition sDOCTYPE : str := s2l "<!DOCTYPE".
Definition sPI : str := s2l "<?".
Definition sPIEND : str := s2l "?>".
Definition sCOM : str := s2l "<!--".
Definition sCOMEND : str := s2l "-->".
Definition sXMLNS : str := s2l "xmlns:".
Definition is_xws (c : cp) : bool := (c =? 32) || (c =? 9) || (c =? 13) || (c =? 10).
Definition is_prolog_ws (c : cp) : bool := is_xws c || (c =? 65279).        (* a byte-order mark is skipped too *)

(* the declaration itself, entered at its first character: literals, the internal subset in brackets, comments and processing
   instructions inside it.  skip = characters still to be passed over (the rest of a comment or processing instruction).
   None = it does not end *)
Fixpoint dtd_end (s : str) (i : nat) (quote : option cp) (depth : Z) (skip : nat) : option nat :=
  match s with
  | [] => None
  | c :: r =>
      match skip with
      | S k => dtd_end r (S i) quote depth k
      | O =>
        match quote with
        | Some q => dtd_end r (S i) (if c =? q then None else quote) depth 0
        | None =>
            if starts sCOM s then
              match find_from sCOMEND (skipn 4 s) 4 with Some j => dtd_end r (S i) None depth (j + 2) | None => None end
            else if starts sPI s then
              match find_from sPIEND s 0 with Some j => dtd_end r (S i) None depth (j + 1) | None => None end
            else if (c =? 34) || (c =? 39) then dtd_end r (S i) (Some c) depth 0
            else if c =? 91 then dtd_end r (S i) None (depth + 1) 0
            else if c =? 93 then dtd_end r (S i) None (depth - 1) 0
            else if (c =? 62) && (depth =? 0)%Z then Some (S i)
            else dtd_end r (S i) None depth 0
        end
      end
  end.

(* the prolog in front of it: XML declaration, processing instructions, comments, white space.  Result: the index behind the
   document type declaration; 0 when the root element comes first; the length of the text when something does not end *)
Fixpoint prolog (fuel : nat) (s : str) (i : nat) (total : nat) : nat :=
  match fuel with
  | O => total
  | S f =>
      match s with
      | [] => total
      | c :: r =>
          if starts sPI s then
            match find_from sPIEND s 0 with Some j => prolog f (skipn (j + 2) s) (i + j + 2) total | None => total end
          else if starts sCOM s then
            match find_from sCOMEND (skipn 4 s) 4 with Some j => prolog f (skipn (j + 3) s) (i + j + 3) total | None => total end
          else if starts sDOCTYPE s then
            match dtd_end s i None 0 0 with Some e => e | None => total end
          else if is_prolog_ws c then prolog f r (S i) total
          else 0%nat
      end
  end.
Definition root_start (s : str) : nat := Nat.min (prolog (S (List.length s)) s 0 (List.length s)) (List.length s).

(* __rootStartTag: from the end of the document type declaration on - processing instructions, comments and white space are
   passed over, then the start tag of the root element runs to the first '>' outside a quoted attribute value.
   misc: the index where the root element begins (total when something does not end or nothing follows) *)
Fixpoint misc (fuel : nat) (s : str) (i : nat) (total : nat) : nat :=
  match fuel with
  | O => total
  | S f =>
      match s with
      | [] => total
      | c :: r =>
          if starts sPI s then
            match find_from sPIEND s 0 with Some j => misc f (skipn (j + 2) s) (i + j + 2) total | None => total end
          else if starts sCOM s then
            match find_from sCOMEND (skipn 4 s) 4 with Some j => misc f (skipn (j + 3) s) (i + j + 3) total | None => total end
          else if is_prolog_ws c then misc f r (S i) total
          else i
      end
  end.
(* tag_end: the index of the '>' that ends the tag entered at index i (the length of the text when there is none) *)
Fixpoint tag_end (s : str) (i : nat) (quote : option cp) : nat :=
  match s with
  | [] => i
  | c :: r =>
      match quote with
      | Some q => tag_end r (S i) (if c =? q then None else quote)
      | None => if (c =? 34) || (c =? 39) then tag_end r (S i) (Some c)
                else if c =? 62 then i else tag_end r (S i) None
      end
  end.
Definition root_begin (s : str) : nat :=
  Nat.min (misc (S (List.length s)) (skipn (root_start s) s) (root_start s) (List.length s)) (List.length s).
Definition root_stop (s : str) : nat := tag_end (skipn (root_begin s) s) (root_begin s) None.

(* __isOpenDocumentPart: re.match('<([^ \t\r\n:/>]*:)?document(-content|-styles|-meta|-settings)?[ \t\r\n/>]') on the root's start
   tag - is the part one of OpenDocument's (whatever prefix its producer chose), or of another vocabulary (a MathML formula)? *)
Definition name_sep (c : cp) : bool := is_xws c || (c =? 58) || (c =? 47) || (c =? 62).
Fixpoint drop_run (s : str) : str := match s with c :: r => if name_sep c then s else drop_run r | [] => [] end.
Definition tag_term (c : cp) : bool := is_xws c || (c =? 47) || (c =? 62).
Definition sDOCUMENT : str := s2l "document".
Definition doc_suffixes : list str := map s2l ["-content"; "-styles"; "-meta"; "-settings"; ""]%string.
Definition local_ok (l : str) : bool :=
  existsb (fun suf => match strip_prefix (sDOCUMENT ++ suf) l with Some (c :: _) => tag_term c | _ => false end) doc_suffixes.
Definition is_odf_part (s : str) : bool :=
  match skipn (root_begin s) (firstn (S (root_stop s)) s) with
  | 60 :: r => local_ok r || match drop_run r with 58 :: r2 => local_ok r2 | _ => false end
  | _ => false
  end.

(* re.search('[ \t\r\n]xmlns:'): the first white-space character that is followed by the needle, at or after position i *)
Fixpoint find_ws_then (needle s : str) (i : nat) : option nat :=
  match s with
  | [] => None
  | c :: r => if is_xws c && starts needle r then Some i else find_ws_then needle r (S i)
  end.
(* re.search('[ \t\r\n]xmlns:PREFIX[ \t\r\n]*='): some declaration of the prefix *)
Fixpoint skip_ws (s : str) : str := match s with c :: r => if is_xws c then skip_ws r else s | [] => [] end.
Fixpoint declared (p s : str) : bool :=
  match s with
  | [] => false
  | c :: r =>
      (is_xws c && match strip_prefix (sXMLNS ++ p) r with
                   | Some rest => match skip_ws rest with e :: _ => e =? 61 | [] => false end
                   | None => false end)
      || declared p r
  end.

Definition prefixes : list str := map s2l ["meta"; "config"; "dc"; "style"; "svg"; "fo"; "draw"; "table"; "form"]%string.
Definition decl (p : str) : str := (32 :: sXMLNS) ++ p ++ s2l "=""urn:oasis:names:tc:opendocument:xmlns:" ++ p ++ s2l ":1.0""".
Definition insert_at (s : str) (i : nat) (x : str) : str := firstn i s ++ x ++ skipn i s.

(* pattern.search(result, begin, stop'): the match lies wholly in front of stop' = where the root's start tag ends in the text
   patched so far (everything inserted so far was inserted in front of it) *)
Definition fix_one (orig : str) (start begin stop : nat) (result p : str) : str :=
  if declared p (skipn start orig) then result
  else match find_ws_then sXMLNS (firstn (stop + List.length result - List.length orig - begin) (skipn begin result)) begin with
       | Some pos => insert_at result pos (decl p)
       | None => result
       end.
Definition fix_part (s : str) : str := fold_left (fix_one s (root_start s) (root_begin s) (root_stop s)) prefixes s.
