(* LoadInst.v — the loader model over the regenerated tables *)
From Odf Require Import model.Base model.XmlTree model.Doc model.LoadStyles model.Load gen.GenStyleRefs.
Definition i_redirected : qname -> qname -> bool := is_redirected scanned_refattrs redirect_excluded redirect_excluded_on.
Definition i_load_parts := load_parts i_redirected.
Definition i_load_doc := load_doc i_redirected.
