(* XmlPrint.v — model of the text-level printer of odf/element.py:
   _handle_unrepresentable, _escape, _sanitize, _quoteattr, Text.toXml,
   CDATASection.toXml.  Python's str.replace chains are modelled as the
   sequential replacements they are; XmlPrintProofs shows each chain equal to a
   single pointwise pass. The set of filtered code points is a parameter
   (instantiated by the regenerated GenChars.filtered_ranges). *)
From Odf Require Import model.Base model.Chars.

Section Printer.
Variable filtered : list (N * N).

Definition filter_char (c : cp) : cp := if in_ranges filtered c then cFFFD else c.
Definition handle_unrepresentable (s : str) : str := map filter_char s.

(* str.replace(old, new) for a one-character `old` *)
Definition replace1 (c : cp) (r : str) (s : str) : str :=
  flat_map (fun x => if x =? c then r else [x]) s.

Definition sAMP := s2l "&amp;".
Definition sLT := s2l "&lt;".
Definition sGT := s2l "&gt;".
Definition sQUOT := s2l "&quot;".
Definition sREF10 := s2l "&#10;".
Definition sREF13 := s2l "&#13;".
Definition sREF9 := s2l "&#9;".

(* _escape(data, entities): the three fixed replacements, then the dictionary
   in insertion order *)
Definition escape (ents : list (cp * str)) (s : str) : str :=
  fold_left (fun d e => replace1 (fst e) (snd e) d) ents
    (replace1 cGT sGT (replace1 cLT sLT (replace1 cAMP sAMP s))).

Definition sanitize (ents : list (cp * str)) (s : str) : str :=
  escape ents (handle_unrepresentable s).

(* Text.toXml: `if self.data: f.write(_sanitize(data, {'\r': '&#13;'}))` *)
Definition text_ents : list (cp * str) := [(cCR, sREF13)].
Definition text_toXml (s : str) : str := sanitize text_ents s.

(* _quoteattr: the shared default dictionary holds, after the first call and
   for ever after, exactly these three entries in this order *)
Definition attr_ents : list (cp * str) := [(cLF, sREF10); (cCR, sREF13); (cTAB, sREF9)].
Definition quoteattr (s : str) : str :=
  let d := sanitize attr_ents s in
  if mem_cp cQUOT d then
    if mem_cp cAPOS d then [cQUOT] ++ replace1 cQUOT sQUOT d ++ [cQUOT]
    else [cAPOS] ++ d ++ [cAPOS]
  else [cQUOT] ++ d ++ [cQUOT].

(* str.replace(']]>', r): leftmost non-overlapping occurrences *)
Fixpoint replace_cdend (r : str) (s : str) : str :=
  match s with
  | [] => []
  | a :: s1 =>
      match s1 with
      | b :: c :: t =>
          if (a =? cRSQB) && (b =? cRSQB) && (c =? cGT) then r ++ replace_cdend r t
          else a :: replace_cdend r s1
      | _ => a :: replace_cdend r s1
      end
  end.

Definition sCDOPEN := s2l "<![CDATA[".
Definition sCDCLOSE := s2l "]]>".
Definition sCDSPLIT := s2l "]]]]><![CDATA[>".
Definition sCDCR := s2l "]]>&#13;<![CDATA[".

(* CDATASection.toXml *)
Definition cdata_toXml (s : str) : str :=
  match s with
  | [] => []
  | _ => sCDOPEN ++ replace1 cCR sCDCR (replace_cdend sCDSPLIT (handle_unrepresentable s)) ++ sCDCLOSE
  end.

(* Text.toXml writes nothing for empty data *)
Definition textnode_toXml (s : str) : str := match s with [] => [] | _ => text_toXml s end.
End Printer.
