(* EasyList.v — model of odf/easyliststyle.py (styleFromList, styleFromString).
   Numbers: float(m.group(1)) * (i+1) and str(float) are CPython's; the model is
   parametric in them (Section variables), so what is stated about numbers is
   their *shape*: which factor, which unit. *)
From Odf Require Import model.Base.

(* numFormatPattern = re.compile("([1IiAa])"): first occurrence of a format character *)
Definition is_format (c : cp) : bool := (c =? 49) || (c =? 73) || (c =? 105) || (c =? 65) || (c =? 97).

Fixpoint first_format (s : str) (pre : str) : option (str * cp * str) :=
  match s with
  | [] => None
  | c :: r => if is_format c then Some (pre, c, r) else first_format r (pre ++ [c])
  end.

Inductive lkind :=
  | LNumber (fmt : cp) (prefix suffix : str) (display : nat)     (* text:list-level-style-number *)
  | LBullet (ch : cp).                                              (* text:list-level-style-bullet *)

Record level := mkLevel {
  lv_level : nat;            (* text:level *)
  lv_kind : lkind;
  lv_factor : nat            (* text:space-before = str(num * factor) + unit; min-label-width = str(num) + unit *)
}.

(* one iteration of the while loop; i is the 0-based index *)
Definition make_level (show_all : bool) (i : nat) (spec : str) : result level :=
  match first_format spec [] with
  | Some (pre, f, suf) => Ok (mkLevel (S i) (LNumber f pre suf (if show_all then S i else 1%nat)) (S i))
  | None =>
      match spec with
      | c :: _ => Ok (mkLevel (S i) (LBullet c) (S i))
      | [] => Raise IndexErr                       (* bullet[0] of an empty specification *)
      end
  end.

Fixpoint build_from (show_all : bool) (i : nat) (specs : list str) : result (list level) :=
  match specs with
  | [] => Ok []
  | s :: r =>
      match make_level show_all i s with
      | Raise e => Raise e
      | Ok l => match build_from show_all (S i) r with Ok ls => Ok (l :: ls) | Raise e => Raise e end
      end
  end.

Definition style_from_list (specs : list str) (show_all : bool) : result (list level) := build_from show_all 0 specs.

(* str.split(delim) for a one-character delimiter *)
Fixpoint split1 (d : cp) (s : str) (cur : str) : list str :=
  match s with
  | [] => [cur]
  | c :: r => if c =? d then cur :: split1 d r [] else split1 d r (cur ++ [c])
  end.
Definition style_from_string (specifiers : str) (d : cp) (show_all : bool) : result (list level) :=
  style_from_list (split1 d specifiers []) show_all.

(* cssLengthPattern = "([^a-z]+)\s*([a-z]+)?" with re.IGNORECASE, re.search: the first maximal run of
   non-letters is the number, the letters that follow (after the run) the unit *)
Definition is_letter (c : cp) : bool := ((65 <=? c) && (c <=? 90)) || ((97 <=? c) && (c <=? 122)).
Fixpoint span (p : cp -> bool) (s : str) : str * str :=
  match s with
  | [] => ([], [])
  | c :: r => if p c then let '(a, b) := span p r in (c :: a, b) else ([], s)
  end.
Definition css_split (spacing : str) : option (str * str) :=
  let '(_, s1) := span is_letter spacing in              (* search skips leading letters *)
  match s1 with
  | [] => None
  | _ => let '(num, s2) := span (fun c => negb (is_letter c)) s1 in
         let '(unit, _) := span is_letter s2 in Some (num, unit)
  end.
