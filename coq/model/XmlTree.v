(* XmlTree.v — the rest of the specification side (tree builder over tokens,
   Namespaces-in-XML 1.0 resolution) and odfpy's tree printer
   (Element.toXml / write_open_tag / write_close_tag, Text/CDATA nodes). *)
From Odf Require Import model.Base model.Chars model.XmlPrint model.XmlLex.

(* ------------------------------------------------------------------ *)
(* tokens -> raw tree                                                    *)
(* ------------------------------------------------------------------ *)
Inductive raw :=
  | RElem (n : str) (atts : attlist) (kids : list raw)
  | RText (s : str).

Definition frame := (str * attlist * list raw)%type.

(* attach a finished element to the innermost open element, or make it the root *)
Definition add_child (e : raw) (stk : list frame) (top : option raw)
  : option (list frame * option raw) :=
  match stk with
  | (n, a, k) :: stk' => Some ((n, a, k ++ [e]) :: stk', top)
  | [] => match top with None => Some ([], Some e) | Some _ => None end
  end.

Fixpoint build (ts : list tok) (stk : list frame) (top : option raw) : option raw :=
  match ts with
  | [] => match stk with [] => top | _ => None end
  | TkChars s :: r =>
      match stk with
      | (n, a, k) :: stk' => build r ((n, a, k ++ [RText s]) :: stk') top
      | [] => if forallb is_ws s then build r [] top else None
      end
  | TkStart n a :: r =>
      match stk, top with
      | [], Some _ => None                    (* a second root element *)
      | _, _ => build r ((n, a, []) :: stk) top
      end
  | TkEmpty n a :: r =>
      match add_child (RElem n a []) stk top with
      | Some (stk', top') => build r stk' top'
      | None => None
      end
  | TkEnd n :: r =>
      match stk with
      | (n', a, k) :: stk' =>
          if str_eqb n n' then
            match add_child (RElem n' a k) stk' top with
            | Some (stk'', top') => build r stk'' top'
            | None => None
            end
          else None
      | [] => None
      end
  end.

(* ------------------------------------------------------------------ *)
(* namespace resolution                                                  *)
(* ------------------------------------------------------------------ *)
Definition qname := (str * str)%type.        (* (namespace name, local name); [] = no namespace *)

Inductive node :=
  | Elem (q : qname) (atts : list (qname * str)) (kids : list node)
  | TextN (s : str)
  | CDataN (s : str).

Definition qname_eqb (a b : qname) : bool := str_eqb (fst a) (fst b) && str_eqb (snd a) (snd b).

Definition sXMLNS := s2l "xmlns".
Definition sXML := s2l "xml".
Definition sXML_NS := s2l "http://www.w3.org/XML/1998/namespace".
Definition cCOLON : cp := 58.

(* split a QName at its colon *)
Fixpoint split_colon (s : str) (acc : str) : (option str * str) :=
  match s with
  | [] => (None, acc)
  | c :: r => if c =? cCOLON then (Some acc, r) else split_colon r (acc ++ [c])
  end.

Definition nsbinds := list (str * str).       (* prefix -> namespace name, innermost first; [] prefix = default *)

Fixpoint lookup_str (k : str) (l : list (str * str)) : option str :=
  match l with
  | [] => None
  | (a, b) :: r => if str_eqb a k then Some b else lookup_str k r
  end.

(* the declarations among the attributes of one start tag *)
Fixpoint ns_decls (atts : attlist) : option nsbinds :=
  match atts with
  | [] => Some []
  | (n, v) :: r =>
      match ns_decls r with
      | None => None
      | Some ds =>
          if str_eqb n sXMLNS then Some (([], v) :: ds)
          else match split_colon n [] with
               | (Some p, l) =>
                   if str_eqb p sXMLNS then
                     (* xmlns:l="v": l an NCName other than xmlns, v non-empty (NS 1.0) *)
                     if is_ncname l && negb (str_eqb l sXMLNS) && negb (str_eqb v []) then Some ((l, v) :: ds)
                     else None
                   else Some ds
               | (None, _) => Some ds
               end
      end
  end.

Definition is_decl (n : str) : bool :=
  str_eqb n sXMLNS || match split_colon n [] with (Some p, _) => str_eqb p sXMLNS | _ => false end.

Definition resolve_elem_name (env : nsbinds) (n : str) : option qname :=
  match split_colon n [] with
  | (None, l) => if is_ncname l then
                   Some (match lookup_str [] env with Some d => d | None => [] end, l) else None
  | (Some p, l) => if is_ncname p && is_ncname l then
                     match lookup_str p env with Some u => Some (u, l) | None => None end
                   else None
  end.

Definition resolve_att_name (env : nsbinds) (n : str) : option qname :=
  match split_colon n [] with
  | (None, l) => if is_ncname l then Some ([], l) else None
  | (Some p, l) => if is_ncname p && is_ncname l then
                     match lookup_str p env with Some u => Some (u, l) | None => None end
                   else None
  end.

Fixpoint resolve_atts (env : nsbinds) (atts : attlist) : option (list (qname * str)) :=
  match atts with
  | [] => Some []
  | (n, v) :: r =>
      if is_decl n then resolve_atts env r
      else match resolve_att_name env n, resolve_atts env r with
           | Some q, Some l => Some ((q, v) :: l)
           | _, _ => None
           end
  end.

Fixpoint nodup_by {A} (eqb : A -> A -> bool) (l : list A) : bool :=
  match l with
  | [] => true
  | x :: r => negb (existsb (eqb x) r) && nodup_by eqb r
  end.

Fixpoint resolve (env : nsbinds) (t : raw) : option node :=
  match t with
  | RText s => Some (TextN s)
  | RElem n atts kids =>
      match ns_decls atts with
      | None => None
      | Some ds =>
          let env' := ds ++ env in
          if negb (nodup_by str_eqb (map fst atts)) then None else
          match resolve_elem_name env' n, resolve_atts env' atts with
          | Some q, Some qa =>
              if negb (nodup_by qname_eqb (map fst qa)) then None else
              match (fix go (ks : list raw) : option (list node) :=
                       match ks with
                       | [] => Some []
                       | k :: r => match resolve env' k, go r with
                                   | Some k', Some r' => Some (k' :: r')
                                   | _, _ => None
                                   end
                       end) kids with
              | Some ks => Some (Elem q qa ks)
              | None => None
              end
          | _, _ => None
          end
      end
  end.

Definition init_env : nsbinds := [(sXML, sXML_NS)].

Definition xml_parse (s : str) : option node :=
  match lex s with
  | Some ts => match build ts [] None with
               | Some r => resolve init_env r
               | None => None
               end
  | None => None
  end.

(* ------------------------------------------------------------------ *)
(* odfpy's tree printer                                                  *)
(* ------------------------------------------------------------------ *)
Section Serialize.
Variable filtered : list (N * N).

(* Element.namespaces: namespace name -> prefix, in insertion order *)
Definition nsenv := list (str * str).

Definition prefix_of (env : nsenv) (ns : str) : str :=
  match lookup_str ns env with Some p => p | None => [] end.

(* get_nsprefix: "" for a name in no namespace; _prefixed: no colon without a prefix *)
Definition nsprefix (env : nsenv) (ns : str) : str :=
  match ns with [] => [] | _ => prefix_of env ns end.
Definition tag_of (env : nsenv) (q : qname) : str :=
  match nsprefix env (fst q) with
  | [] => snd q
  | p => p ++ [cCOLON] ++ snd q
  end.

Definition sXMLNSCOLON := s2l " xmlns:".

(* `for namespace, prefix in self.namespaces.items(): ' xmlns:' + prefix + '=' + _quoteattr(namespace)` *)
Definition ns_dump (env : nsenv) : str :=
  flat_map (fun e => sXMLNSCOLON ++ snd e ++ [cEQ] ++ quoteattr filtered (fst e)) env.

(* ' ' + _sanitize(prefix + ':' + local) + '=' + _quoteattr(value) *)
Definition att_toXml (env : nsenv) (a : qname * str) : str :=
  [cSP] ++ sanitize filtered [] (tag_of env (fst a)) ++ [cEQ] ++ quoteattr filtered (snd a).

Definition open_tag (env : nsenv) (level0 : bool) (q : qname) (atts : list (qname * str)) : str :=
  [cLT] ++ tag_of env q ++ (if level0 then ns_dump env else []) ++ flat_map (att_toXml env) atts.

Fixpoint node_toXml (env : nsenv) (level0 : bool) (t : node) : str :=
  match t with
  | TextN s => textnode_toXml filtered s
  | CDataN s => cdata_toXml filtered s
  | Elem q atts kids =>
      open_tag env level0 q atts ++
      match kids with
      | [] => [cSLASH; cGT]
      | _ => [cGT] ++ flat_map (node_toXml env false) kids ++ [cLT; cSLASH] ++ tag_of env q ++ [cGT]
      end
  end.

(* write_open_tag / write_close_tag (used by contentxml/stylesxml for wrappers) *)
Definition write_open_tag (env : nsenv) (level0 : bool) (q : qname) (atts : list (qname * str)) : str :=
  open_tag env level0 q atts ++ [cGT].
Definition write_close_tag (env : nsenv) (q : qname) : str := [cLT; cSLASH] ++ tag_of env q ++ [cGT].

Definition sPROLOGUE := s2l "<?xml version='1.0' encoding='UTF-8'?>" ++ [cLF].

(* canonical form of a tree under parsing: filtered characters become U+FFFD,
   text and CDATA are the same thing, neighbours merge, empties vanish *)
Definition canon_str (s : str) : str := handle_unrepresentable filtered s.

Fixpoint merge_text (l : list node) : list node :=
  match l with
  | TextN a :: r =>
      match merge_text r with
      | TextN b :: r' => TextN (a ++ b) :: r'
      | r' => match a with [] => r' | _ => TextN a :: r' end
      end
  | x :: r => x :: merge_text r
  | [] => []
  end.

Fixpoint canon (t : node) : node :=
  match t with
  | TextN s => TextN (canon_str s)
  | CDataN s => TextN (canon_str s)
  | Elem q atts kids =>
      Elem q (map (fun a => (fst a, canon_str (snd a))) atts) (merge_text (map canon kids))
  end.
End Serialize.
