(* LoadStyles.v — what loading does to style names when content.xml and styles.xml reuse one
   (opendocument.__register_stylename and the redirection in build_caches), as a fold over the elements in the
   order the loader attaches them: content.xml first, styles.xml second.
   An element is summarised by: whether it is a style:style child of office:styles / office:automatic-styles with
   a style:name (a definition), and the names its style reference attributes hold. *)
From Odf Require Import model.Base model.XmlTree model.Doc.

Record lelem := mkLE {
  le_def : option str;            (* Some n: a registrable style:style named n *)
  le_refs : list (nat * list str) (* reference attributes (an index) -> names in the value *)
}.

Record lstate := mkLS { ls_names : list str; ls_fix : list (str * str) }.

Definition cM : cp := 77.

Fixpoint fix_get (k : str) (m : list (str * str)) : option str :=
  match m with [] => None | (a, b) :: r => if str_eqb a k then Some b else fix_get k r end.
Fixpoint fix_set (k v : str) (m : list (str * str)) : list (str * str) :=
  match m with
  | [] => [(k, v)]
  | (a, b) :: r => if str_eqb a k then (k, v) :: r else (a, b) :: fix_set k v r
  end.

Definition redirect (m : list (str * str)) (n : str) : str := match fix_get n m with Some n' => n' | None => n end.

(* the while loop of __register_stylename: prefix 'M' until the name is free; among length names + 1 candidates one
   is free, so the fuel is never exhausted (LoadStylesProofs.fresh_name_free) *)
Fixpoint fresh_name (fuel : nat) (names : list str) (c : str) : str :=
  match fuel with
  | O => c
  | S f => if mem_str c names then fresh_name f names (cM :: c) else c
  end.
Definition new_name (names : list str) (n : str) : str := fresh_name (S (List.length names)) names (cM :: n).

(* build_caches(elt): register a definition (renaming it on a clash), then redirect its references *)
Definition load_elem (s : lstate) (e : lelem) : lstate * lelem :=
  let '(s1, d) :=
    match le_def e with
    | None => (s, None)
    | Some n =>
        if mem_str n (ls_names s) then
          let n' := new_name (ls_names s) n in (mkLS (ls_names s ++ [n']) (fix_set n n' (ls_fix s)), Some n')
        else (mkLS (ls_names s ++ [n]) (ls_fix s), Some n)
    end in
  (s1, mkLE d (map (fun r => (fst r, map (redirect (ls_fix s1)) (snd r))) (le_refs e))).

Fixpoint load_elems (s : lstate) (es : list lelem) : lstate * list lelem :=
  match es with
  | [] => (s, [])
  | e :: r => let '(s1, e') := load_elem s e in let '(s2, r') := load_elems s1 r in (s2, e' :: r')
  end.

(* name resolution in a part: the definition a name refers to = its position among the definitions *)
Fixpoint find_def (n : str) (es : list lelem) (i : nat) : option nat :=
  match es with
  | [] => None
  | e :: r => match le_def e with
              | Some m => if str_eqb m n then Some i else find_def n r (S i)
              | None => find_def n r (S i)
              end
  end.

(* the last definition of n in a list *)
Fixpoint last_def (n : str) (es : list lelem) (i : nat) : option nat :=
  match es with
  | [] => None
  | e :: r => match last_def n r (S i) with
              | Some k => Some k
              | None => match le_def e with Some m => if str_eqb m n then Some i else None | None => None end
              end
  end.

Definition s0 : lstate := mkLS [] [].
Definition load_all (es : list lelem) : list lelem := snd (load_elems s0 es).

(* ---- which references can name a style:style (ODF 1.2 part 1, 19.x: the attribute descriptions) ----
   written from the specification, not from the code: the attributes of type styleNameRef(s) that name something else *)
Definition nsDRAW := s2l "urn:oasis:names:tc:opendocument:xmlns:drawing:1.0".
Definition nsPRES := s2l "urn:oasis:names:tc:opendocument:xmlns:presentation:1.0".
Definition nsSTYLE := s2l "urn:oasis:names:tc:opendocument:xmlns:style:1.0".
Definition nsTEXT := s2l "urn:oasis:names:tc:opendocument:xmlns:text:1.0".
Definition spec_other_kind : list qname :=
  [ (nsDRAW, s2l "fill-gradient-name"); (nsDRAW, s2l "fill-hatch-name"); (nsDRAW, s2l "fill-image-name");   (* draw:gradient, draw:hatch, draw:fill-image *)
    (nsDRAW, s2l "marker-end"); (nsDRAW, s2l "marker-start");                                              (* draw:marker *)
    (nsDRAW, s2l "master-page-name");                                                                       (* style:master-page *)
    (nsDRAW, s2l "opacity-name");                                                                           (* draw:opacity *)
    (nsDRAW, s2l "stroke-dash"); (nsDRAW, s2l "stroke-dash-names");                                        (* draw:stroke-dash *)
    (nsPRES, s2l "presentation-page-layout-name");                                                          (* style:presentation-page-layout *)
    (nsSTYLE, s2l "data-style-name"); (nsSTYLE, s2l "percentage-data-style-name");                         (* number:*-style *)
    (nsSTYLE, s2l "list-style-name");                                                                       (* text:list-style *)
    (nsSTYLE, s2l "master-page-name"); (nsTEXT, s2l "master-page-name");                                   (* style:master-page *)
    (nsSTYLE, s2l "page-layout-name");                                                                      (* style:page-layout *)
    (nsTEXT, s2l "style-override") ].                                                                       (* text:list-style *)
(* and the attributes that name a style:style on most elements but something else on these *)
Definition spec_other_kind_on : list (qname * qname) :=
  [ ((nsTEXT, s2l "list"), (nsTEXT, s2l "style-name"));                  (* text:list-style *)
    ((nsTEXT, s2l "numbered-paragraph"), (nsTEXT, s2l "style-name"));    (* text:list-style *)
    ((nsSTYLE, s2l "master-page"), (nsSTYLE, s2l "next-style-name")) ].  (* style:master-page *)

Definition qmem (a : qname) (l : list qname) : bool := existsb (qname_eqb a) l.
(* does the loader treat attribute a of element el as a reference to a style:style? *)
Definition is_redirected (scanned excluded : list qname) (excluded_on : list (qname * qname)) (el a : qname) : bool :=
  qmem a scanned && negb (qmem a excluded) && negb (existsb (fun p => qname_eqb (fst p) el && qname_eqb (snd p) a) excluded_on).
Definition spec_style_ref (schema : list qname) (el a : qname) : bool :=
  qmem a schema && negb (qmem a spec_other_kind) && negb (existsb (fun p => qname_eqb (fst p) el && qname_eqb (snd p) a) spec_other_kind_on).
