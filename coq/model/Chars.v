(* Chars.v — XML 1.0 character classes and interval lists. *)
From Odf Require Import model.Base.

(* XML 1.0 production [2] Char ::= #x9 | #xA | #xD | [#x20-#xD7FF] | [#xE000-#xFFFD] | [#x10000-#x10FFFF] *)
Definition xml10_char (c : cp) : bool :=
  (c =? 9) || (c =? 10) || (c =? 13) ||
  ((32 <=? c) && (c <=? 55295)) || ((57344 <=? c) && (c <=? 65533)) ||
  ((65536 <=? c) && (c <=? 1114111)).

(* closed intervals *)
Fixpoint in_ranges (r : list (N * N)) (c : cp) : bool :=
  match r with
  | [] => false
  | (lo, hi) :: r' => ((lo <=? c) && (c <=? hi)) || in_ranges r' c
  end.

(* The complement of Char inside [0, 0x10FFFF], as intervals. *)
Definition xml10_illegal : list (N * N) :=
  [(0, 8); (11, 12); (14, 31); (55296, 57343); (65534, 65535)].

(* every interval of [a] lies inside one interval of [b] *)
Definition range_inside (b : list (N * N)) (x : N * N) : bool :=
  existsb (fun y => (fst y <=? fst x) && (snd x <=? snd y)) b.
Definition ranges_subset (a b : list (N * N)) : bool := forallb (range_inside b) a.

(* ASCII name characters (names of the ODF vocabulary are ASCII; DESIGN.md 4) *)
Definition is_alpha (c : cp) : bool := ((65 <=? c) && (c <=? 90)) || ((97 <=? c) && (c <=? 122)).
Definition is_digit (c : cp) : bool := (48 <=? c) && (c <=? 57).
Definition nc_start (c : cp) : bool := is_alpha c || (c =? 95).                 (* NCName start: letter or _ *)
Definition nc_char (c : cp) : bool := nc_start c || is_digit c || (c =? 45) || (c =? 46).   (* + digit - . *)
Definition name_start (c : cp) : bool := nc_start c || (c =? 58).               (* Name start adds ':' *)
Definition name_char (c : cp) : bool := nc_char c || (c =? 58).
Definition is_ws (c : cp) : bool := (c =? 32) || (c =? 9) || (c =? 10) || (c =? 13).

Definition is_ncname (s : str) : bool :=
  match s with [] => false | c :: r => nc_start c && forallb nc_char r end.
