(* Load.v — model of odf/load.py (LoadParser) and of the XML part of opendocument.load at tree level: the parts, as the
   trees a conforming parser delivers (XmlLex.xml_parse), are routed into the eight sections of a new document, part
   by part (settings.xml, meta.xml, content.xml, styles.xml), section by section, element by element in document order;
   every element passes build_caches when it is attached (style registration with renaming, redirection of references:
   LoadStyles).  Attribute values are taken as they are (value conversion is C15). *)
From Odf Require Import model.Base model.Chars model.XmlPrint model.XmlLex model.XmlTree model.Doc model.LoadStyles.

Section Load.
Variable redirected : qname -> qname -> bool.     (* does build_caches redirect attribute a of element el after a rename? *)

Definition q_off (l : string) : qname := (sOFFICENS, s2l l).
Definition q_stylename : qname := (sSTYLENS, s2l "name").
Definition q_style : qname := (sSTYLENS, s2l "style").
Definition registers (parent_q : qname) : bool := qname_eqb parent_q (q_off "styles") || qname_eqb parent_q (q_off "automatic-styles").

Fixpoint get_att (k : qname) (atts : list (qname * str)) : option str :=
  match atts with [] => None | (k', v) :: r => if qname_eqb k' k then Some v else get_att k r end.
Fixpoint set_att (k : qname) (v : str) (atts : list (qname * str)) : list (qname * str) :=
  match atts with [] => [] | (k', v') :: r => if qname_eqb k' k then (k', v) :: r else (k', v') :: set_att k v r end.
Definition join_sp (l : list str) : str := match l with [] => [] | x :: r => x ++ flat_map (fun y => 32 :: y) r end.
Definition has_fix (fx : list (str * str)) (n : str) : bool := match fix_get n fx with Some _ => true | None => false end.

(* build_caches(elt) *)
Definition ld_atts (st : lstate) (parent_q q : qname) (atts : list (qname * str)) : lstate * list (qname * str) :=
  let '(st1, atts1) :=
    if qname_eqb q q_style && registers parent_q then
      match get_att q_stylename atts with
      | Some n => if mem_str n (ls_names st)
                  then let n' := new_name (ls_names st) n in
                       (mkLS (ls_names st ++ [n']) (fix_set n n' (ls_fix st)), set_att q_stylename n' atts)
                  else (mkLS (ls_names st ++ [n]) (ls_fix st), atts)
      | None => (st, atts)
      end
    else (st, atts) in
  (st1, match ls_fix st1 with
        | [] => atts1
        | fx => map (fun a => if redirected q (fst a)
                              then let ns := py_split (snd a) [] in
                                   if existsb (has_fix fx) ns then (fst a, join_sp (map (redirect fx) ns)) else a
                              else a) atts1
        end).

Fixpoint ld_node (st : lstate) (parent_q : qname) (t : node) : lstate * node :=
  match t with
  | Elem q atts kids =>
      let '(st1, atts') := ld_atts st parent_q q atts in
      let '(st2, kids') := (fix go (ks : list node) (s : lstate) : lstate * list node :=
                              match ks with
                              | [] => (s, [])
                              | k :: r => let '(s1, k') := ld_node s q k in let '(s2, r') := go r s1 in (s2, k' :: r')
                              end) kids st1 in
      (st2, Elem q atts' kids')
  | CDataN s => (st, TextN s)
  | t => (st, t)
  end.
Fixpoint ld_kids (st : lstate) (parent_q : qname) (ks : list node) : lstate * list node :=
  match ks with
  | [] => (st, [])
  | k :: r => let '(s1, k') := ld_node st parent_q k in let '(s2, r') := ld_kids s1 parent_q r in (s2, k' :: r')
  end.

(* the character data of a section element reaches the document's section through its element children (before a child:
   flushed to the parent; after the last one: to the parent of the child that just ended); a section without element
   children leaves its text on the detached element the parser created for it: lost *)
Definition keep (ks : list node) : list node := if existsb is_element ks then ks else [].

Inductive partname := PnSettings | PnMeta | PnContent | PnStyles.
Inductive secid := SMeta | SScripts | SFfd | SSettings | SStyles | SAuto | SMaster | SBody.

Definition route (pn : partname) (q : qname) : option secid :=
  if qname_eqb q (q_off "automatic-styles") then Some SAuto
  else if qname_eqb q (q_off "body") then Some SBody
  else if qname_eqb q (q_off "font-face-decls") then (match pn with PnStyles => Some SFfd | _ => None end)
  else if qname_eqb q (q_off "master-styles") then Some SMaster
  else if qname_eqb q (q_off "meta") then Some SMeta
  else if qname_eqb q (q_off "scripts") then Some SScripts
  else if qname_eqb q (q_off "settings") then Some SSettings
  else if qname_eqb q (q_off "styles") then Some SStyles
  else None.

Definition add_kids (sec : node) (ks : list node) : node := match sec with Elem q a k => Elem q a (k ++ ks) | t => t end.
Definition sec_q (s : secid) : qname :=
  match s with SMeta => q_off "meta" | SScripts => q_off "scripts" | SFfd => q_off "font-face-decls" | SSettings => q_off "settings"
             | SStyles => q_off "styles" | SAuto => q_off "automatic-styles" | SMaster => q_off "master-styles" | SBody => q_off "body" end.
Definition add_to (d : odfdoc) (s : secid) (ks : list node) : odfdoc :=
  match s with
  | SMeta => mkDoc (d_mime d) (add_kids (d_meta d) ks) (d_scripts d) (d_ffd d) (d_settings d) (d_styles d) (d_auto d) (d_master d) (d_body d)
  | SScripts => mkDoc (d_mime d) (d_meta d) (add_kids (d_scripts d) ks) (d_ffd d) (d_settings d) (d_styles d) (d_auto d) (d_master d) (d_body d)
  | SFfd => mkDoc (d_mime d) (d_meta d) (d_scripts d) (add_kids (d_ffd d) ks) (d_settings d) (d_styles d) (d_auto d) (d_master d) (d_body d)
  | SSettings => mkDoc (d_mime d) (d_meta d) (d_scripts d) (d_ffd d) (add_kids (d_settings d) ks) (d_styles d) (d_auto d) (d_master d) (d_body d)
  | SStyles => mkDoc (d_mime d) (d_meta d) (d_scripts d) (d_ffd d) (d_settings d) (add_kids (d_styles d) ks) (d_auto d) (d_master d) (d_body d)
  | SAuto => mkDoc (d_mime d) (d_meta d) (d_scripts d) (d_ffd d) (d_settings d) (d_styles d) (add_kids (d_auto d) ks) (d_master d) (d_body d)
  | SMaster => mkDoc (d_mime d) (d_meta d) (d_scripts d) (d_ffd d) (d_settings d) (d_styles d) (d_auto d) (add_kids (d_master d) ks) (d_body d)
  | SBody => mkDoc (d_mime d) (d_meta d) (d_scripts d) (d_ffd d) (d_settings d) (d_styles d) (d_auto d) (d_master d) (add_kids (d_body d) ks)
  end.

(* one section element of a part *)
Definition load_section (pn : partname) (acc : lstate * odfdoc) (sec : node) : lstate * odfdoc :=
  match sec with
  | Elem q _ ks => match route pn q with
                   | Some s => let '(st', ks') := ld_kids (fst acc) (sec_q s) (keep ks) in (st', add_to (snd acc) s ks')
                   | None => acc
                   end
  | _ => acc
  end.
Definition load_part (pn : partname) (acc : lstate * odfdoc) (root : option node) : lstate * odfdoc :=
  match root with Some (Elem _ _ secs) => fold_left (load_section pn) secs acc | _ => acc end.

(* OpenDocument(mimetype, add_generator=False) *)
Definition empty_doc (mime : str) : odfdoc :=
  mkDoc mime (Elem (q_off "meta") [] []) (Elem (q_off "scripts") [] []) (Elem (q_off "font-face-decls") [] [])
        (Elem (q_off "settings") [] []) (Elem (q_off "styles") [] []) (Elem (q_off "automatic-styles") [] [])
        (Elem (q_off "master-styles") [] []) (Elem (q_off "body") [] []).

(* __loadxmlparts: settings.xml, meta.xml, content.xml, styles.xml - those that are there *)
Definition load_parts (mime : str) (settings meta content styles : option node) : odfdoc :=
  snd (load_part PnStyles (load_part PnContent (load_part PnMeta (load_part PnSettings (s0, empty_doc mime) settings) meta) content) styles).

(* __dropRepeatedAutomaticStyles: of the named children of office:automatic-styles, one that is identical to the first
   child of its name and element type is dropped (its serialisation is compared; here: the trees) *)
Fixpoint node_eqb (a b : node) : bool :=
  match a, b with
  | TextN x, TextN y | CDataN x, CDataN y => str_eqb x y
  | Elem q1 a1 k1, Elem q2 a2 k2 =>
      qname_eqb q1 q2 &&
      (fix atts (x y : list (qname * str)) : bool :=
         match x, y with [], [] => true | (n1, v1) :: x', (n2, v2) :: y' => qname_eqb n1 n2 && str_eqb v1 v2 && atts x' y' | _, _ => false end) a1 a2 &&
      (fix kids (x y : list node) : bool :=
         match x, y with [], [] => true | c1 :: x', c2 :: y' => node_eqb c1 c2 && kids x' y' | _, _ => false end) k1 k2
  | _, _ => false
  end.
Fixpoint seen_get (q : qname) (n : str) (seen : list (qname * str * node)) : option node :=
  match seen with [] => None | (q', n', t) :: r => if qname_eqb q' q && str_eqb n' n then Some t else seen_get q n r end.
Fixpoint dedupe (seen : list (qname * str * node)) (ks : list node) : list node :=
  match ks with
  | [] => []
  | (Elem q a _ as k) :: r =>
      match get_att q_stylename a with
      | Some n => match seen_get q n seen with
                  | Some t => if node_eqb t k then dedupe seen r else k :: dedupe seen r
                  | None => k :: dedupe ((q, n, k) :: seen) r
                  end
      | None => k :: dedupe seen r
      end
  | k :: r => k :: dedupe seen r
  end.
Definition finish (d : odfdoc) : odfdoc :=
  mkDoc (d_mime d) (d_meta d) (d_scripts d) (d_ffd d) (d_settings d) (d_styles d)
        (match d_auto d with Elem q a ks => Elem q a (dedupe [] ks) | t => t end) (d_master d) (d_body d).

Definition load_doc (mime : str) (settings meta content styles : option node) : odfdoc :=
  finish (load_parts mime settings meta content styles).
End Load.
