(* ParseSites.v — which XML parser each reading entry point constructs, and which members load() parses.
   What a parser then does with a DOCTYPE is run-time behaviour of defusedxml/expat: it enters as a Section
   hypothesis (named in the trusted base, tested exhaustively by the injection matrix of the check). *)
From Odf Require Import model.Base model.XmlLex model.XmlTree model.NsTable model.Package.

Inductive entry_point := EPLoad | EPManifest | EPUserField | EPXhtml | EPMoinMoin.

(* the functions (file, qualified name) in which each entry point parses XML *)
Definition ep_functions (e : entry_point) : list (str * str) :=
  match e with
  | EPLoad | EPUserField | EPXhtml => [(s2l "odfmanifest.py", s2l "manifestlist"); (s2l "opendocument.py", s2l "__loadxmlparts")]
  | EPManifest => [(s2l "odfmanifest.py", s2l "manifestlist")]
  | EPMoinMoin => [(s2l "odf2moinmoin.py", s2l "ODF2MoinMoin.load")]
  end.

Definition site := (str * str * str * bool)%type.       (* file, function, resolved callee, guarded *)
Definition site_in (f : str * str) (s : site) : bool := str_eqb (fst (fst (fst s))) (fst f) && str_eqb (snd (fst (fst s))) (snd f).
Definition site_guarded (s : site) : bool := snd s.

Definition ep_sites (sites : list site) (e : entry_point) : list site :=
  filter (fun s => existsb (fun f => site_in f s) (ep_functions e)) sites.

(* the XML members load() hands to a parser: the manifest itself, then settings, meta, content, styles of the main
   document and of every embedded object it materialises - each only if the manifest lists it *)
Definition part_names : list str := [s2l "settings.xml"; s2l "meta.xml"; s2l "content.xml"; s2l "styles.xml"].
Definition parts_under (m : manifest) (folder : str) : list str :=
  filter (in_manifest m) (map (fun n => folder ++ n) part_names).
Definition load_reads (foreign : str -> bool) (m : manifest) : list str :=
  sMANIFEST :: parts_under m [] ++
  flat_map (fun e => match classify foreign m (fst e) with IsObject => parts_under m (fst e) | _ => [] end) m.

Section Parsers.
  Variable xdoc : Type.
  Variable dangerous : xdoc -> bool.           (* declares an entity or has an external subset *)
  Variable parse : bool -> xdoc -> bool.       (* parser kind (guarded?) -> document -> accepted without exception? *)
  Hypothesis guarded_refuses : forall d, dangerous d = true -> parse true d = false.

  (* an entry point parses its members one after the other and fails as soon as a parser raises *)
  Definition run_entry (reads : list (bool * xdoc)) : bool := forallb (fun r => parse (fst r) (snd r)) reads.

  Theorem entry_refuses reads :
    forallb fst reads = true -> existsb (fun r => dangerous (snd r)) reads = true -> run_entry reads = false.
  Proof.
    unfold run_entry. induction reads as [|[g d] r IH]; intros Hg Hd; [discriminate|].
    cbn [forallb existsb fst snd] in *. apply andb_true_iff in Hg as [G1 G2]. subst g.
    destruct (dangerous d) eqn:E.
    - now rewrite (guarded_refuses d E).
    - cbn [orb] in Hd. rewrite (IH G2 Hd). apply andb_false_r.
  Qed.
End Parsers.
