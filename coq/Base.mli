open Ascii
open BinNat
open BinNums
open List
open String

type cp = coq_N

type str = cp list

val s2l : string -> str

val cTAB : cp

val cLF : cp

val cCR : cp

val cSP : cp

val cQUOT : cp

val cAMP : cp

val cAPOS : cp

val cLT : cp

val cEQ : cp

val cGT : cp

val cRSQB : cp

val cFFFD : cp

val str_eqb : str -> str -> bool

val mem_cp : cp -> str -> bool

type exn =
| IllegalChild
| IllegalText
| AttributeErr
| ValueErr
| NotFoundErr
| HierarchyErr
| AssertionErr
| KeyErr
| IndexErr
| TypeErr

type 'a result =
| Ok of 'a
| Raise of exn
