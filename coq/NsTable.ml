open Ascii
open Base
open BinNat
open BinNums
open Datatypes
open Decimal
open String
open XmlTree

type nstab = (str * str) list

type nsstate = { nd : nstab; nsp : nstab }

(** val uint_chars : uint -> str **)

let rec uint_chars = function
| Nil -> []
| D0 r ->
  (Npos (Coq_xO (Coq_xO (Coq_xO (Coq_xO (Coq_xI Coq_xH)))))) :: (uint_chars r)
| D1 r ->
  (Npos (Coq_xI (Coq_xO (Coq_xO (Coq_xO (Coq_xI Coq_xH)))))) :: (uint_chars r)
| D2 r ->
  (Npos (Coq_xO (Coq_xI (Coq_xO (Coq_xO (Coq_xI Coq_xH)))))) :: (uint_chars r)
| D3 r ->
  (Npos (Coq_xI (Coq_xI (Coq_xO (Coq_xO (Coq_xI Coq_xH)))))) :: (uint_chars r)
| D4 r ->
  (Npos (Coq_xO (Coq_xO (Coq_xI (Coq_xO (Coq_xI Coq_xH)))))) :: (uint_chars r)
| D5 r ->
  (Npos (Coq_xI (Coq_xO (Coq_xI (Coq_xO (Coq_xI Coq_xH)))))) :: (uint_chars r)
| D6 r ->
  (Npos (Coq_xO (Coq_xI (Coq_xI (Coq_xO (Coq_xI Coq_xH)))))) :: (uint_chars r)
| D7 r ->
  (Npos (Coq_xI (Coq_xI (Coq_xI (Coq_xO (Coq_xI Coq_xH)))))) :: (uint_chars r)
| D8 r ->
  (Npos (Coq_xO (Coq_xO (Coq_xO (Coq_xI (Coq_xI Coq_xH)))))) :: (uint_chars r)
| D9 r ->
  (Npos (Coq_xI (Coq_xO (Coq_xO (Coq_xI (Coq_xI Coq_xH)))))) :: (uint_chars r)

(** val dec : coq_N -> str **)

let dec n =
  uint_chars (N.to_uint n)

(** val sNS : str **)

let sNS =
  s2l (String ((Ascii (false, true, true, true, false, true, true, false)),
    (String ((Ascii (true, true, false, false, true, true, true, false)),
    EmptyString))))

(** val gen_prefix : nat -> str **)

let gen_prefix k =
  app sNS (dec (N.of_nat k))

(** val nsassign : nstab -> str -> nstab * str **)

let nsassign d ns =
  match lookup_str ns d with
  | Some p -> (d, p)
  | None -> let p = gen_prefix (length d) in ((app d ((ns, p) :: [])), p)

(** val get_nsprefix : nsstate -> str -> nsstate * str **)

let get_nsprefix s ns = match ns with
| [] -> (s, [])
| _ :: _ ->
  let (d', p) = nsassign s.nd ns in
  ({ nd = d'; nsp =
  (match lookup_str ns s.nsp with
   | Some _ -> s.nsp
   | None -> app s.nsp ((ns, p) :: [])) }, p)

(** val get_knownns : nstab -> str -> str option **)

let rec get_knownns d p =
  match d with
  | [] -> None
  | p0 :: r ->
    let (ns, q) = p0 in if str_eqb q p then Some ns else get_knownns r p

(** val save_prefix : nsstate -> str -> nsstate **)

let save_prefix s arg =
  let (o, _) = split_colon arg [] in
  (match o with
   | Some p ->
     (match get_knownns s.nd p with
      | Some ns -> fst (get_nsprefix s ns)
      | None -> s)
   | None -> s)

type nsop =
| OpPrefix of str
| OpSavePrefix of str

(** val ns_step : nsstate -> nsop -> nsstate **)

let ns_step s = function
| OpPrefix ns -> fst (get_nsprefix s ns)
| OpSavePrefix a -> save_prefix s a
