open BinNums

(** val filtered_ranges : (coq_N * coq_N) list **)

let filtered_ranges =
  (N0, (Npos (Coq_xO (Coq_xO (Coq_xO Coq_xH))))) :: (((Npos (Coq_xI (Coq_xI
    (Coq_xO Coq_xH)))), (Npos (Coq_xO (Coq_xO (Coq_xI Coq_xH))))) :: (((Npos
    (Coq_xO (Coq_xI (Coq_xI Coq_xH)))), (Npos (Coq_xI (Coq_xI (Coq_xI (Coq_xI
    Coq_xH)))))) :: (((Npos (Coq_xI (Coq_xI (Coq_xI (Coq_xI (Coq_xI (Coq_xI
    Coq_xH))))))), (Npos (Coq_xO (Coq_xO (Coq_xI (Coq_xO (Coq_xO (Coq_xO
    (Coq_xO Coq_xH))))))))) :: (((Npos (Coq_xO (Coq_xI (Coq_xI (Coq_xO
    (Coq_xO (Coq_xO (Coq_xO Coq_xH)))))))), (Npos (Coq_xI (Coq_xI (Coq_xI
    (Coq_xI (Coq_xI (Coq_xO (Coq_xO Coq_xH))))))))) :: (((Npos (Coq_xO
    (Coq_xO (Coq_xO (Coq_xO (Coq_xO (Coq_xO (Coq_xO (Coq_xO (Coq_xO (Coq_xO
    (Coq_xO (Coq_xI (Coq_xI (Coq_xO (Coq_xI Coq_xH)))))))))))))))), (Npos
    (Coq_xI (Coq_xI (Coq_xI (Coq_xI (Coq_xI (Coq_xI (Coq_xI (Coq_xI (Coq_xI
    (Coq_xI (Coq_xI (Coq_xI (Coq_xI (Coq_xO (Coq_xI
    Coq_xH))))))))))))))))) :: (((Npos (Coq_xO (Coq_xI (Coq_xI (Coq_xI
    (Coq_xI (Coq_xI (Coq_xI (Coq_xI (Coq_xI (Coq_xI (Coq_xI (Coq_xI (Coq_xI
    (Coq_xI (Coq_xI Coq_xH)))))))))))))))), (Npos (Coq_xI (Coq_xI (Coq_xI
    (Coq_xI (Coq_xI (Coq_xI (Coq_xI (Coq_xI (Coq_xI (Coq_xI (Coq_xI (Coq_xI
    (Coq_xI (Coq_xI (Coq_xI Coq_xH))))))))))))))))) :: (((Npos (Coq_xO
    (Coq_xI (Coq_xI (Coq_xI (Coq_xI (Coq_xI (Coq_xI (Coq_xI (Coq_xI (Coq_xI
    (Coq_xI (Coq_xI (Coq_xI (Coq_xI (Coq_xI (Coq_xI Coq_xH))))))))))))))))),
    (Npos (Coq_xI (Coq_xI (Coq_xI (Coq_xI (Coq_xI (Coq_xI (Coq_xI (Coq_xI
    (Coq_xI (Coq_xI (Coq_xI (Coq_xI (Coq_xI (Coq_xI (Coq_xI (Coq_xI
    Coq_xH)))))))))))))))))) :: (((Npos (Coq_xO (Coq_xI (Coq_xI (Coq_xI
    (Coq_xI (Coq_xI (Coq_xI (Coq_xI (Coq_xI (Coq_xI (Coq_xI (Coq_xI (Coq_xI
    (Coq_xI (Coq_xI (Coq_xI (Coq_xO Coq_xH)))))))))))))))))), (Npos (Coq_xI
    (Coq_xI (Coq_xI (Coq_xI (Coq_xI (Coq_xI (Coq_xI (Coq_xI (Coq_xI (Coq_xI
    (Coq_xI (Coq_xI (Coq_xI (Coq_xI (Coq_xI (Coq_xI (Coq_xO
    Coq_xH))))))))))))))))))) :: (((Npos (Coq_xO (Coq_xI (Coq_xI (Coq_xI
    (Coq_xI (Coq_xI (Coq_xI (Coq_xI (Coq_xI (Coq_xI (Coq_xI (Coq_xI (Coq_xI
    (Coq_xI (Coq_xI (Coq_xI (Coq_xI Coq_xH)))))))))))))))))), (Npos (Coq_xI
    (Coq_xI (Coq_xI (Coq_xI (Coq_xI (Coq_xI (Coq_xI (Coq_xI (Coq_xI (Coq_xI
    (Coq_xI (Coq_xI (Coq_xI (Coq_xI (Coq_xI (Coq_xI (Coq_xI
    Coq_xH))))))))))))))))))) :: (((Npos (Coq_xO (Coq_xI (Coq_xI (Coq_xI
    (Coq_xI (Coq_xI (Coq_xI (Coq_xI (Coq_xI (Coq_xI (Coq_xI (Coq_xI (Coq_xI
    (Coq_xI (Coq_xI (Coq_xI (Coq_xO (Coq_xO Coq_xH))))))))))))))))))), (Npos
    (Coq_xI (Coq_xI (Coq_xI (Coq_xI (Coq_xI (Coq_xI (Coq_xI (Coq_xI (Coq_xI
    (Coq_xI (Coq_xI (Coq_xI (Coq_xI (Coq_xI (Coq_xI (Coq_xI (Coq_xO (Coq_xO
    Coq_xH)))))))))))))))))))) :: (((Npos (Coq_xO (Coq_xI (Coq_xI (Coq_xI
    (Coq_xI (Coq_xI (Coq_xI (Coq_xI (Coq_xI (Coq_xI (Coq_xI (Coq_xI (Coq_xI
    (Coq_xI (Coq_xI (Coq_xI (Coq_xI (Coq_xO Coq_xH))))))))))))))))))), (Npos
    (Coq_xI (Coq_xI (Coq_xI (Coq_xI (Coq_xI (Coq_xI (Coq_xI (Coq_xI (Coq_xI
    (Coq_xI (Coq_xI (Coq_xI (Coq_xI (Coq_xI (Coq_xI (Coq_xI (Coq_xI (Coq_xO
    Coq_xH)))))))))))))))))))) :: (((Npos (Coq_xO (Coq_xI (Coq_xI (Coq_xI
    (Coq_xI (Coq_xI (Coq_xI (Coq_xI (Coq_xI (Coq_xI (Coq_xI (Coq_xI (Coq_xI
    (Coq_xI (Coq_xI (Coq_xI (Coq_xO (Coq_xI Coq_xH))))))))))))))))))), (Npos
    (Coq_xI (Coq_xI (Coq_xI (Coq_xI (Coq_xI (Coq_xI (Coq_xI (Coq_xI (Coq_xI
    (Coq_xI (Coq_xI (Coq_xI (Coq_xI (Coq_xI (Coq_xI (Coq_xI (Coq_xO (Coq_xI
    Coq_xH)))))))))))))))))))) :: (((Npos (Coq_xO (Coq_xI (Coq_xI (Coq_xI
    (Coq_xI (Coq_xI (Coq_xI (Coq_xI (Coq_xI (Coq_xI (Coq_xI (Coq_xI (Coq_xI
    (Coq_xI (Coq_xI (Coq_xI (Coq_xI (Coq_xI Coq_xH))))))))))))))))))), (Npos
    (Coq_xI (Coq_xI (Coq_xI (Coq_xI (Coq_xI (Coq_xI (Coq_xI (Coq_xI (Coq_xI
    (Coq_xI (Coq_xI (Coq_xI (Coq_xI (Coq_xI (Coq_xI (Coq_xI (Coq_xI (Coq_xI
    Coq_xH)))))))))))))))))))) :: (((Npos (Coq_xO (Coq_xI (Coq_xI (Coq_xI
    (Coq_xI (Coq_xI (Coq_xI (Coq_xI (Coq_xI (Coq_xI (Coq_xI (Coq_xI (Coq_xI
    (Coq_xI (Coq_xI (Coq_xI (Coq_xO (Coq_xO (Coq_xO
    Coq_xH)))))))))))))))))))), (Npos (Coq_xI (Coq_xI (Coq_xI (Coq_xI (Coq_xI
    (Coq_xI (Coq_xI (Coq_xI (Coq_xI (Coq_xI (Coq_xI (Coq_xI (Coq_xI (Coq_xI
    (Coq_xI (Coq_xI (Coq_xO (Coq_xO (Coq_xO
    Coq_xH))))))))))))))))))))) :: (((Npos (Coq_xO (Coq_xI (Coq_xI (Coq_xI
    (Coq_xI (Coq_xI (Coq_xI (Coq_xI (Coq_xI (Coq_xI (Coq_xI (Coq_xI (Coq_xI
    (Coq_xI (Coq_xI (Coq_xI (Coq_xI (Coq_xO (Coq_xO
    Coq_xH)))))))))))))))))))), (Npos (Coq_xI (Coq_xI (Coq_xI (Coq_xI (Coq_xI
    (Coq_xI (Coq_xI (Coq_xI (Coq_xI (Coq_xI (Coq_xI (Coq_xI (Coq_xI (Coq_xI
    (Coq_xI (Coq_xI (Coq_xI (Coq_xO (Coq_xO
    Coq_xH))))))))))))))))))))) :: (((Npos (Coq_xO (Coq_xI (Coq_xI (Coq_xI
    (Coq_xI (Coq_xI (Coq_xI (Coq_xI (Coq_xI (Coq_xI (Coq_xI (Coq_xI (Coq_xI
    (Coq_xI (Coq_xI (Coq_xI (Coq_xO (Coq_xI (Coq_xO
    Coq_xH)))))))))))))))))))), (Npos (Coq_xI (Coq_xI (Coq_xI (Coq_xI (Coq_xI
    (Coq_xI (Coq_xI (Coq_xI (Coq_xI (Coq_xI (Coq_xI (Coq_xI (Coq_xI (Coq_xI
    (Coq_xI (Coq_xI (Coq_xO (Coq_xI (Coq_xO
    Coq_xH))))))))))))))))))))) :: (((Npos (Coq_xO (Coq_xI (Coq_xI (Coq_xI
    (Coq_xI (Coq_xI (Coq_xI (Coq_xI (Coq_xI (Coq_xI (Coq_xI (Coq_xI (Coq_xI
    (Coq_xI (Coq_xI (Coq_xI (Coq_xI (Coq_xI (Coq_xO
    Coq_xH)))))))))))))))))))), (Npos (Coq_xI (Coq_xI (Coq_xI (Coq_xI (Coq_xI
    (Coq_xI (Coq_xI (Coq_xI (Coq_xI (Coq_xI (Coq_xI (Coq_xI (Coq_xI (Coq_xI
    (Coq_xI (Coq_xI (Coq_xI (Coq_xI (Coq_xO
    Coq_xH))))))))))))))))))))) :: (((Npos (Coq_xO (Coq_xI (Coq_xI (Coq_xI
    (Coq_xI (Coq_xI (Coq_xI (Coq_xI (Coq_xI (Coq_xI (Coq_xI (Coq_xI (Coq_xI
    (Coq_xI (Coq_xI (Coq_xI (Coq_xO (Coq_xO (Coq_xI
    Coq_xH)))))))))))))))))))), (Npos (Coq_xI (Coq_xI (Coq_xI (Coq_xI (Coq_xI
    (Coq_xI (Coq_xI (Coq_xI (Coq_xI (Coq_xI (Coq_xI (Coq_xI (Coq_xI (Coq_xI
    (Coq_xI (Coq_xI (Coq_xO (Coq_xO (Coq_xI
    Coq_xH))))))))))))))))))))) :: (((Npos (Coq_xO (Coq_xI (Coq_xI (Coq_xI
    (Coq_xI (Coq_xI (Coq_xI (Coq_xI (Coq_xI (Coq_xI (Coq_xI (Coq_xI (Coq_xI
    (Coq_xI (Coq_xI (Coq_xI (Coq_xI (Coq_xO (Coq_xI
    Coq_xH)))))))))))))))))))), (Npos (Coq_xI (Coq_xI (Coq_xI (Coq_xI (Coq_xI
    (Coq_xI (Coq_xI (Coq_xI (Coq_xI (Coq_xI (Coq_xI (Coq_xI (Coq_xI (Coq_xI
    (Coq_xI (Coq_xI (Coq_xI (Coq_xO (Coq_xI
    Coq_xH))))))))))))))))))))) :: (((Npos (Coq_xO (Coq_xI (Coq_xI (Coq_xI
    (Coq_xI (Coq_xI (Coq_xI (Coq_xI (Coq_xI (Coq_xI (Coq_xI (Coq_xI (Coq_xI
    (Coq_xI (Coq_xI (Coq_xI (Coq_xO (Coq_xI (Coq_xI
    Coq_xH)))))))))))))))))))), (Npos (Coq_xI (Coq_xI (Coq_xI (Coq_xI (Coq_xI
    (Coq_xI (Coq_xI (Coq_xI (Coq_xI (Coq_xI (Coq_xI (Coq_xI (Coq_xI (Coq_xI
    (Coq_xI (Coq_xI (Coq_xO (Coq_xI (Coq_xI
    Coq_xH))))))))))))))))))))) :: (((Npos (Coq_xO (Coq_xI (Coq_xI (Coq_xI
    (Coq_xI (Coq_xI (Coq_xI (Coq_xI (Coq_xI (Coq_xI (Coq_xI (Coq_xI (Coq_xI
    (Coq_xI (Coq_xI (Coq_xI (Coq_xI (Coq_xI (Coq_xI
    Coq_xH)))))))))))))))))))), (Npos (Coq_xI (Coq_xI (Coq_xI (Coq_xI (Coq_xI
    (Coq_xI (Coq_xI (Coq_xI (Coq_xI (Coq_xI (Coq_xI (Coq_xI (Coq_xI (Coq_xI
    (Coq_xI (Coq_xI (Coq_xI (Coq_xI (Coq_xI
    Coq_xH))))))))))))))))))))) :: (((Npos (Coq_xO (Coq_xI (Coq_xI (Coq_xI
    (Coq_xI (Coq_xI (Coq_xI (Coq_xI (Coq_xI (Coq_xI (Coq_xI (Coq_xI (Coq_xI
    (Coq_xI (Coq_xI (Coq_xI (Coq_xO (Coq_xO (Coq_xO (Coq_xO
    Coq_xH))))))))))))))))))))), (Npos (Coq_xI (Coq_xI (Coq_xI (Coq_xI
    (Coq_xI (Coq_xI (Coq_xI (Coq_xI (Coq_xI (Coq_xI (Coq_xI (Coq_xI (Coq_xI
    (Coq_xI (Coq_xI (Coq_xI (Coq_xO (Coq_xO (Coq_xO (Coq_xO
    Coq_xH)))))))))))))))))))))) :: []))))))))))))))))))))))

(** val xml_prologue : coq_N list **)

let xml_prologue =
  (Npos (Coq_xO (Coq_xO (Coq_xI (Coq_xI (Coq_xI Coq_xH)))))) :: ((Npos
    (Coq_xI (Coq_xI (Coq_xI (Coq_xI (Coq_xI Coq_xH)))))) :: ((Npos (Coq_xO
    (Coq_xO (Coq_xO (Coq_xI (Coq_xI (Coq_xI Coq_xH))))))) :: ((Npos (Coq_xI
    (Coq_xO (Coq_xI (Coq_xI (Coq_xO (Coq_xI Coq_xH))))))) :: ((Npos (Coq_xO
    (Coq_xO (Coq_xI (Coq_xI (Coq_xO (Coq_xI Coq_xH))))))) :: ((Npos (Coq_xO
    (Coq_xO (Coq_xO (Coq_xO (Coq_xO Coq_xH)))))) :: ((Npos (Coq_xO (Coq_xI
    (Coq_xI (Coq_xO (Coq_xI (Coq_xI Coq_xH))))))) :: ((Npos (Coq_xI (Coq_xO
    (Coq_xI (Coq_xO (Coq_xO (Coq_xI Coq_xH))))))) :: ((Npos (Coq_xO (Coq_xI
    (Coq_xO (Coq_xO (Coq_xI (Coq_xI Coq_xH))))))) :: ((Npos (Coq_xI (Coq_xI
    (Coq_xO (Coq_xO (Coq_xI (Coq_xI Coq_xH))))))) :: ((Npos (Coq_xI (Coq_xO
    (Coq_xO (Coq_xI (Coq_xO (Coq_xI Coq_xH))))))) :: ((Npos (Coq_xI (Coq_xI
    (Coq_xI (Coq_xI (Coq_xO (Coq_xI Coq_xH))))))) :: ((Npos (Coq_xO (Coq_xI
    (Coq_xI (Coq_xI (Coq_xO (Coq_xI Coq_xH))))))) :: ((Npos (Coq_xI (Coq_xO
    (Coq_xI (Coq_xI (Coq_xI Coq_xH)))))) :: ((Npos (Coq_xI (Coq_xI (Coq_xI
    (Coq_xO (Coq_xO Coq_xH)))))) :: ((Npos (Coq_xI (Coq_xO (Coq_xO (Coq_xO
    (Coq_xI Coq_xH)))))) :: ((Npos (Coq_xO (Coq_xI (Coq_xI (Coq_xI (Coq_xO
    Coq_xH)))))) :: ((Npos (Coq_xO (Coq_xO (Coq_xO (Coq_xO (Coq_xI
    Coq_xH)))))) :: ((Npos (Coq_xI (Coq_xI (Coq_xI (Coq_xO (Coq_xO
    Coq_xH)))))) :: ((Npos (Coq_xO (Coq_xO (Coq_xO (Coq_xO (Coq_xO
    Coq_xH)))))) :: ((Npos (Coq_xI (Coq_xO (Coq_xI (Coq_xO (Coq_xO (Coq_xI
    Coq_xH))))))) :: ((Npos (Coq_xO (Coq_xI (Coq_xI (Coq_xI (Coq_xO (Coq_xI
    Coq_xH))))))) :: ((Npos (Coq_xI (Coq_xI (Coq_xO (Coq_xO (Coq_xO (Coq_xI
    Coq_xH))))))) :: ((Npos (Coq_xI (Coq_xI (Coq_xI (Coq_xI (Coq_xO (Coq_xI
    Coq_xH))))))) :: ((Npos (Coq_xO (Coq_xO (Coq_xI (Coq_xO (Coq_xO (Coq_xI
    Coq_xH))))))) :: ((Npos (Coq_xI (Coq_xO (Coq_xO (Coq_xI (Coq_xO (Coq_xI
    Coq_xH))))))) :: ((Npos (Coq_xO (Coq_xI (Coq_xI (Coq_xI (Coq_xO (Coq_xI
    Coq_xH))))))) :: ((Npos (Coq_xI (Coq_xI (Coq_xI (Coq_xO (Coq_xO (Coq_xI
    Coq_xH))))))) :: ((Npos (Coq_xI (Coq_xO (Coq_xI (Coq_xI (Coq_xI
    Coq_xH)))))) :: ((Npos (Coq_xI (Coq_xI (Coq_xI (Coq_xO (Coq_xO
    Coq_xH)))))) :: ((Npos (Coq_xI (Coq_xO (Coq_xI (Coq_xO (Coq_xI (Coq_xO
    Coq_xH))))))) :: ((Npos (Coq_xO (Coq_xO (Coq_xI (Coq_xO (Coq_xI (Coq_xO
    Coq_xH))))))) :: ((Npos (Coq_xO (Coq_xI (Coq_xI (Coq_xO (Coq_xO (Coq_xO
    Coq_xH))))))) :: ((Npos (Coq_xI (Coq_xO (Coq_xI (Coq_xI (Coq_xO
    Coq_xH)))))) :: ((Npos (Coq_xO (Coq_xO (Coq_xO (Coq_xI (Coq_xI
    Coq_xH)))))) :: ((Npos (Coq_xI (Coq_xI (Coq_xI (Coq_xO (Coq_xO
    Coq_xH)))))) :: ((Npos (Coq_xI (Coq_xI (Coq_xI (Coq_xI (Coq_xI
    Coq_xH)))))) :: ((Npos (Coq_xO (Coq_xI (Coq_xI (Coq_xI (Coq_xI
    Coq_xH)))))) :: ((Npos (Coq_xO (Coq_xI (Coq_xO
    Coq_xH)))) :: []))))))))))))))))))))))))))))))))))))))
