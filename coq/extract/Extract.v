(* Extraction of the executable model for the correspondence check.
   ExtrOcamlBasic only: bool, option, list, prod, unit, sumbool map to OCaml's;
   N, positive, nat, Z stay Coq's inductive numbers. No Extract Constant. *)
From Coq Require Extraction ExtrOcamlBasic.
From Odf Require Import model.Base model.Teletype.
Extraction Language OCaml.
Separate Extraction
  Teletype.encode Teletype.extract Teletype.add_text_checked.
