(* Extraction of the executable model for the correspondence check.
   ExtrOcamlBasic only: bool, option, list, prod, unit, sumbool map to OCaml's;
   N, positive, nat, Z stay Coq's inductive numbers. No Extract Constant. *)
From Coq Require Extraction ExtrOcamlBasic.
From Odf Require Import model.Base model.Teletype model.Inst model.XmlTree model.NsTable model.Dom model.Construct model.EasyList model.UserField model.Package model.ParseSites model.LoadStyles model.Grammar model.GrammarInst model.Load model.LoadInst model.Convert model.ConvInst model.Html model.DomCheck model.HtmlDoc model.FixPart model.PackageCheck.
Extraction Language OCaml.
Separate Extraction
  Teletype.encode Teletype.extract Teletype.add_text_checked Teletype.reparse
  Inst.i_text_toXml Inst.i_quoteattr Inst.i_cdata_toXml Inst.i_node_toXml Inst.i_canon
  Inst.i_write_open_tag Inst.i_xml_parse Inst.i_lex Inst.i_used_auto_styles Inst.i_contentxml Inst.i_stylesxml Inst.i_metaxml Inst.i_settingsxml Inst.i_flatxml XmlTree.write_close_tag
  NsTable.ns_step NsTable.get_nsprefix NsTable.get_knownns
  Dom.step Dom.heap_of Dom.get_elements_by_type Dom.get_style_by_name Construct.construct Construct.set_attribute EasyList.style_from_list EasyList.style_from_string EasyList.css_split UserField.update UserField.list_fields_and_values Package.save_m PackageCheck.pairs_distinct PackageCheck.shape_ok PackageCheck.core PackageCheck.extras_apart Package.load_m Package.add_object Package.classify ParseSites.load_reads LoadStyles.load_all LoadStyles.new_name GrammarInst.i_add_element GrammarInst.i_add_text GrammarInst.i_set_attribute GrammarInst.i_construct GrammarInst.selems LoadInst.i_load_doc ConvInst.i_convert ConvInst.i_valid Html.h_escape Html.h_quoteattr Html.h_opentag Html.h_closetag Html.h_emptytag
  DomCheck.lheap DomCheck.wf_ok DomCheck.idx_ok DomCheck.comp_ok DomCheck.op_okb DomCheck.keeps_topb
  HtmlDoc.h_render HtmlDoc.wellnested HtmlDoc.ev_ok
  FixPart.fix_part FixPart.root_start FixPart.root_begin FixPart.root_stop FixPart.is_odf_part.
