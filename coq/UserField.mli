open Ascii
open Base
open BinNat
open BinNums
open Datatypes
open List
open Nat
open String

val coq_A_VALUE : nat

val coq_A_DATE : nat

val coq_A_TIME : nat

val coq_A_BOOL : nat

val coq_A_STRING : nat

type decl = { d_name : str; d_type : str; d_vals : (nat * str) list;
              d_other : (nat * str) list }

val value_attr : str -> nat

val aget : nat -> (nat * str) list -> str option

val aset : nat -> str -> (nat * str) list -> (nat * str) list

val lower : cp -> cp

val conv_value : nat -> str -> str result

val dlookup : str -> (str * str) list -> str option

val update : (str * str) list -> decl list -> decl list result

val field_row : decl -> (str * str) * str option

val list_fields_and_values :
  str list option -> decl list -> ((str * str) * str option) list
