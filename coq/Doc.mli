open Ascii
open Base
open BinNat
open BinNums
open Datatypes
open List
open String
open XmlTree

type odfdoc = { d_mime : str; d_meta : node; d_scripts : node; d_ffd : 
                node; d_settings : node; d_styles : node; d_auto : node;
                d_master : node; d_body : node }

val kids_of : node -> node list

val atts_of : node -> (qname * str) list

val is_element : node -> bool

val py_space : cp -> bool

val py_split : str -> str -> str list

val mem_str : str -> str list -> bool

val add_name : str list -> str -> str list

val scan_one : qname list -> (qname * str) list -> str list -> str list

val parse_node : qname list -> node -> str list -> str list

val parse_kids : qname list -> node list -> str list -> str list

val parse_one : qname list -> node -> str list -> str list

val sSTYLENS : str

val style_name : node -> str option

val named_in : str list -> node -> bool

val round :
  qname list -> node list -> bool list -> str list -> (bool list * str
  list) * bool

val rounds :
  qname list -> nat -> node list -> bool list -> str list -> bool list * str
  list

val pick : 'a1 list -> bool list -> 'a1 list

val used_auto_styles : qname list -> node list -> node -> node list

val sMETANS : str

val sOFFICENS : str

val q_generator : qname

val is_generator : node -> bool

val replace_generator : str -> node -> node

val norm_gen : str -> odfdoc -> odfdoc

val q_office : string -> qname

val version_att : (qname * str) list

val has_kids : node -> bool

val opt_section : (coq_N * coq_N) list -> nsenv -> node -> str

val q_autostyles : qname

val contentxml :
  (coq_N * coq_N) list -> qname list -> str -> nsenv -> odfdoc -> str

val stylesxml :
  (coq_N * coq_N) list -> qname list -> str -> nsenv -> odfdoc -> str

val metaxml :
  (coq_N * coq_N) list -> str -> str -> nsenv -> odfdoc -> odfdoc * str

val settingsxml : (coq_N * coq_N) list -> str -> nsenv -> odfdoc -> str

val topnode : odfdoc -> node

val flatxml :
  (coq_N * coq_N) list -> str -> str -> nsenv -> odfdoc -> odfdoc * str
