open Ascii
open Base
open BinNat
open BinNums
open Datatypes
open List
open NsTable
open String
open XmlLex

type part =
| PStyles
| PContent
| PSettings
| PMeta

type payload =
| DBytes of str
| DPart of part * str
| DManifest

type entry = { e_name : str; e_stored : bool; e_extra : str; e_data : payload }

type pic = { pc_name : str; pc_data : str; pc_mt : str }

type odoc =
| ODoc of str * str * bool * pic list * odoc list

(** val o_mt : odoc -> str **)

let o_mt = function
| ODoc (m, _, _, _, _) -> m

(** val o_folder : odoc -> str **)

let o_folder = function
| ODoc (_, f, _, _, _) -> f

type topdoc = { t_root : odoc; t_thumb : (str * str) option;
                t_extras : ((str * str) * str option) list }

type manifest = (str * str) list

(** val sTEXTXML : str **)

let sTEXTXML =
  s2l (String ((Ascii (false, false, true, false, true, true, true, false)),
    (String ((Ascii (true, false, true, false, false, true, true, false)),
    (String ((Ascii (false, false, false, true, true, true, true, false)),
    (String ((Ascii (false, false, true, false, true, true, true, false)),
    (String ((Ascii (true, true, true, true, false, true, false, false)),
    (String ((Ascii (false, false, false, true, true, true, true, false)),
    (String ((Ascii (true, false, true, true, false, true, true, false)),
    (String ((Ascii (false, false, true, true, false, true, true, false)),
    EmptyString))))))))))))))))

(** val cSLASHc : cp **)

let cSLASHc =
  Npos (Coq_xI (Coq_xI (Coq_xI (Coq_xI (Coq_xO Coq_xH)))))

(** val objfolder : odoc -> str **)

let objfolder o =
  app (tl (o_folder o)) (cSLASHc :: [])

(** val xml_entry : str -> part -> str -> entry **)

let xml_entry name p folder =
  { e_name = name; e_stored = false; e_extra = []; e_data = (DPart (p,
    folder)) }

(** val save_xml : bool -> str -> odoc -> entry list * manifest **)

let rec save_xml top path = function
| ODoc (mt, folder, hs, _, kids) ->
  let m1 = ((if top then cSLASHc :: [] else path),
    mt) :: (((app path
               (s2l (String ((Ascii (true, true, false, false, true, true,
                 true, false)), (String ((Ascii (false, false, true, false,
                 true, true, true, false)), (String ((Ascii (true, false,
                 false, true, true, true, true, false)), (String ((Ascii
                 (false, false, true, true, false, true, true, false)),
                 (String ((Ascii (true, false, true, false, false, true,
                 true, false)), (String ((Ascii (true, true, false, false,
                 true, true, true, false)), (String ((Ascii (false, true,
                 true, true, false, true, false, false)), (String ((Ascii
                 (false, false, false, true, true, true, true, false)),
                 (String ((Ascii (true, false, true, true, false, true, true,
                 false)), (String ((Ascii (false, false, true, true, false,
                 true, true, false)), EmptyString)))))))))))))))))))))),
    sTEXTXML) :: (((app path
                     (s2l (String ((Ascii (true, true, false, false, false,
                       true, true, false)), (String ((Ascii (true, true,
                       true, true, false, true, true, false)), (String
                       ((Ascii (false, true, true, true, false, true, true,
                       false)), (String ((Ascii (false, false, true, false,
                       true, true, true, false)), (String ((Ascii (true,
                       false, true, false, false, true, true, false)),
                       (String ((Ascii (false, true, true, true, false, true,
                       true, false)), (String ((Ascii (false, false, true,
                       false, true, true, true, false)), (String ((Ascii
                       (false, true, true, true, false, true, false, false)),
                       (String ((Ascii (false, false, false, true, true,
                       true, true, false)), (String ((Ascii (true, false,
                       true, true, false, true, true, false)), (String
                       ((Ascii (false, false, true, true, false, true, true,
                       false)), EmptyString)))))))))))))))))))))))),
    sTEXTXML) :: []))
  in
  let e1 =
    (xml_entry
      (app path
        (s2l (String ((Ascii (true, true, false, false, true, true, true,
          false)), (String ((Ascii (false, false, true, false, true, true,
          true, false)), (String ((Ascii (true, false, false, true, true,
          true, true, false)), (String ((Ascii (false, false, true, true,
          false, true, true, false)), (String ((Ascii (true, false, true,
          false, false, true, true, false)), (String ((Ascii (true, true,
          false, false, true, true, true, false)), (String ((Ascii (false,
          true, true, true, false, true, false, false)), (String ((Ascii
          (false, false, false, true, true, true, true, false)), (String
          ((Ascii (true, false, true, true, false, true, true, false)),
          (String ((Ascii (false, false, true, true, false, true, true,
          false)), EmptyString)))))))))))))))))))))) PStyles folder) :: (
    (xml_entry
      (app path
        (s2l (String ((Ascii (true, true, false, false, false, true, true,
          false)), (String ((Ascii (true, true, true, true, false, true,
          true, false)), (String ((Ascii (false, true, true, true, false,
          true, true, false)), (String ((Ascii (false, false, true, false,
          true, true, true, false)), (String ((Ascii (true, false, true,
          false, false, true, true, false)), (String ((Ascii (false, true,
          true, true, false, true, true, false)), (String ((Ascii (false,
          false, true, false, true, true, true, false)), (String ((Ascii
          (false, true, true, true, false, true, false, false)), (String
          ((Ascii (false, false, false, true, true, true, true, false)),
          (String ((Ascii (true, false, true, true, false, true, true,
          false)), (String ((Ascii (false, false, true, true, false, true,
          true, false)), EmptyString)))))))))))))))))))))))) PContent folder) :: [])
  in
  let m2 =
    if hs
    then ((app path
            (s2l (String ((Ascii (true, true, false, false, true, true, true,
              false)), (String ((Ascii (true, false, true, false, false,
              true, true, false)), (String ((Ascii (false, false, true,
              false, true, true, true, false)), (String ((Ascii (false,
              false, true, false, true, true, true, false)), (String ((Ascii
              (true, false, false, true, false, true, true, false)), (String
              ((Ascii (false, true, true, true, false, true, true, false)),
              (String ((Ascii (true, true, true, false, false, true, true,
              false)), (String ((Ascii (true, true, false, false, true, true,
              true, false)), (String ((Ascii (false, true, true, true, false,
              true, false, false)), (String ((Ascii (false, false, false,
              true, true, true, true, false)), (String ((Ascii (true, false,
              true, true, false, true, true, false)), (String ((Ascii (false,
              false, true, true, false, true, true, false)),
              EmptyString)))))))))))))))))))))))))), sTEXTXML) :: []
    else []
  in
  let e2 =
    if hs
    then (xml_entry
           (app path
             (s2l (String ((Ascii (true, true, false, false, true, true,
               true, false)), (String ((Ascii (true, false, true, false,
               false, true, true, false)), (String ((Ascii (false, false,
               true, false, true, true, true, false)), (String ((Ascii
               (false, false, true, false, true, true, true, false)), (String
               ((Ascii (true, false, false, true, false, true, true, false)),
               (String ((Ascii (false, true, true, true, false, true, true,
               false)), (String ((Ascii (true, true, true, false, false,
               true, true, false)), (String ((Ascii (true, true, false,
               false, true, true, true, false)), (String ((Ascii (false,
               true, true, true, false, true, false, false)), (String ((Ascii
               (false, false, false, true, true, true, true, false)), (String
               ((Ascii (true, false, true, true, false, true, true, false)),
               (String ((Ascii (false, false, true, true, false, true, true,
               false)), EmptyString)))))))))))))))))))))))))) PSettings
           folder) :: []
    else []
  in
  let m3 =
    if top
    then ((s2l (String ((Ascii (true, false, true, true, false, true, true,
            false)), (String ((Ascii (true, false, true, false, false, true,
            true, false)), (String ((Ascii (false, false, true, false, true,
            true, true, false)), (String ((Ascii (true, false, false, false,
            false, true, true, false)), (String ((Ascii (false, true, true,
            true, false, true, false, false)), (String ((Ascii (false, false,
            false, true, true, true, true, false)), (String ((Ascii (true,
            false, true, true, false, true, true, false)), (String ((Ascii
            (false, false, true, true, false, true, true, false)),
            EmptyString))))))))))))))))), sTEXTXML) :: []
    else []
  in
  let e3 =
    if top
    then (xml_entry
           (s2l (String ((Ascii (true, false, true, true, false, true, true,
             false)), (String ((Ascii (true, false, true, false, false, true,
             true, false)), (String ((Ascii (false, false, true, false, true,
             true, true, false)), (String ((Ascii (true, false, false, false,
             false, true, true, false)), (String ((Ascii (false, true, true,
             true, false, true, false, false)), (String ((Ascii (false,
             false, false, true, true, true, true, false)), (String ((Ascii
             (true, false, true, true, false, true, true, false)), (String
             ((Ascii (false, false, true, true, false, true, true, false)),
             EmptyString))))))))))))))))) PMeta folder) :: []
    else []
  in
  let sub = map (fun k -> save_xml false (objfolder k) k) kids in
  ((app e1 (app e2 (app e3 (flat_map fst sub)))),
  (app m1 (app m2 (app m3 (flat_map snd sub)))))

(** val save_pics : str -> odoc -> entry list * manifest **)

let rec save_pics path = function
| ODoc (_, _, _, pics, kids) ->
  let e =
    map (fun p -> { e_name = (app path p.pc_name); e_stored = true; e_extra =
      []; e_data = (DBytes p.pc_data) }) pics
  in
  let m = map (fun p -> ((app path p.pc_name), p.pc_mt)) pics in
  let sub = map (fun k -> save_pics (objfolder k) k) kids in
  ((app e (flat_map fst sub)), (app m (flat_map snd sub)))

(** val sSIG : str **)

let sSIG =
  s2l (String ((Ascii (true, false, true, true, false, false, true, false)),
    (String ((Ascii (true, false, true, false, false, false, true, false)),
    (String ((Ascii (false, false, true, false, true, false, true, false)),
    (String ((Ascii (true, false, false, false, false, false, true, false)),
    (String ((Ascii (true, false, true, true, false, true, false, false)),
    (String ((Ascii (true, false, false, true, false, false, true, false)),
    (String ((Ascii (false, true, true, true, false, false, true, false)),
    (String ((Ascii (false, true, true, false, false, false, true, false)),
    (String ((Ascii (true, true, true, true, false, true, false, false)),
    (String ((Ascii (false, false, true, false, false, true, true, false)),
    (String ((Ascii (true, true, true, true, false, true, true, false)),
    (String ((Ascii (true, true, false, false, false, true, true, false)),
    (String ((Ascii (true, false, true, false, true, true, true, false)),
    (String ((Ascii (true, false, true, true, false, true, true, false)),
    (String ((Ascii (true, false, true, false, false, true, true, false)),
    (String ((Ascii (false, true, true, true, false, true, true, false)),
    (String ((Ascii (false, false, true, false, true, true, true, false)),
    (String ((Ascii (true, true, false, false, true, true, true, false)),
    (String ((Ascii (true, false, false, true, false, true, true, false)),
    (String ((Ascii (true, true, true, false, false, true, true, false)),
    (String ((Ascii (false, true, true, true, false, true, true, false)),
    (String ((Ascii (true, false, false, false, false, true, true, false)),
    (String ((Ascii (false, false, true, false, true, true, true, false)),
    (String ((Ascii (true, false, true, false, true, true, true, false)),
    (String ((Ascii (false, true, false, false, true, true, true, false)),
    (String ((Ascii (true, false, true, false, false, true, true, false)),
    (String ((Ascii (true, true, false, false, true, true, true, false)),
    (String ((Ascii (false, true, true, true, false, true, false, false)),
    (String ((Ascii (false, false, false, true, true, true, true, false)),
    (String ((Ascii (true, false, true, true, false, true, true, false)),
    (String ((Ascii (false, false, true, true, false, true, true, false)),
    EmptyString))))))))))))))))))))))))))))))))))))))))))))))))))))))))))))))

(** val sMANIFEST : str **)

let sMANIFEST =
  s2l (String ((Ascii (true, false, true, true, false, false, true, false)),
    (String ((Ascii (true, false, true, false, false, false, true, false)),
    (String ((Ascii (false, false, true, false, true, false, true, false)),
    (String ((Ascii (true, false, false, false, false, false, true, false)),
    (String ((Ascii (true, false, true, true, false, true, false, false)),
    (String ((Ascii (true, false, false, true, false, false, true, false)),
    (String ((Ascii (false, true, true, true, false, false, true, false)),
    (String ((Ascii (false, true, true, false, false, false, true, false)),
    (String ((Ascii (true, true, true, true, false, true, false, false)),
    (String ((Ascii (true, false, true, true, false, true, true, false)),
    (String ((Ascii (true, false, false, false, false, true, true, false)),
    (String ((Ascii (false, true, true, true, false, true, true, false)),
    (String ((Ascii (true, false, false, true, false, true, true, false)),
    (String ((Ascii (false, true, true, false, false, true, true, false)),
    (String ((Ascii (true, false, true, false, false, true, true, false)),
    (String ((Ascii (true, true, false, false, true, true, true, false)),
    (String ((Ascii (false, false, true, false, true, true, true, false)),
    (String ((Ascii (false, true, true, true, false, true, false, false)),
    (String ((Ascii (false, false, false, true, true, true, true, false)),
    (String ((Ascii (true, false, true, true, false, true, true, false)),
    (String ((Ascii (false, false, true, true, false, true, true, false)),
    EmptyString))))))))))))))))))))))))))))))))))))))))))

(** val sMIMETYPE : str **)

let sMIMETYPE =
  s2l (String ((Ascii (true, false, true, true, false, true, true, false)),
    (String ((Ascii (true, false, false, true, false, true, true, false)),
    (String ((Ascii (true, false, true, true, false, true, true, false)),
    (String ((Ascii (true, false, true, false, false, true, true, false)),
    (String ((Ascii (false, false, true, false, true, true, true, false)),
    (String ((Ascii (true, false, false, true, true, true, true, false)),
    (String ((Ascii (false, false, false, false, true, true, true, false)),
    (String ((Ascii (true, false, true, false, false, true, true, false)),
    EmptyString))))))))))))))))

(** val sTHUMBDIR : str **)

let sTHUMBDIR =
  s2l (String ((Ascii (false, false, true, false, true, false, true, false)),
    (String ((Ascii (false, false, false, true, false, true, true, false)),
    (String ((Ascii (true, false, true, false, true, true, true, false)),
    (String ((Ascii (true, false, true, true, false, true, true, false)),
    (String ((Ascii (false, true, false, false, false, true, true, false)),
    (String ((Ascii (false, true, true, true, false, true, true, false)),
    (String ((Ascii (true, false, false, false, false, true, true, false)),
    (String ((Ascii (true, false, false, true, false, true, true, false)),
    (String ((Ascii (false, false, true, true, false, true, true, false)),
    (String ((Ascii (true, true, false, false, true, true, true, false)),
    (String ((Ascii (true, true, true, true, false, true, false, false)),
    EmptyString))))))))))))))))))))))

(** val sTHUMB : str **)

let sTHUMB =
  s2l (String ((Ascii (false, false, true, false, true, false, true, false)),
    (String ((Ascii (false, false, false, true, false, true, true, false)),
    (String ((Ascii (true, false, true, false, true, true, true, false)),
    (String ((Ascii (true, false, true, true, false, true, true, false)),
    (String ((Ascii (false, true, false, false, false, true, true, false)),
    (String ((Ascii (false, true, true, true, false, true, true, false)),
    (String ((Ascii (true, false, false, false, false, true, true, false)),
    (String ((Ascii (true, false, false, true, false, true, true, false)),
    (String ((Ascii (false, false, true, true, false, true, true, false)),
    (String ((Ascii (true, true, false, false, true, true, true, false)),
    (String ((Ascii (true, true, true, true, false, true, false, false)),
    (String ((Ascii (false, false, true, false, true, true, true, false)),
    (String ((Ascii (false, false, false, true, false, true, true, false)),
    (String ((Ascii (true, false, true, false, true, true, true, false)),
    (String ((Ascii (true, false, true, true, false, true, true, false)),
    (String ((Ascii (false, true, false, false, false, true, true, false)),
    (String ((Ascii (false, true, true, true, false, true, true, false)),
    (String ((Ascii (true, false, false, false, false, true, true, false)),
    (String ((Ascii (true, false, false, true, false, true, true, false)),
    (String ((Ascii (false, false, true, true, false, true, true, false)),
    (String ((Ascii (false, true, true, true, false, true, false, false)),
    (String ((Ascii (false, false, false, false, true, true, true, false)),
    (String ((Ascii (false, true, true, true, false, true, true, false)),
    (String ((Ascii (true, true, true, false, false, true, true, false)),
    EmptyString))))))))))))))))))))))))))))))))))))))))))))))))

(** val save_m : topdoc -> entry list * manifest **)

let save_m t =
  let mime = { e_name = sMIMETYPE; e_stored = true; e_extra = []; e_data =
    (DBytes (o_mt t.t_root)) }
  in
  let (ex, mx) = save_xml true [] t.t_root in
  let (ep, mp) = save_pics [] t.t_root in
  let et =
    match t.t_thumb with
    | Some b ->
      { e_name = sTHUMB; e_stored = false; e_extra = []; e_data = (DBytes
        (fst b)) } :: []
    | None -> []
  in
  let mt =
    match t.t_thumb with
    | Some b -> (sTHUMBDIR, []) :: ((sTHUMB, (snd b)) :: [])
    | None -> []
  in
  let xs = filter (fun x -> negb (str_eqb (fst (fst x)) sSIG)) t.t_extras in
  let ee =
    flat_map (fun x ->
      match snd x with
      | Some b ->
        { e_name = (fst (fst x)); e_stored = false; e_extra = []; e_data =
          (DBytes b) } :: []
      | None -> []) xs
  in
  let me = map (fun x -> ((fst (fst x)), (snd (fst x)))) xs in
  ((mime :: (app ex
              (app ep
                (app et
                  (app ee ({ e_name = sMANIFEST; e_stored = false; e_extra =
                    []; e_data = DManifest } :: [])))))),
  (app mx (app mp (app mt me))))

(** val sOBJECT : str **)

let sOBJECT =
  s2l (String ((Ascii (true, true, true, true, false, true, false, false)),
    (String ((Ascii (true, true, true, true, false, false, true, false)),
    (String ((Ascii (false, true, false, false, false, true, true, false)),
    (String ((Ascii (false, true, false, true, false, true, true, false)),
    (String ((Ascii (true, false, true, false, false, true, true, false)),
    (String ((Ascii (true, true, false, false, false, true, true, false)),
    (String ((Ascii (false, false, true, false, true, true, true, false)),
    (String ((Ascii (false, false, false, false, false, true, false, false)),
    EmptyString))))))))))))))))

(** val add_object : str -> nat -> odoc -> str option -> odoc * str **)

let add_object parent_folder nkids_before child name =
  let f =
    match name with
    | Some n ->
      (match n with
       | [] -> cSLASHc :: n
       | c :: _ ->
         (match c with
          | N0 -> cSLASHc :: n
          | Npos p ->
            (match p with
             | Coq_xI p0 ->
               (match p0 with
                | Coq_xI p1 ->
                  (match p1 with
                   | Coq_xI p2 ->
                     (match p2 with
                      | Coq_xI p3 ->
                        (match p3 with
                         | Coq_xO p4 ->
                           (match p4 with
                            | Coq_xH -> n
                            | _ -> cSLASHc :: n)
                         | _ -> cSLASHc :: n)
                      | _ -> cSLASHc :: n)
                   | _ -> cSLASHc :: n)
                | _ -> cSLASHc :: n)
             | _ -> cSLASHc :: n)))
    | None ->
      app parent_folder (app sOBJECT (dec (N.of_nat (S nkids_before))))
  in
  ((let ODoc (mt, _, hs, p, k) = child in ODoc (mt, f, hs, p, k)), ((Npos
  (Coq_xO (Coq_xI (Coq_xI (Coq_xI (Coq_xO Coq_xH)))))) :: f))

(** val starts_with : str -> str -> bool **)

let starts_with p s =
  match strip_prefix p s with
  | Some _ -> true
  | None -> false

(** val ends_slash : str -> bool **)

let ends_slash s =
  match rev s with
  | [] -> false
  | c :: _ -> N.eqb c cSLASHc

(** val in_manifest : manifest -> str -> bool **)

let in_manifest m p =
  existsb (fun e -> str_eqb (fst e) p) m

(** val sOBJ : str **)

let sOBJ =
  s2l (String ((Ascii (true, true, true, true, false, false, true, false)),
    (String ((Ascii (false, true, false, false, false, true, true, false)),
    (String ((Ascii (false, true, false, true, false, true, true, false)),
    (String ((Ascii (true, false, true, false, false, true, true, false)),
    (String ((Ascii (true, true, false, false, false, true, true, false)),
    (String ((Ascii (false, false, true, false, true, true, true, false)),
    (String ((Ascii (false, false, false, false, false, true, false, false)),
    EmptyString))))))))))))))

(** val is_object_folder : manifest -> str -> bool **)

let is_object_folder m p =
  (&&) ((&&) (starts_with sOBJ p) (ends_slash p))
    ((||)
      (in_manifest m
        (app p
          (s2l (String ((Ascii (true, true, false, false, false, true, true,
            false)), (String ((Ascii (true, true, true, true, false, true,
            true, false)), (String ((Ascii (false, true, true, true, false,
            true, true, false)), (String ((Ascii (false, false, true, false,
            true, true, true, false)), (String ((Ascii (true, false, true,
            false, false, true, true, false)), (String ((Ascii (false, true,
            true, true, false, true, true, false)), (String ((Ascii (false,
            false, true, false, true, true, true, false)), (String ((Ascii
            (false, true, true, true, false, true, false, false)), (String
            ((Ascii (false, false, false, true, true, true, true, false)),
            (String ((Ascii (true, false, true, true, false, true, true,
            false)), (String ((Ascii (false, false, true, true, false, true,
            true, false)), EmptyString)))))))))))))))))))))))))
      (in_manifest m
        (app p
          (s2l (String ((Ascii (true, true, false, false, true, true, true,
            false)), (String ((Ascii (false, false, true, false, true, true,
            true, false)), (String ((Ascii (true, false, false, true, true,
            true, true, false)), (String ((Ascii (false, false, true, true,
            false, true, true, false)), (String ((Ascii (true, false, true,
            false, false, true, true, false)), (String ((Ascii (true, true,
            false, false, true, true, true, false)), (String ((Ascii (false,
            true, true, true, false, true, false, false)), (String ((Ascii
            (false, false, false, true, true, true, true, false)), (String
            ((Ascii (true, false, true, true, false, true, true, false)),
            (String ((Ascii (false, false, true, true, false, true, true,
            false)), EmptyString))))))))))))))))))))))))

(** val split_last_slash : str -> str -> str -> str * str **)

let rec split_last_slash s dir cur =
  match s with
  | [] -> (dir, cur)
  | c :: r ->
    if N.eqb c cSLASHc
    then split_last_slash r (app dir (app cur (c :: []))) []
    else split_last_slash r dir (app cur (c :: []))

(** val is_xml_part_name : str -> bool **)

let is_xml_part_name n =
  (||)
    ((||)
      ((||)
        (str_eqb n
          (s2l (String ((Ascii (true, true, false, false, true, true, true,
            false)), (String ((Ascii (true, false, true, false, false, true,
            true, false)), (String ((Ascii (false, false, true, false, true,
            true, true, false)), (String ((Ascii (false, false, true, false,
            true, true, true, false)), (String ((Ascii (true, false, false,
            true, false, true, true, false)), (String ((Ascii (false, true,
            true, true, false, true, true, false)), (String ((Ascii (true,
            true, true, false, false, true, true, false)), (String ((Ascii
            (true, true, false, false, true, true, true, false)), (String
            ((Ascii (false, true, true, true, false, true, false, false)),
            (String ((Ascii (false, false, false, true, true, true, true,
            false)), (String ((Ascii (true, false, true, true, false, true,
            true, false)), (String ((Ascii (false, false, true, true, false,
            true, true, false)), EmptyString))))))))))))))))))))))))))
        (str_eqb n
          (s2l (String ((Ascii (true, false, true, true, false, true, true,
            false)), (String ((Ascii (true, false, true, false, false, true,
            true, false)), (String ((Ascii (false, false, true, false, true,
            true, true, false)), (String ((Ascii (true, false, false, false,
            false, true, true, false)), (String ((Ascii (false, true, true,
            true, false, true, false, false)), (String ((Ascii (false, false,
            false, true, true, true, true, false)), (String ((Ascii (true,
            false, true, true, false, true, true, false)), (String ((Ascii
            (false, false, true, true, false, true, true, false)),
            EmptyString)))))))))))))))))))
      (str_eqb n
        (s2l (String ((Ascii (true, true, false, false, false, true, true,
          false)), (String ((Ascii (true, true, true, true, false, true,
          true, false)), (String ((Ascii (false, true, true, true, false,
          true, true, false)), (String ((Ascii (false, false, true, false,
          true, true, true, false)), (String ((Ascii (true, false, true,
          false, false, true, true, false)), (String ((Ascii (false, true,
          true, true, false, true, true, false)), (String ((Ascii (false,
          false, true, false, true, true, true, false)), (String ((Ascii
          (false, true, true, true, false, true, false, false)), (String
          ((Ascii (false, false, false, true, true, true, true, false)),
          (String ((Ascii (true, false, true, true, false, true, true,
          false)), (String ((Ascii (false, false, true, true, false, true,
          true, false)), EmptyString)))))))))))))))))))))))))
    (str_eqb n
      (s2l (String ((Ascii (true, true, false, false, true, true, true,
        false)), (String ((Ascii (false, false, true, false, true, true,
        true, false)), (String ((Ascii (true, false, false, true, true, true,
        true, false)), (String ((Ascii (false, false, true, true, false,
        true, true, false)), (String ((Ascii (true, false, true, false,
        false, true, true, false)), (String ((Ascii (true, true, false,
        false, true, true, true, false)), (String ((Ascii (false, true, true,
        true, false, true, false, false)), (String ((Ascii (false, false,
        false, true, true, true, true, false)), (String ((Ascii (true, false,
        true, true, false, true, true, false)), (String ((Ascii (false,
        false, true, true, false, true, true, false)),
        EmptyString))))))))))))))))))))))

(** val is_object_part : manifest -> str -> bool **)

let is_object_part m p =
  let (dir, base) = split_last_slash p [] [] in
  (&&)
    ((&&) ((&&) (starts_with sOBJ p) (negb (str_eqb dir [])))
      (is_xml_part_name base)) (in_manifest m dir)

type disposition =
| IsPicture
| IsThumbnail
| IsRootPart
| IsRootEntry
| IsObject
| IsObjectPart
| IsExtra

(** val classify : manifest -> str -> disposition **)

let classify m p =
  if (&&)
       (starts_with
         (s2l (String ((Ascii (false, false, false, false, true, false, true,
           false)), (String ((Ascii (true, false, false, true, false, true,
           true, false)), (String ((Ascii (true, true, false, false, false,
           true, true, false)), (String ((Ascii (false, false, true, false,
           true, true, true, false)), (String ((Ascii (true, false, true,
           false, true, true, true, false)), (String ((Ascii (false, true,
           false, false, true, true, true, false)), (String ((Ascii (true,
           false, true, false, false, true, true, false)), (String ((Ascii
           (true, true, false, false, true, true, true, false)), (String
           ((Ascii (true, true, true, true, false, true, false, false)),
           EmptyString))))))))))))))))))) p)
       (negb
         (str_eqb p
           (s2l (String ((Ascii (false, false, false, false, true, false,
             true, false)), (String ((Ascii (true, false, false, true, false,
             true, true, false)), (String ((Ascii (true, true, false, false,
             false, true, true, false)), (String ((Ascii (false, false, true,
             false, true, true, true, false)), (String ((Ascii (true, false,
             true, false, true, true, true, false)), (String ((Ascii (false,
             true, false, false, true, true, true, false)), (String ((Ascii
             (true, false, true, false, false, true, true, false)), (String
             ((Ascii (true, true, false, false, true, true, true, false)),
             (String ((Ascii (true, true, true, true, false, true, false,
             false)), EmptyString)))))))))))))))))))))
  then IsPicture
  else if str_eqb p sTHUMB
       then IsThumbnail
       else if is_xml_part_name p
            then IsRootPart
            else if (||) (str_eqb p (cSLASHc :: [])) (str_eqb p sTHUMBDIR)
                 then IsRootEntry
                 else if is_object_folder m p
                      then IsObject
                      else if is_object_part m p
                           then IsObjectPart
                           else IsExtra

(** val load_m :
    manifest -> (str -> str) -> str -> bool -> (str -> bool) -> topdoc **)

let load_m m member mimetype root_settings obj_settings =
  let pics =
    flat_map (fun e ->
      match classify m (fst e) with
      | IsPicture ->
        { pc_name = (fst e); pc_data = (member (fst e)); pc_mt =
          (snd e) } :: []
      | _ -> []) m
  in
  let objs =
    flat_map (fun e ->
      match classify m (fst e) with
      | IsPicture -> []
      | IsThumbnail -> []
      | IsRootPart -> []
      | IsRootEntry -> []
      | IsObject ->
        (ODoc ((snd e), (cSLASHc :: (removelast (fst e))),
          (obj_settings (fst e)), [], [])) :: []
      | _ -> []) m
  in
  let thumb =
    match find (fun e ->
            match classify m (fst e) with
            | IsThumbnail -> true
            | _ -> false) m with
    | Some e -> Some ((member sTHUMB), (snd e))
    | None -> None
  in
  let extras =
    flat_map (fun e ->
      match classify m (fst e) with
      | IsPicture -> []
      | IsThumbnail -> []
      | IsRootPart -> []
      | IsRootEntry -> []
      | IsObject -> []
      | IsObjectPart -> []
      | IsExtra ->
        (((fst e), (snd e)),
          (if ends_slash (fst e) then None else Some (member (fst e)))) :: [])
      m
  in
  { t_root = (ODoc (mimetype, [], root_settings, pics, objs)); t_thumb =
  thumb; t_extras = extras }
