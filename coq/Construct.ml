open Base
open Datatypes
open Dom
open Nat

(** val new_elem : heap -> nat -> nat option -> heap * id **)

let new_elem h q sn =
  ({ nodes =
    (upd h.nodes h.alloc { kind = (KElem q); parent = None; kids = []; prev =
      None; next = None; owner = false; sname = sn }); alloc = (S h.alloc);
    edict = h.edict; sdict = h.sdict }, h.alloc)

(** val first_raise : exn option list -> exn option **)

let rec first_raise = function
| [] -> None
| o :: r -> (match o with
             | Some e -> Some e
             | None -> first_raise r)

(** val construct :
    heap -> nat -> nat option -> exn option list -> bool -> bool ->
    (id * bool) option -> res **)

let construct h q sn steps check required_ok par =
  let (h1, n) = new_elem h q sn in
  (match first_raise steps with
   | Some e -> RRaise (e, h1)
   | None ->
     if (&&) check (negb required_ok)
     then RRaise (AttributeErr, h1)
     else (match par with
           | Some p0 -> let (p, allowed) = p0 in add_element h1 p n allowed
           | None -> ROk h1))

type attrs = (nat * str) list

(** val attr_set : nat -> str -> attrs -> attrs **)

let rec attr_set k v = function
| [] -> (k, v) :: []
| p :: r ->
  let (k', v') = p in
  if eqb k' k then (k, v) :: r else (k', v') :: (attr_set k v r)

(** val set_attr_ns : attrs -> nat -> str result -> attrs result **)

let set_attr_ns a k = function
| Ok v -> Ok (attr_set k v a)
| Raise e -> Raise e

(** val set_attribute : attrs -> nat option -> str result -> attrs result **)

let set_attribute a known converted =
  match known with
  | Some k -> set_attr_ns a k converted
  | None -> Raise AttributeErr
