open Base
open Datatypes
open List
open Nat

type id = nat

type nkind =
| KElem of nat
| KText
| KCData

type nrec = { kind : nkind; parent : id option; kids : id list;
              prev : id option; next : id option; owner : bool;
              sname : nat option }

val is_elem : nrec -> bool

val coq_Q_STYLE : nat

val coq_Q_STYLES : nat

val coq_Q_AUTOSTYLES : nat

type heap = { nodes : (id -> nrec); alloc : nat;
              edict : (nat * id list) list; sdict : (nat * id) list }

val upd : (id -> nrec) -> id -> nrec -> id -> nrec

val set_nodes : heap -> (id -> nrec) -> heap

val with_parent : nrec -> id option -> nrec

val with_kids : nrec -> id list -> nrec

val with_prev : nrec -> id option -> nrec

val with_next : nrec -> id option -> nrec

val with_owner : nrec -> bool -> nrec

type res =
| ROk of heap
| RRaise of exn * heap

val index_of : id -> id list -> nat option

val remove_first : id -> id list -> id list

val insert_at : nat -> id -> id list -> id list

val last_opt : id list -> id option

val in_subtree : nat -> (id -> nrec) -> id -> id -> bool

val subtree_ids : heap -> id -> id list

val set_owner : heap -> id -> bool -> heap

val dict_get : nat -> (nat * 'a1) list -> 'a1 option

val dict_set : nat -> 'a1 -> (nat * 'a1) list -> (nat * 'a1) list

val dict_del : nat -> (nat * 'a1) list -> (nat * 'a1) list

val style_parent_ok : heap -> id -> bool

val build_caches : heap -> id -> heap

val rebuild_caches : heap -> id -> heap

val remove_one : heap -> id -> heap

val remove_from_caches : heap -> id list -> heap

val is_childless : nrec -> bool

val unlink : (id -> nrec) -> id -> id -> id -> nrec

val remove_child : heap -> id -> id -> res

val bind_res : res -> (heap -> res) -> res

val adopt : heap -> id -> id -> heap

val link_last : (id -> nrec) -> id -> id -> id -> nrec

val append_child : heap -> id -> id -> res

val link_before : (id -> nrec) -> id -> id -> id -> nat -> id -> nrec

val insert_before : heap -> id -> id -> id option -> res

val add_element : heap -> id -> id -> bool -> res

val new_node : heap -> nkind -> heap * id

val add_text : heap -> id -> bool -> bool -> bool -> res

val get_elements_by_type : heap -> nat -> id list

val get_style_by_name : heap -> nat -> id option

type op =
| OAppend of id * id
| OInsert of id * id * id option
| ORemove of id * id
| OAddElement of id * id * bool
| OAddText of id * bool * bool * bool

val step : heap -> op -> res

val heap_of : res -> heap
