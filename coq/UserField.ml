open Ascii
open Base
open BinNat
open BinNums
open Datatypes
open List
open Nat
open String

(** val coq_A_VALUE : nat **)

let coq_A_VALUE =
  O

(** val coq_A_DATE : nat **)

let coq_A_DATE =
  S O

(** val coq_A_TIME : nat **)

let coq_A_TIME =
  S (S O)

(** val coq_A_BOOL : nat **)

let coq_A_BOOL =
  S (S (S O))

(** val coq_A_STRING : nat **)

let coq_A_STRING =
  S (S (S (S O)))

type decl = { d_name : str; d_type : str; d_vals : (nat * str) list;
              d_other : (nat * str) list }

(** val value_attr : str -> nat **)

let value_attr vt =
  if str_eqb vt
       (s2l (String ((Ascii (false, true, true, false, false, true, true,
         false)), (String ((Ascii (false, false, true, true, false, true,
         true, false)), (String ((Ascii (true, true, true, true, false, true,
         true, false)), (String ((Ascii (true, false, false, false, false,
         true, true, false)), (String ((Ascii (false, false, true, false,
         true, true, true, false)), EmptyString)))))))))))
  then coq_A_VALUE
  else if str_eqb vt
            (s2l (String ((Ascii (false, false, false, false, true, true,
              true, false)), (String ((Ascii (true, false, true, false,
              false, true, true, false)), (String ((Ascii (false, true,
              false, false, true, true, true, false)), (String ((Ascii (true,
              true, false, false, false, true, true, false)), (String ((Ascii
              (true, false, true, false, false, true, true, false)), (String
              ((Ascii (false, true, true, true, false, true, true, false)),
              (String ((Ascii (false, false, true, false, true, true, true,
              false)), (String ((Ascii (true, false, false, false, false,
              true, true, false)), (String ((Ascii (true, true, true, false,
              false, true, true, false)), (String ((Ascii (true, false, true,
              false, false, true, true, false)),
              EmptyString)))))))))))))))))))))
       then coq_A_VALUE
       else if str_eqb vt
                 (s2l (String ((Ascii (true, true, false, false, false, true,
                   true, false)), (String ((Ascii (true, false, true, false,
                   true, true, true, false)), (String ((Ascii (false, true,
                   false, false, true, true, true, false)), (String ((Ascii
                   (false, true, false, false, true, true, true, false)),
                   (String ((Ascii (true, false, true, false, false, true,
                   true, false)), (String ((Ascii (false, true, true, true,
                   false, true, true, false)), (String ((Ascii (true, true,
                   false, false, false, true, true, false)), (String ((Ascii
                   (true, false, false, true, true, true, true, false)),
                   EmptyString)))))))))))))))))
            then coq_A_VALUE
            else if str_eqb vt
                      (s2l (String ((Ascii (false, false, true, false, false,
                        true, true, false)), (String ((Ascii (true, false,
                        false, false, false, true, true, false)), (String
                        ((Ascii (false, false, true, false, true, true, true,
                        false)), (String ((Ascii (true, false, true, false,
                        false, true, true, false)), EmptyString)))))))))
                 then coq_A_DATE
                 else if str_eqb vt
                           (s2l (String ((Ascii (false, false, true, false,
                             true, true, true, false)), (String ((Ascii
                             (true, false, false, true, false, true, true,
                             false)), (String ((Ascii (true, false, true,
                             true, false, true, true, false)), (String
                             ((Ascii (true, false, true, false, false, true,
                             true, false)), EmptyString)))))))))
                      then coq_A_TIME
                      else if str_eqb vt
                                (s2l (String ((Ascii (false, true, false,
                                  false, false, true, true, false)), (String
                                  ((Ascii (true, true, true, true, false,
                                  true, true, false)), (String ((Ascii (true,
                                  true, true, true, false, true, true,
                                  false)), (String ((Ascii (false, false,
                                  true, true, false, true, true, false)),
                                  (String ((Ascii (true, false, true, false,
                                  false, true, true, false)), (String ((Ascii
                                  (true, false, false, false, false, true,
                                  true, false)), (String ((Ascii (false,
                                  true, true, true, false, true, true,
                                  false)), EmptyString)))))))))))))))
                           then coq_A_BOOL
                           else if str_eqb vt
                                     (s2l (String ((Ascii (true, true, false,
                                       false, true, true, true, false)),
                                       (String ((Ascii (false, false, true,
                                       false, true, true, true, false)),
                                       (String ((Ascii (false, true, false,
                                       false, true, true, true, false)),
                                       (String ((Ascii (true, false, false,
                                       true, false, true, true, false)),
                                       (String ((Ascii (false, true, true,
                                       true, false, true, true, false)),
                                       (String ((Ascii (true, true, true,
                                       false, false, true, true, false)),
                                       EmptyString)))))))))))))
                                then coq_A_STRING
                                else coq_A_VALUE

(** val aget : nat -> (nat * str) list -> str option **)

let rec aget k = function
| [] -> None
| p :: r -> let (k', v) = p in if eqb k' k then Some v else aget k r

(** val aset : nat -> str -> (nat * str) list -> (nat * str) list **)

let rec aset k v = function
| [] -> (k, v) :: []
| p :: r ->
  let (k', v') = p in
  if eqb k' k then (k, v) :: r else (k', v') :: (aset k v r)

(** val lower : cp -> cp **)

let lower c =
  if (&&)
       (N.leb (Npos (Coq_xI (Coq_xO (Coq_xO (Coq_xO (Coq_xO (Coq_xO
         Coq_xH))))))) c)
       (N.leb c (Npos (Coq_xO (Coq_xI (Coq_xO (Coq_xI (Coq_xI (Coq_xO
         Coq_xH))))))))
  then N.add c (Npos (Coq_xO (Coq_xO (Coq_xO (Coq_xO (Coq_xO Coq_xH))))))
  else c

(** val conv_value : nat -> str -> str result **)

let conv_value k v =
  if eqb k coq_A_BOOL
  then let l = map lower v in
       if (||)
            ((||)
              (str_eqb l
                (s2l (String ((Ascii (false, false, false, false, true, true,
                  false, false)), EmptyString))))
              (str_eqb l
                (s2l (String ((Ascii (false, true, true, false, false, true,
                  true, false)), (String ((Ascii (true, false, false, false,
                  false, true, true, false)), (String ((Ascii (false, false,
                  true, true, false, true, true, false)), (String ((Ascii
                  (true, true, false, false, true, true, true, false)),
                  (String ((Ascii (true, false, true, false, false, true,
                  true, false)), EmptyString)))))))))))))
            (str_eqb l
              (s2l (String ((Ascii (false, true, true, true, false, true,
                true, false)), (String ((Ascii (true, true, true, true,
                false, true, true, false)), EmptyString))))))
       then Ok
              (s2l (String ((Ascii (false, true, true, false, false, true,
                true, false)), (String ((Ascii (true, false, false, false,
                false, true, true, false)), (String ((Ascii (false, false,
                true, true, false, true, true, false)), (String ((Ascii
                (true, true, false, false, true, true, true, false)), (String
                ((Ascii (true, false, true, false, false, true, true,
                false)), EmptyString)))))))))))
       else if (||)
                 ((||)
                   (str_eqb l
                     (s2l (String ((Ascii (true, false, false, false, true,
                       true, false, false)), EmptyString))))
                   (str_eqb l
                     (s2l (String ((Ascii (false, false, true, false, true,
                       true, true, false)), (String ((Ascii (false, true,
                       false, false, true, true, true, false)), (String
                       ((Ascii (true, false, true, false, true, true, true,
                       false)), (String ((Ascii (true, false, true, false,
                       false, true, true, false)), EmptyString)))))))))))
                 (str_eqb l
                   (s2l (String ((Ascii (true, false, false, true, true,
                     true, true, false)), (String ((Ascii (true, false, true,
                     false, false, true, true, false)), (String ((Ascii
                     (true, true, false, false, true, true, true, false)),
                     EmptyString))))))))
            then Ok
                   (s2l (String ((Ascii (false, false, true, false, true,
                     true, true, false)), (String ((Ascii (false, true,
                     false, false, true, true, true, false)), (String ((Ascii
                     (true, false, true, false, true, true, true, false)),
                     (String ((Ascii (true, false, true, false, false, true,
                     true, false)), EmptyString)))))))))
            else Raise ValueErr
  else Ok v

(** val dlookup : str -> (str * str) list -> str option **)

let rec dlookup k = function
| [] -> None
| p :: r -> let (k', v) = p in if str_eqb k' k then Some v else dlookup k r

(** val update : (str * str) list -> decl list -> decl list result **)

let rec update data = function
| [] -> Ok []
| f :: r ->
  (match dlookup f.d_name data with
   | Some v ->
     let k = value_attr f.d_type in
     (match conv_value k v with
      | Ok v' ->
        (match update data r with
         | Ok r' ->
           Ok ({ d_name = f.d_name; d_type = f.d_type; d_vals =
             (aset k v' f.d_vals); d_other = f.d_other } :: r')
         | Raise e -> Raise e)
      | Raise e -> Raise e)
   | None ->
     (match update data r with
      | Ok r' -> Ok (f :: r')
      | Raise e -> Raise e))

(** val field_row : decl -> (str * str) * str option **)

let field_row f =
  ((f.d_name, f.d_type), (aget (value_attr f.d_type) f.d_vals))

(** val list_fields_and_values :
    str list option -> decl list -> ((str * str) * str option) list **)

let list_fields_and_values names ds =
  map field_row
    (filter (fun f ->
      match names with
      | Some l -> existsb (str_eqb f.d_name) l
      | None -> true) ds)
