open Base
open BinNat
open BinNums
open List

val xml10_char : cp -> bool

val in_ranges : (coq_N * coq_N) list -> cp -> bool

val is_alpha : cp -> bool

val is_digit : cp -> bool

val nc_start : cp -> bool

val nc_char : cp -> bool

val name_start : cp -> bool

val name_char : cp -> bool

val is_ws : cp -> bool

val is_ncname : str -> bool
