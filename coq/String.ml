open Ascii

type string =
| EmptyString
| String of ascii * string

(** val list_ascii_of_string : string -> ascii list **)

let rec list_ascii_of_string = function
| EmptyString -> []
| String (ch, s0) -> ch :: (list_ascii_of_string s0)
