open Ascii
open BinNat
open BinNums
open List
open String

type cp = coq_N

type str = cp list

(** val s2l : string -> str **)

let s2l s =
  map coq_N_of_ascii (list_ascii_of_string s)

(** val cTAB : cp **)

let cTAB =
  Npos (Coq_xI (Coq_xO (Coq_xO Coq_xH)))

(** val cLF : cp **)

let cLF =
  Npos (Coq_xO (Coq_xI (Coq_xO Coq_xH)))

(** val cCR : cp **)

let cCR =
  Npos (Coq_xI (Coq_xO (Coq_xI Coq_xH)))

(** val cSP : cp **)

let cSP =
  Npos (Coq_xO (Coq_xO (Coq_xO (Coq_xO (Coq_xO Coq_xH)))))

(** val cQUOT : cp **)

let cQUOT =
  Npos (Coq_xO (Coq_xI (Coq_xO (Coq_xO (Coq_xO Coq_xH)))))

(** val cAMP : cp **)

let cAMP =
  Npos (Coq_xO (Coq_xI (Coq_xI (Coq_xO (Coq_xO Coq_xH)))))

(** val cAPOS : cp **)

let cAPOS =
  Npos (Coq_xI (Coq_xI (Coq_xI (Coq_xO (Coq_xO Coq_xH)))))

(** val cLT : cp **)

let cLT =
  Npos (Coq_xO (Coq_xO (Coq_xI (Coq_xI (Coq_xI Coq_xH)))))

(** val cEQ : cp **)

let cEQ =
  Npos (Coq_xI (Coq_xO (Coq_xI (Coq_xI (Coq_xI Coq_xH)))))

(** val cGT : cp **)

let cGT =
  Npos (Coq_xO (Coq_xI (Coq_xI (Coq_xI (Coq_xI Coq_xH)))))

(** val cRSQB : cp **)

let cRSQB =
  Npos (Coq_xI (Coq_xO (Coq_xI (Coq_xI (Coq_xI (Coq_xO Coq_xH))))))

(** val cFFFD : cp **)

let cFFFD =
  Npos (Coq_xI (Coq_xO (Coq_xI (Coq_xI (Coq_xI (Coq_xI (Coq_xI (Coq_xI
    (Coq_xI (Coq_xI (Coq_xI (Coq_xI (Coq_xI (Coq_xI (Coq_xI
    Coq_xH)))))))))))))))

(** val str_eqb : str -> str -> bool **)

let rec str_eqb a b =
  match a with
  | [] -> (match b with
           | [] -> true
           | _ :: _ -> false)
  | x :: a' ->
    (match b with
     | [] -> false
     | y :: b' -> (&&) (N.eqb x y) (str_eqb a' b'))

(** val mem_cp : cp -> str -> bool **)

let rec mem_cp c = function
| [] -> false
| x :: r -> (||) (N.eqb x c) (mem_cp c r)

type exn =
| IllegalChild
| IllegalText
| AttributeErr
| ValueErr
| NotFoundErr
| HierarchyErr
| AssertionErr
| KeyErr
| IndexErr
| TypeErr

type 'a result =
| Ok of 'a
| Raise of exn
