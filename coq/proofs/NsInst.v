(* NsInst.v — the namespace-table invariant for the table the working tree starts with. *)
From Odf Require Import model.Base model.Chars model.XmlPrint model.XmlLex model.XmlTree model.NsTable model.Inst
  gen.GenChars gen.GenNs
  proofs.XmlPrintProofs proofs.XmlTokProofs proofs.XmlResolveProofs proofs.XmlRoundTrip proofs.XmlInst proofs.NsTableProofs.

Lemma nsdict_init_ok : init_ok F nsdict_init = true.
Proof. vm_compute. reflexivity. Qed.

Definition ns0 : nsstate := ns_init nsdict_init.
Definition reach (ops : list nsop) : nsstate := fold_left ns_step ops ns0.

Theorem reachable_env_ok ops : Forall (op_ok F) ops ->
  env_ok F (nsp (reach ops)) = true /\ env_ok2 (nsp (reach ops)) = true.
Proof.
  intros H. apply (Inv_env_ok F). apply (Inv_reachable F nsdict_init nsdict_init_ok ops H).
Qed.

Theorem reachable_no_empty ops p : Forall (op_ok F) ops -> lookup_str [] (nsp (reach ops)) <> Some p.
Proof.
  intros H E. pose proof (Inv_reachable F nsdict_init nsdict_init_ok ops H) as I.
  apply lookup_some_in in E. pose proof (i_sub F _ I _ _ E) as E2. apply lookup_some_in in E2.
  destruct (i_shape F _ I _ _ E2) as (A & _). vm_compute in A. discriminate.
Qed.

Theorem reachable_roundtrip ops q atts kids : Forall (op_ok F) ops ->
  tree_ok (nsp (reach ops)) (Elem q atts kids) = true -> atts_distinct (Elem q atts kids) = true ->
  xml_parse (xml_prologue ++ node_toXml F (nsp (reach ops)) true (Elem q atts kids)) = Some (canon F (Elem q atts kids)).
Proof.
  intros H Ht Hd. destruct (reachable_env_ok ops H) as [E1 E2].
  apply roundtrip_doc. unfold doc_ok. now rewrite E1, E2, Ht, Hd.
Qed.

Theorem save_prefix_unknown s p rest : no_colon p = true -> get_knownns (nd s) p = None ->
  save_prefix s (p ++ cCOLON :: rest) = s.
Proof. intros Hp Hk. unfold save_prefix. rewrite split_colon_app by exact Hp. cbn [app]. now rewrite Hk. Qed.

(* non-vacuity: a history with an unknown namespace, an unqualified name and a formula prefix *)
Example reach_example :
  let s := reach [OpPrefix (s2l "urn:new"); OpPrefix []; OpSavePrefix (s2l "of:=A1"); OpPrefix (s2l "urn:new")] in
  nsp s = [(s2l "urn:new", s2l "ns42"); (s2l "urn:oasis:names:tc:opendocument:xmlns:of:1.2", s2l "of")].
Proof. vm_compute. reflexivity. Qed.
