(* XmlPrintProofs.v — the str.replace chains of the printer are pointwise maps. *)
From Coq Require Import Lia.
From Odf Require Import model.Base model.Chars model.XmlPrint.

Lemma flat_map_flat_map {A B C} (f : A -> list B) (g : B -> list C) (l : list A) :
  flat_map g (flat_map f l) = flat_map (fun x => flat_map g (f x)) l.
Proof.
  induction l as [|x l IH]; cbn; [reflexivity|]. now rewrite flat_map_app, IH.
Qed.

Lemma replace1_flat_map {A} c r (f : A -> str) (l : list A) :
  replace1 c r (flat_map f l) = flat_map (fun x => replace1 c r (f x)) l.
Proof. unfold replace1. apply flat_map_flat_map. Qed.

Lemma replace1_as_flat_map c r s : replace1 c r s = flat_map (fun x => replace1 c r [x]) s.
Proof.
  unfold replace1. apply flat_map_ext. intros x. cbn. now rewrite app_nil_r.
Qed.

Lemma replace1_app c r a b : replace1 c r (a ++ b) = replace1 c r a ++ replace1 c r b.
Proof. unfold replace1. apply flat_map_app. Qed.

(* a replacement whose key does not occur is the identity *)
Lemma replace1_absent c r s : mem_cp c s = false -> replace1 c r s = s.
Proof.
  unfold replace1. induction s as [|x s IH]; intros H; [reflexivity|].
  cbn [mem_cp] in H. apply orb_false_iff in H as [H1 H2].
  cbn [flat_map]. rewrite H1. cbn [app]. now rewrite IH.
Qed.

(* ---------------- text ---------------- *)
Definition esc_text (x : cp) : str :=
  if x =? cAMP then sAMP else if x =? cLT then sLT else if x =? cGT then sGT
  else if x =? cCR then sREF13 else [x].

Lemma esc_text_chain x :
  replace1 cCR sREF13 (replace1 cGT sGT (replace1 cLT sLT (replace1 cAMP sAMP [x]))) = esc_text x.
Proof.
  unfold esc_text.
  destruct (x =? cAMP) eqn:E1; [apply N.eqb_eq in E1; subst; vm_compute; reflexivity|].
  destruct (x =? cLT) eqn:E2; [apply N.eqb_eq in E2; subst; vm_compute; reflexivity|].
  destruct (x =? cGT) eqn:E3; [apply N.eqb_eq in E3; subst; vm_compute; reflexivity|].
  destruct (x =? cCR) eqn:E4; [apply N.eqb_eq in E4; subst; vm_compute; reflexivity|].
  unfold replace1. cbn [flat_map app]. rewrite E1. cbn [flat_map app]. rewrite E2.
  cbn [flat_map app]. rewrite E3. cbn [flat_map app]. rewrite E4. reflexivity.
Qed.

Theorem text_toXml_pointwise filtered s :
  text_toXml filtered s = flat_map esc_text (handle_unrepresentable filtered s).
Proof.
  unfold text_toXml, sanitize, escape, text_ents. cbn [fold_left fst snd].
  generalize (handle_unrepresentable filtered s) as d. intros d.
  rewrite (replace1_as_flat_map cAMP sAMP d).
  rewrite !replace1_flat_map. apply flat_map_ext. intros x. apply esc_text_chain.
Qed.

(* ---------------- attribute values ---------------- *)
Definition esc_attr (x : cp) : str :=
  if x =? cAMP then sAMP else if x =? cLT then sLT else if x =? cGT then sGT
  else if x =? cLF then sREF10 else if x =? cCR then sREF13 else if x =? cTAB then sREF9 else [x].

Lemma esc_attr_chain x :
  replace1 cTAB sREF9 (replace1 cCR sREF13 (replace1 cLF sREF10
    (replace1 cGT sGT (replace1 cLT sLT (replace1 cAMP sAMP [x]))))) = esc_attr x.
Proof.
  unfold esc_attr.
  destruct (x =? cAMP) eqn:E1; [apply N.eqb_eq in E1; subst; vm_compute; reflexivity|].
  destruct (x =? cLT) eqn:E2; [apply N.eqb_eq in E2; subst; vm_compute; reflexivity|].
  destruct (x =? cGT) eqn:E3; [apply N.eqb_eq in E3; subst; vm_compute; reflexivity|].
  destruct (x =? cLF) eqn:E4; [apply N.eqb_eq in E4; subst; vm_compute; reflexivity|].
  destruct (x =? cCR) eqn:E5; [apply N.eqb_eq in E5; subst; vm_compute; reflexivity|].
  destruct (x =? cTAB) eqn:E6; [apply N.eqb_eq in E6; subst; vm_compute; reflexivity|].
  unfold replace1. cbn [flat_map app]. rewrite E1. cbn [flat_map app]. rewrite E2.
  cbn [flat_map app]. rewrite E3. cbn [flat_map app]. rewrite E4.
  cbn [flat_map app]. rewrite E5. cbn [flat_map app]. rewrite E6. reflexivity.
Qed.

Theorem sanitize_attr_pointwise filtered s :
  sanitize filtered attr_ents s = flat_map esc_attr (handle_unrepresentable filtered s).
Proof.
  unfold sanitize, escape, attr_ents. cbn [fold_left fst snd].
  generalize (handle_unrepresentable filtered s) as d. intros d.
  rewrite (replace1_as_flat_map cAMP sAMP d).
  rewrite !replace1_flat_map. apply flat_map_ext. intros x. apply esc_attr_chain.
Qed.

(* namespace names and attribute names: `_sanitize(x)` with an empty dictionary *)
Definition esc_plain (x : cp) : str :=
  if x =? cAMP then sAMP else if x =? cLT then sLT else if x =? cGT then sGT else [x].

Lemma esc_plain_chain x :
  replace1 cGT sGT (replace1 cLT sLT (replace1 cAMP sAMP [x])) = esc_plain x.
Proof.
  unfold esc_plain.
  destruct (x =? cAMP) eqn:E1; [apply N.eqb_eq in E1; subst; vm_compute; reflexivity|].
  destruct (x =? cLT) eqn:E2; [apply N.eqb_eq in E2; subst; vm_compute; reflexivity|].
  destruct (x =? cGT) eqn:E3; [apply N.eqb_eq in E3; subst; vm_compute; reflexivity|].
  unfold replace1. cbn [flat_map app]. rewrite E1. cbn [flat_map app]. rewrite E2.
  cbn [flat_map app]. rewrite E3. reflexivity.
Qed.

Theorem sanitize_plain_pointwise filtered s :
  sanitize filtered [] s = flat_map esc_plain (handle_unrepresentable filtered s).
Proof.
  unfold sanitize, escape. cbn [fold_left].
  generalize (handle_unrepresentable filtered s) as d. intros d.
  rewrite (replace1_as_flat_map cAMP sAMP d).
  rewrite !replace1_flat_map. apply flat_map_ext. intros x. apply esc_plain_chain.
Qed.

(* ---------------- the filter ---------------- *)
Lemma in_ranges_inside b x c :
  range_inside b x = true -> (fst x <=? c) && (c <=? snd x) = true -> in_ranges b c = true.
Proof.
  unfold range_inside. intros H Hc. apply existsb_exists in H as [y [Hy Hin]].
  induction b as [|[lo hi] b IH]; [contradiction|].
  cbn [in_ranges]. destruct Hy as [<-|Hy].
  - cbn [fst snd] in Hin. apply andb_true_iff in Hin as [H1 H2]. apply andb_true_iff in Hc as [H3 H4].
    apply N.leb_le in H1, H2, H3, H4. apply orb_true_iff. left.
    apply andb_true_iff. split; apply N.leb_le; lia.
  - apply orb_true_iff. right. now apply IH.
Qed.

Lemma ranges_subset_sound a b :
  ranges_subset a b = true -> forall c, in_ranges a c = true -> in_ranges b c = true.
Proof.
  unfold ranges_subset. intros H c. induction a as [|[lo hi] a IH]; [discriminate|].
  cbn [forallb] in H. apply andb_true_iff in H as [H1 H2].
  cbn [in_ranges]. intros Hc. apply orb_true_iff in Hc as [Hc|Hc].
  - eapply in_ranges_inside; [exact H1|exact Hc].
  - now apply IH.
Qed.

(* outside Char and inside the code space = inside the five illegal intervals *)
Lemma xml10_illegal_complete c :
  c <= 1114111 -> xml10_char c = false -> in_ranges xml10_illegal c = true.
Proof.
  intros Hmax H. unfold xml10_char in H. unfold xml10_illegal, in_ranges.
  repeat (apply orb_false_iff in H as [H ?]).
  repeat match goal with
  | H : (_ =? _) = false |- _ => apply N.eqb_neq in H
  | H : (_ && _) = false |- _ => apply andb_false_iff in H
  end.
  repeat match goal with H : _ \/ _ |- _ => destruct H end;
  repeat match goal with H : (_ <=? _) = false |- _ => apply N.leb_gt in H end;
  repeat rewrite orb_true_iff; repeat rewrite andb_true_iff; repeat rewrite N.leb_le; lia.
Qed.

Definition filter_covers (filtered : list (N * N)) : Prop :=
  forall c, c <= 1114111 -> xml10_char c = false -> in_ranges filtered c = true.

Lemma filter_covers_of_subset filtered :
  ranges_subset xml10_illegal filtered = true -> filter_covers filtered.
Proof.
  intros H c Hm Hc. eapply ranges_subset_sound; [exact H|]. now apply xml10_illegal_complete.
Qed.

Definition in_codespace (s : str) : Prop := Forall (fun c => c <= 1114111) s.

Lemma filter_char_ok filtered c :
  filter_covers filtered -> c <= 1114111 -> xml10_char (filter_char filtered c) = true.
Proof.
  intros H Hm. unfold filter_char. destruct (in_ranges filtered c) eqn:E; [reflexivity|].
  destruct (xml10_char c) eqn:X; [reflexivity|]. rewrite (H c Hm X) in E. discriminate.
Qed.

Theorem handle_unrepresentable_chars filtered s :
  filter_covers filtered -> in_codespace s ->
  Forall (fun c => xml10_char c = true) (handle_unrepresentable filtered s).
Proof.
  intros H Hs. unfold handle_unrepresentable. induction Hs as [|c s Hc Hs IH]; cbn; constructor.
  - now apply filter_char_ok.
  - exact IH.
Qed.
