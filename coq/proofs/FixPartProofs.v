(* FixPartProofs.v — C13/C05: the patch load() applies to every XML member touches the start tag of the root element only:
   not the document type declaration in front of it, not the content behind it. *)
From Coq Require Import ZArith Lia.
From Odf Require Import model.Base model.Chars model.XmlLex model.FixPart.

Lemma find_ws_then_ge needle : forall s i p, find_ws_then needle s i = Some p -> (i <= p < i + List.length s)%nat.
Proof.
  induction s as [|c r IH]; intros i p H; cbn [find_ws_then] in H; [discriminate|]. cbn [List.length].
  destruct (is_xws c && starts needle r); [injection H as <-; lia|]. apply IH in H. lia.
Qed.

Lemma root_start_le s : (root_start s <= List.length s)%nat.
Proof. unfold root_start. apply Nat.le_min_r. Qed.

Lemma firstn_insert (s x : str) start pos : (start <= pos)%nat -> (pos <= List.length s)%nat -> firstn start (insert_at s pos x) = firstn start s.
Proof.
  intros H1 H2. unfold insert_at. rewrite firstn_app. rewrite firstn_length, Nat.min_l by exact H2.
  replace (start - pos)%nat with 0%nat by lia. cbn [firstn]. rewrite app_nil_r, firstn_firstn. f_equal. lia.
Qed.
Lemma insert_length (s x : str) pos : List.length (insert_at s pos x) = (List.length s + List.length x)%nat.
Proof. unfold insert_at. rewrite !app_length. rewrite <- (firstn_skipn pos s) at 3. rewrite app_length. lia. Qed.

Lemma strip_prefix_len : forall p s r, strip_prefix p s = Some r -> (List.length p <= List.length s)%nat.
Proof.
  induction p as [|a p IH]; intros s r H; cbn [List.length]; [lia|].
  destruct s as [|b s]; cbn [strip_prefix] in H; [discriminate|]. destruct (a =? b); [|discriminate].
  apply IH in H. cbn [List.length]. lia.
Qed.
Lemma find_from_bound needle : forall s i j, find_from needle s i = Some j -> (i <= j /\ j + List.length needle <= i + List.length s)%nat.
Proof.
  induction s as [|c r IH]; intros i j H; cbn [find_from] in H.
  - destruct needle; [injection H as <-; cbn [List.length]; lia|discriminate].
  - destruct (strip_prefix needle (c :: r)) eqn:E.
    + injection H as <-. apply strip_prefix_len in E. lia.
    + apply IH in H. cbn [List.length]. lia.
Qed.
Lemma starts_len p s : starts p s = true -> (List.length p <= List.length s)%nat.
Proof. unfold starts. destruct (strip_prefix p s) eqn:E; [intros _; eapply strip_prefix_len; exact E|discriminate]. Qed.

(* the root element begins behind the document type declaration *)
Lemma misc_ge : forall fuel s i total, (i + List.length s = total)%nat -> (i <= misc fuel s i total)%nat.
Proof.
  induction fuel as [|f IH]; intros s i total H; cbn [misc]; [lia|].
  destruct s as [|c r]; [lia|].
  destruct (starts sPI (c :: r)).
  { destruct (find_from sPIEND (c :: r) 0) as [j|] eqn:E; [|lia]. apply find_from_bound in E. change (List.length sPIEND) with 2%nat in E.
    etransitivity; [|apply IH]; [lia|]. rewrite skipn_length. lia. }
  destruct (starts sCOM (c :: r)) eqn:Ec.
  { apply starts_len in Ec. change (List.length sCOM) with 4%nat in Ec.
    destruct (find_from sCOMEND (skipn 4 (c :: r)) 4) as [j|] eqn:E; [|lia]. apply find_from_bound in E. change (List.length sCOMEND) with 3%nat in E.
    rewrite skipn_length in E. etransitivity; [|apply IH]; [lia|]. rewrite skipn_length. lia. }
  destruct (is_prolog_ws c); [|lia]. etransitivity; [|apply IH]; [lia|]. cbn [List.length] in H. lia.
Qed.
Lemma root_begin_ge s : (root_start s <= root_begin s)%nat.
Proof.
  unfold root_begin. pose proof (root_start_le s) as Hl. apply Nat.min_glb; [|exact Hl].
  apply misc_ge. rewrite skipn_length. lia.
Qed.
Lemma root_begin_le s : (root_begin s <= List.length s)%nat.
Proof. unfold root_begin. apply Nat.le_min_r. Qed.
Lemma tag_end_bounds : forall s i q, (i <= tag_end s i q <= i + List.length s)%nat.
Proof.
  induction s as [|c r IH]; intros i q; cbn [tag_end List.length]; [lia|].
  destruct q as [q|].
  - specialize (IH (S i) (if c =? q then None else Some q)). lia.
  - destruct ((c =? 34) || (c =? 39)); [specialize (IH (S i) (Some c)); lia|].
    destruct (c =? 62); [lia|]. specialize (IH (S i) None). lia.
Qed.
Lemma root_stop_bounds s : (root_begin s <= root_stop s <= List.length s)%nat.
Proof.
  unfold root_stop. pose proof (tag_end_bounds (skipn (root_begin s) s) (root_begin s) None) as H.
  rewrite skipn_length in H. pose proof (root_begin_le s). lia.
Qed.

(* inserting inside the middle of a text in three pieces *)
Lemma insert_middle (a mid c x : str) pos : (List.length a <= pos)%nat -> (pos <= List.length a + List.length mid)%nat ->
  insert_at (a ++ mid ++ c) pos x = a ++ insert_at mid (pos - List.length a) x ++ c.
Proof.
  intros H1 H2. unfold insert_at.
  rewrite firstn_app, skipn_app. rewrite (firstn_all2 a) by lia. rewrite (skipn_all2 a) by lia. cbn [app].
  rewrite firstn_app, skipn_app. replace (pos - List.length a - List.length mid)%nat with 0%nat by lia.
  cbn [firstn skipn]. rewrite app_nil_r. rewrite <- !app_assoc. reflexivity.
Qed.

(* one step keeps the text in front of the root element and the text from the end of its start tag on *)
Lemma fix_one_frame orig start begin stop p a mid c : orig = a ++ skipn begin (firstn stop orig) ++ c ->
  List.length a = begin -> (begin <= stop <= List.length orig)%nat -> c = skipn stop orig ->
  exists mid', fix_one orig start begin stop (a ++ mid ++ c) p = a ++ mid' ++ c /\ (List.length mid <= List.length mid')%nat.
Proof.
  intros Ho Ha Hb Hc. unfold fix_one. destruct (declared _ _); [exists mid; split; [reflexivity|lia]|].
  match goal with |- context [find_ws_then ?n ?l ?i] => destruct (find_ws_then n l i) as [pos|] eqn:E end; [|exists mid; split; [reflexivity|lia]].
  apply find_ws_then_ge in E. rewrite firstn_length, skipn_length in E. rewrite !app_length in E.
  assert (Lc : List.length c = (List.length orig - stop)%nat) by (subst c; apply skipn_length).
  exists (insert_at mid (pos - List.length a) (decl p)). split; [apply insert_middle; lia|rewrite insert_length; lia].
Qed.

Lemma fold_frame orig start begin stop a c : orig = a ++ skipn begin (firstn stop orig) ++ c ->
  List.length a = begin -> (begin <= stop <= List.length orig)%nat -> c = skipn stop orig ->
  forall ps mid, exists mid', fold_left (fix_one orig start begin stop) ps (a ++ mid ++ c) = a ++ mid' ++ c.
Proof.
  intros Ho Ha Hb Hc. induction ps as [|p r IH]; intros mid; [exists mid; reflexivity|]. cbn [fold_left].
  destruct (fix_one_frame orig start begin stop p a mid c Ho Ha Hb Hc) as [m1 [E _]]. rewrite E. apply IH.
Qed.

Lemma three_pieces (s : str) b e : (b <= e <= List.length s)%nat -> s = firstn b s ++ skipn b (firstn e s) ++ skipn e s.
Proof.
  intros H. rewrite <- (firstn_skipn e s) at 1. rewrite <- (firstn_skipn b (firstn e s)) at 1.
  rewrite firstn_firstn, Nat.min_l by lia. rewrite <- app_assoc. reflexivity.
Qed.

(* whatever the part holds: only the start tag of the root element is patched.  Everything in front of it - the prolog, the
   document type declaration with every entity declaration and external identifier - and everything from the '>' that ends it
   on - every other tag, every character of text - reaches the parser as it is in the package *)
Theorem only_root_tag_patched s : exists mid, fix_part s = firstn (root_begin s) s ++ mid ++ skipn (root_stop s) s.
Proof.
  pose proof (root_stop_bounds s) as Hb. pose proof (three_pieces s _ _ Hb) as Hs.
  assert (Hl : List.length (firstn (root_begin s) s) = root_begin s) by (rewrite firstn_length; apply Nat.min_l; apply root_begin_le).
  destruct (fold_frame s (root_start s) (root_begin s) (root_stop s) _ _ Hs Hl Hb eq_refl prefixes (skipn (root_begin s) (firstn (root_stop s) s))) as [mid E].
  exists mid. unfold fix_part. rewrite <- E. f_equal. exact Hs.
Qed.

Theorem dtd_untouched s : firstn (root_start s) (fix_part s) = firstn (root_start s) s.
Proof.
  destruct (only_root_tag_patched s) as [mid E]. rewrite E. pose proof (root_begin_ge s) as H. pose proof (root_begin_le s) as Hl.
  rewrite firstn_app. rewrite firstn_length, (Nat.min_l _ _ Hl). replace (root_start s - root_begin s)%nat with 0%nat by lia.
  cbn [firstn]. rewrite app_nil_r, firstn_firstn. f_equal. lia.
Qed.

Theorem fix_part_shape s : exists tail, fix_part s = firstn (root_start s) s ++ tail.
Proof. exists (skipn (root_start s) (fix_part s)). rewrite <- (dtd_untouched s). symmetry. apply firstn_skipn. Qed.

(* root_start on the shapes that were got wrong before: a comment in front that mentions a DOCTYPE; a comment and a processing
   instruction inside the internal subset that hold brackets and quotes; and what the patch does around them *)
Definition ex1 := s2l "<!-- <!DOCTYPE x> --><!DOCTYPE y [<!ENTITY e ""v xmlns:q y"">]><a xmlns:o='u'/>".
Definition ex2 := s2l "<!DOCTYPE x [<!-- ]> "" --><?pi ]> '?><!ENTITY e ""v xmlns:q"">]><a xmlns:o='u'/>".
Example root_start_examples :
  root_start (s2l "<a xmlns:b='u'/>") = 0%nat /\ root_start (s2l "<?xml version='1.0'?>  <a/>") = 0%nat /\
  skipn (root_start ex1) ex1 = s2l "<a xmlns:o='u'/>" /\ skipn (root_start ex2) ex2 = s2l "<a xmlns:o='u'/>" /\
  firstn (root_start ex1) (fix_part ex1) = firstn (root_start ex1) ex1 /\
  declared (s2l "meta") (skipn (root_start ex1) (fix_part ex1)) = true /\
  declared (s2l "o") (10 :: s2l "xmlns:o  = 'u'") = true /\ declared (s2l "o") (s2l "xxmlns:o='u'") = false.
Proof. vm_compute. repeat split. Qed.

(* which parts are OpenDocument's *)
Example is_odf_examples :
  map (fun x => is_odf_part (s2l x))
    ["<office:document-content xmlns:office='o'>"; "<?xml version='1.0'?><!-- c --><document-styles xmlns='o'/>"; "<o:document-meta>"; "<office:document xmlns:office='o'>";
     "<math xmlns='m'><mi>document</mi></math>"; "<math:math xmlns:math='m'/>"; "<office:document-contents>"; "<document:x/>"; "<a:b:document>"; "<office:document"; ""]%string
  = [true; true; true; true; false; false; false; false; false; false; false].
Proof. vm_compute. reflexivity. Qed.

(* the root's start tag: behind a comment that reads like a declaration, ended by the first '>' outside a value; a root
   without any prefix declaration is left alone, whatever its text says *)
Definition ex3 := s2l "<?xml version='1.0'?><!-- a xmlns:b --><r xmlns:o='a>b' x=""'>"">t xmlns:q</r>".
Definition ex4 := s2l "<r xmlns='u'><p> xmlns:foo and more</p></r>".
Example root_tag_examples :
  skipn (root_begin ex3) (firstn (S (root_stop ex3)) ex3) = s2l "<r xmlns:o='a>b' x=""'>"">" /\
  fix_part ex4 = ex4 /\ skipn (root_stop ex3 + (List.length (fix_part ex3) - List.length ex3)) (fix_part ex3) = s2l ">t xmlns:q</r>" /\
  declared (s2l "form") (fix_part ex3) = true.
Proof. vm_compute. repeat split. Qed.
