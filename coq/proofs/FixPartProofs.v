(* FixPartProofs.v — C13: the patch never touches the document type declaration. *)
From Coq Require Import ZArith Lia.
From Odf Require Import model.Base model.Chars model.XmlLex model.FixPart.

Lemma find_ws_then_ge needle : forall s i p, find_ws_then needle s i = Some p -> (i <= p < i + List.length s)%nat.
Proof.
  induction s as [|c r IH]; intros i p H; cbn [find_ws_then] in H; [discriminate|]. cbn [List.length].
  destruct (is_xws c && starts needle r); [injection H as <-; lia|]. apply IH in H. lia.
Qed.

Lemma root_start_le s : (root_start s <= List.length s)%nat.
Proof. unfold root_start. apply Nat.le_min_r. Qed.

Lemma firstn_insert (s x : str) start pos : (start <= pos)%nat -> (pos <= List.length s)%nat -> firstn start (insert_at s pos x) = firstn start s.
Proof.
  intros H1 H2. unfold insert_at. rewrite firstn_app. rewrite firstn_length, Nat.min_l by exact H2.
  replace (start - pos)%nat with 0%nat by lia. cbn [firstn]. rewrite app_nil_r, firstn_firstn. f_equal. lia.
Qed.
Lemma insert_length (s x : str) pos : List.length (insert_at s pos x) = (List.length s + List.length x)%nat.
Proof. unfold insert_at. rewrite !app_length. rewrite <- (firstn_skipn pos s) at 3. rewrite app_length. lia. Qed.

Lemma fix_one_prefix orig start result p : (start <= List.length result)%nat ->
  firstn start (fix_one orig start result p) = firstn start result /\ (List.length result <= List.length (fix_one orig start result p))%nat.
Proof.
  intros Hl. unfold fix_one. destruct (declared _ _); [split; [reflexivity|lia]|].
  destruct (find_ws_then sXMLNS (skipn start result) start) as [pos|] eqn:E; [|split; [reflexivity|lia]].
  apply find_ws_then_ge in E. rewrite skipn_length in E. split; [apply firstn_insert; lia|rewrite insert_length; lia].
Qed.

Lemma fold_prefix orig start ps : forall result, (start <= List.length result)%nat ->
  firstn start (fold_left (fix_one orig start) ps result) = firstn start result.
Proof.
  induction ps as [|p r IH]; intros result Hl; [reflexivity|]. cbn [fold_left].
  destruct (fix_one_prefix orig start result p Hl) as [A B]. rewrite IH by lia. exact A.
Qed.

(* whatever the part holds: everything up to the end of its document type declaration (root_start) reaches the parser as it is
   in the package - every entity declaration, every external identifier *)
Theorem dtd_untouched s : firstn (root_start s) (fix_part s) = firstn (root_start s) s.
Proof. unfold fix_part. apply fold_prefix. apply root_start_le. Qed.

Theorem fix_part_shape s : exists tail, fix_part s = firstn (root_start s) s ++ tail.
Proof. exists (skipn (root_start s) (fix_part s)). rewrite <- (dtd_untouched s). symmetry. apply firstn_skipn. Qed.

(* root_start on the shapes that were got wrong before: a comment in front that mentions a DOCTYPE; a comment and a processing
   instruction inside the internal subset that hold brackets and quotes; and what the patch does around them *)
Definition ex1 := s2l "<!-- <!DOCTYPE x> --><!DOCTYPE y [<!ENTITY e ""v xmlns:q y"">]><a xmlns:o='u'/>".
Definition ex2 := s2l "<!DOCTYPE x [<!-- ]> "" --><?pi ]> '?><!ENTITY e ""v xmlns:q"">]><a xmlns:o='u'/>".
Example root_start_examples :
  root_start (s2l "<a xmlns:b='u'/>") = 0%nat /\ root_start (s2l "<?xml version='1.0'?>  <a/>") = 0%nat /\
  skipn (root_start ex1) ex1 = s2l "<a xmlns:o='u'/>" /\ skipn (root_start ex2) ex2 = s2l "<a xmlns:o='u'/>" /\
  firstn (root_start ex1) (fix_part ex1) = firstn (root_start ex1) ex1 /\
  declared (s2l "meta") (skipn (root_start ex1) (fix_part ex1)) = true /\
  declared (s2l "o") (10 :: s2l "xmlns:o  = 'u'") = true /\ declared (s2l "o") (s2l "xxmlns:o='u'") = false.
Proof. vm_compute. repeat split. Qed.
