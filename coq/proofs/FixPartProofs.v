(* FixPartProofs.v — C13: the patch never touches the document type declaration. *)
From Coq Require Import ZArith Lia.
From Odf Require Import model.Base model.XmlLex model.FixPart.

Lemma find_from_ge needle : forall s i p, find_from needle s i = Some p -> (i <= p <= i + List.length s)%nat.
Proof.
  induction s as [|c r IH]; intros i p H; cbn [find_from] in H.
  - destruct needle; [injection H as <-; cbn; lia|discriminate].
  - destruct (strip_prefix needle (c :: r)); [injection H as <-; cbn; lia|]. apply IH in H. cbn [List.length]. lia.
Qed.

Lemma dtd_end_le : forall s i q d e, dtd_end s i q d = Some e -> (i < e <= i + List.length s)%nat.
Proof.
  induction s as [|c r IH]; intros i q d e H; cbn [dtd_end] in H; [discriminate|]. cbn [List.length].
  destruct q as [q|].
  - apply IH in H. lia.
  - destruct ((c =? 34) || (c =? 39)); [apply IH in H; lia|]. destruct (c =? 91); [apply IH in H; lia|]. destruct (c =? 93); [apply IH in H; lia|].
    destruct ((c =? 62) && (d =? 0)%Z); [injection H as <-; lia|apply IH in H; lia].
Qed.

Lemma root_start_le s : (root_start s <= List.length s)%nat.
Proof.
  unfold root_start. destruct (find_from sDOCTYPE s 0) as [pos|] eqn:E; [|lia].
  apply find_from_ge in E. destruct (dtd_end (skipn pos s) pos None 0) as [e|] eqn:D; [|lia].
  apply dtd_end_le in D. rewrite skipn_length in D. lia.
Qed.

Lemma firstn_insert (s x : str) start pos : (start <= pos)%nat -> (pos <= List.length s)%nat -> firstn start (insert_at s pos x) = firstn start s.
Proof.
  intros H1 H2. unfold insert_at. rewrite firstn_app. rewrite firstn_length, Nat.min_l by exact H2.
  replace (start - pos)%nat with 0%nat by lia. cbn [firstn]. rewrite app_nil_r, firstn_firstn. f_equal. lia.
Qed.
Lemma insert_length (s x : str) pos : List.length (insert_at s pos x) = (List.length s + List.length x)%nat.
Proof. unfold insert_at. rewrite !app_length. rewrite <- (firstn_skipn pos s) at 3. rewrite app_length. lia. Qed.

Lemma fix_one_prefix orig start result p : (start <= List.length result)%nat ->
  firstn start (fix_one orig start result p) = firstn start result /\ (List.length result <= List.length (fix_one orig start result p))%nat.
Proof.
  intros Hl. unfold fix_one. destruct (contains _ _); [split; [reflexivity|lia]|].
  destruct (find_from sXMLNS_SP (skipn start result) start) as [pos|] eqn:E; [|split; [reflexivity|lia]].
  apply find_from_ge in E. rewrite skipn_length in E. split; [apply firstn_insert; lia|rewrite insert_length; lia].
Qed.

Lemma fold_prefix orig start ps : forall result, (start <= List.length result)%nat ->
  firstn start (fold_left (fix_one orig start) ps result) = firstn start result.
Proof.
  induction ps as [|p r IH]; intros result Hl; [reflexivity|]. cbn [fold_left].
  destruct (fix_one_prefix orig start result p Hl) as [A B]. rewrite IH by lia. exact A.
Qed.

(* whatever the part holds: everything up to the end of its document type declaration reaches the parser as it is in the
   package - every entity declaration, every external identifier *)
Theorem dtd_untouched s : firstn (root_start s) (fix_part s) = firstn (root_start s) s.
Proof. unfold fix_part. apply fold_prefix. apply root_start_le. Qed.

Theorem fix_part_shape s : exists tail, fix_part s = firstn (root_start s) s ++ tail.
Proof. exists (skipn (root_start s) (fix_part s)). rewrite <- (dtd_untouched s). symmetry. apply firstn_skipn. Qed.

(* without a document type declaration nothing is protected, with one the protected region ends behind it *)
Example root_start_examples :
  root_start (s2l "<a xmlns:b='u'/>") = 0%nat /\
  root_start (s2l "<!DOCTYPE x [<!ENTITY e ""v xmlns:q"">]><a/>") = 38%nat /\
  firstn 38 (fix_part (s2l "<!DOCTYPE x [<!ENTITY e ""v xmlns:q"">]><a xmlns:o='u'/>")) = s2l "<!DOCTYPE x [<!ENTITY e ""v xmlns:q"">]>" /\
  contains (s2l " xmlns:meta=") (fix_part (s2l "<!DOCTYPE x [<!ENTITY e ""v xmlns:q"">]><a xmlns:o='u'/>")) = true.
Proof. vm_compute. repeat split. Qed.
