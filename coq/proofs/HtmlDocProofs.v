(* HtmlDocProofs.v — C18: the output of any sequence of writer calls is lexed by a conforming parser into exactly one
   token per tag call, with the character data and the attribute values exactly as handed to the writer; under the
   tag-stack discipline the token stream builds a tree (the output is well-formed). *)
From Coq Require Import Lia.
From Odf Require Import model.Base model.Chars model.XmlPrint model.XmlLex model.XmlTree model.Html model.HtmlDoc
  proofs.XmlPrintProofs proofs.XmlLexProofs proofs.XmlTokProofs proofs.XmlRoundTrip proofs.HtmlProofs.

Lemma flushT_eq acc : HtmlDoc.flushT acc = XmlTokProofs.flushT acc.
Proof. reflexivity. Qed.

Lemma forallb_Forall {A} (p : A -> bool) l : forallb p l = true -> Forall (fun c => p c = true) l.
Proof. intros H. apply Forall_forall. intros x Hx. rewrite forallb_forall in H. now apply H. Qed.

Lemma is_name_shape t : is_name t = true -> exists c r, t = c :: r /\ name_start c = true /\ all_name r = true.
Proof. destruct t as [|c r]; [discriminate|]. cbn [is_name]. intros H. apply andb_prop in H as [H1 H2]. now exists c, r. Qed.

(* ---------------- attributes ---------------- *)
Definition h_att (kv : str * str) : str := [cSP] ++ fst kv ++ [cEQ] ++ h_quoteattr (snd kv).

Lemma join_sp_atts a atts : [32] ++ join_sp (h_atts (a :: atts)) = flat_map h_att (a :: atts).
Proof.
  assert (E : forall l, flat_map (fun y => 32 :: y) (h_atts l) = flat_map h_att l).
  { induction l as [|b r IH]; [reflexivity|]. unfold h_atts in *. cbn [map flat_map]. rewrite IH. reflexivity. }
  unfold join_sp. unfold h_atts in *. cbn [map]. rewrite E. cbn [flat_map]. unfold h_att. change cSP with 32. change cEQ with 61. now rewrite <- !app_assoc.
Qed.

Lemma lex_h_att ts n pre st kv : att_okb kv = true -> intag ts n pre st -> intag ts n (pre ++ [kv]) (run (h_att kv) st).
Proof.
  intros Ha Hin. unfold att_okb in Ha. apply andb_prop in Ha as [Hn Hv]. destruct (is_name_shape _ Hn) as (c & r & E & Hc & Hr).
  unfold h_att. rewrite E. cbn [app]. rewrite run_cons, (intag_space _ _ _ _ Hin).
  rewrite lex_attname_start by assumption. rewrite attribute_stays_attribute by now apply forallb_Forall.
  split; [reflexivity|]. right. exists false. rewrite <- E. now destruct kv.
Qed.
Lemma lex_h_atts ts n atts : forallb att_okb atts = true -> forall pre st, intag ts n pre st ->
  intag ts n (pre ++ atts) (run (flat_map h_att atts) st).
Proof.
  induction atts as [|a atts IH]; intros H pre st Hin; [cbn; now rewrite app_nil_r|].
  cbn [forallb] in H. apply andb_prop in H as [H1 H2]. cbn [flat_map]. rewrite run_app.
  specialize (IH H2 _ _ (lex_h_att _ _ _ _ _ H1 Hin)). now rewrite <- app_assoc in IH.
Qed.

Lemma lex_h_open ts acc k c r : name_start c = true -> all_name r = true ->
  intag (ts ++ HtmlDoc.flushT acc) (c :: r) [] (run (cLT :: c :: r) (mkL ts (MText acc k))).
Proof.
  intros Hc Hr. rewrite run_cons. change (lstep (mkL ts (MText acc k)) cLT) with (mkL ts (MLt acc)). rewrite run_cons.
  assert (Es : (c =? cSLASH) = false) by (apply (name_char_facts c (name_start_name_char c Hc))).
  assert (Eb : (c =? cBANG) = false) by (apply N.eqb_neq; intros ->; vm_compute in Hc; discriminate).
  unfold lstep at 1. cbn [md toks]. rewrite Es, Eb, Hc. rewrite run_tagname by exact Hr. rewrite flush_text_flushT.
  split; [reflexivity|]. left. split; reflexivity.
Qed.

Lemma run_nl ts b : run (nl b) (mkL ts (MText [] 0)) = mkL ts (MText (nl b) 0).
Proof. destruct b; reflexivity. Qed.

(* ---------------- one event ---------------- *)
Lemma lex_opentag ts acc k t a b : is_name t = true -> forallb att_okb a = true ->
  run (h_opentag t a b) (mkL ts (MText acc k)) = mkL (ts ++ HtmlDoc.flushT acc ++ [TkStart t a]) (MText (nl b) 0).
Proof.
  intros Hn Ha. destruct (is_name_shape _ Hn) as (c & r & E & Hc & Hr).
  assert (Eo : h_opentag t a b = (cLT :: t) ++ flat_map h_att a ++ [cGT] ++ nl b).
  { unfold h_opentag. destruct a as [|x a']; [cbn [flat_map app]; now rewrite <- !app_assoc|]. change ([60] ++ t ++ [32] ++ join_sp (h_atts (x :: a')) ++ [62]) with ([60] ++ t ++ ([32] ++ join_sp (h_atts (x :: a'))) ++ [62]).
    rewrite join_sp_atts. cbn [app]. rewrite <- !app_assoc. reflexivity. }
  rewrite Eo, E, !run_app. pose proof (lex_h_open ts acc k c r Hc Hr) as H0.
  pose proof (lex_h_atts _ _ a Ha _ _ H0) as H1. cbn [app] in H1. rewrite run_cons, run_nil, (intag_gt _ _ _ _ H1), run_nl.
  now rewrite <- app_assoc.
Qed.

Lemma lex_emptytag ts acc k t a : is_name t = true -> forallb att_okb a = true ->
  run (h_emptytag t a) (mkL ts (MText acc k)) = mkL (ts ++ HtmlDoc.flushT acc ++ [TkEmpty t a]) (MText [10] 0).
Proof.
  intros Hn Ha. destruct (is_name_shape _ Hn) as (c & r & E & Hc & Hr).
  pose proof (lex_h_open ts acc k c r Hc Hr) as H0. rewrite <- E in H0.
  destruct a as [|x a'].
  - unfold h_emptytag. cbn [h_atts map join_sp]. change ([60] ++ t ++ [32] ++ [] ++ [47; 62; 10]) with ((cLT :: t) ++ [cSP] ++ [cSLASH; cGT] ++ [10]).
    rewrite run_app. set (st0 := run (cLT :: t) (mkL ts (MText acc k))) in *.
    rewrite run_app. change (run [cSP] st0) with (lstep st0 cSP). rewrite (intag_space _ _ _ _ H0).
    assert (H1 : intag (ts ++ HtmlDoc.flushT acc) t [] (mkL (ts ++ HtmlDoc.flushT acc) (MAttrs t [] true))) by (split; [reflexivity|right; now exists true]).
    rewrite run_app, (intag_slash_gt _ _ _ _ H1). now rewrite <- app_assoc.
  - assert (Eo : h_emptytag t (x :: a') = (cLT :: t) ++ flat_map h_att (x :: a') ++ [cSLASH; cGT] ++ [10]).
    { unfold h_emptytag. change ([60] ++ t ++ [32] ++ join_sp (h_atts (x :: a')) ++ [47; 62; 10]) with ([60] ++ t ++ ([32] ++ join_sp (h_atts (x :: a'))) ++ [47; 62; 10]).
      rewrite join_sp_atts. reflexivity. }
    rewrite Eo, !run_app. pose proof (lex_h_atts _ _ (x :: a') Ha _ _ H0) as H1. cbn [app] in H1.
    rewrite (intag_slash_gt _ _ _ _ H1). now rewrite <- app_assoc.
Qed.

Lemma lex_closetag ts acc k t b : is_name t = true ->
  run (h_closetag t b) (mkL ts (MText acc k)) = mkL (ts ++ HtmlDoc.flushT acc ++ [TkEnd t]) (MText (nl b) 0).
Proof.
  intros Hn. destruct (is_name_shape _ Hn) as (c & r & E & Hc & Hr). unfold h_closetag. rewrite E.
  change ([60; 47] ++ (c :: r) ++ [62] ++ nl b) with (cLT :: cSLASH :: c :: (r ++ [cGT] ++ nl b)). rewrite !run_cons.
  change (lstep (lstep (mkL ts (MText acc k)) cLT) cSLASH) with (mkL (flush_text ts acc) (MEndName [])).
  unfold lstep at 1. cbn [md toks]. rewrite Hc. rewrite run_app, run_endname by exact Hr. rewrite run_app, run_cons, run_nil.
  cbn [app]. unfold lstep. cbn [md toks]. change (name_char cGT) with false. change (is_ws cGT) with false. change (cGT =? cGT) with true.
  cbn iota. rewrite run_nl, flush_text_flushT, <- app_assoc. reflexivity.
Qed.

Lemma lex_nbsp ts acc k : run sNBSP (mkL ts (MText acc k)) = mkL ts (MText (acc ++ [160]) 0).
Proof. reflexivity. Qed.

(* the style sheet: one CDATA section between two comment brackets, every "]]>" of the body split *)
Lemma replace_cdend_step r a s1 : replace_cdend r (a :: s1) =
  match s1 with b :: c :: t => if (a =? cRSQB) && (b =? cRSQB) && (c =? cGT) then r ++ replace_cdend r t else a :: replace_cdend r s1
              | _ => a :: replace_cdend r s1 end.
Proof. destruct s1 as [|b [|c t]]; reflexivity. Qed.
Lemma cd_pass_step a s1 : cd_pass (a :: s1) =
  match s1 with b :: c :: t => if (a =? cRSQB) && (b =? cRSQB) && (c =? cGT) then sCDSPLIT ++ cd_pass t else cd_char a ++ cd_pass s1
              | _ => cd_char a ++ cd_pass s1 end.
Proof. destruct s1 as [|b [|c t]]; reflexivity. Qed.

Lemma nocr_replace_cdend s : nocr s -> replace1 cCR sCDCR (replace_cdend sCDSPLIT s) = replace_cdend sCDSPLIT s.
Proof.
  intros H. apply replace1_absent.
  assert (G : forall n s, (List.length s <= n)%nat -> nocr s -> nocr (replace_cdend sCDSPLIT s)).
  { clear. induction n as [|n IH]; intros s Hl Hn; [destruct s; [reflexivity|cbn in Hl; lia]|].
    destruct s as [|a s1]; [reflexivity|]. apply nocr_cons in Hn as [Ha Hs1]. cbn [List.length] in Hl.
    assert (Hstep : nocr (a :: replace_cdend sCDSPLIT s1)) by (apply nocr_cons; split; [exact Ha|apply IH; [lia|exact Hs1]]).
    rewrite replace_cdend_step. destruct s1 as [|b [|c t]]; try exact Hstep.
    destruct ((a =? cRSQB) && (b =? cRSQB) && (c =? cGT)); [|exact Hstep].
    apply nocr_app. split; [reflexivity|]. apply IH; [cbn [List.length] in Hl; lia|].
    apply nocr_cons in Hs1 as [_ Hs1]. now apply nocr_cons in Hs1 as [_ Hs1]. }
  now apply (G (List.length s)).
Qed.

Lemma run_plain_in_text ts s : Forall (fun c => xml10_char c = true) s -> mem_cp cLT s = false -> mem_cp cAMP s = false ->
  mem_cp cGT s = false -> mem_cp cRSQB s = false -> forall acc k, run s (mkL ts (MText acc k)) = mkL ts (MText (acc ++ s) (match s with [] => k | _ => 0 end)).
Proof.
  induction s as [|c s IH]; intros Hs H1 H2 H3 H4 acc k; [now rewrite app_nil_r|].
  inversion Hs as [|? ? Hc Hs']; subst. cbn [mem_cp] in H1, H2, H3, H4.
  apply orb_false_elim in H1 as [A1 B1]. apply orb_false_elim in H2 as [A2 B2]. apply orb_false_elim in H3 as [A3 B3]. apply orb_false_elim in H4 as [A4 B4].
  rewrite run_cons. unfold lstep. cbn [md toks]. rewrite A1, A2, A3, A4, Hc. rewrite (IH Hs' B1 B2 B3 B4). rewrite <- app_assoc. cbn [app].
  destruct s; reflexivity.
Qed.

Lemma cd_pass_other a s1 : (a =? cRSQB) = false -> cd_pass (a :: s1) = cd_char a ++ cd_pass s1.
Proof. intros H. rewrite cd_pass_step. destruct s1 as [|b [|c t]]; try reflexivity. now rewrite H. Qed.

Lemma cd_pass_suffix : forall n s0, (List.length s0 <= n)%nat -> cd_pass s0 ++ sCOPEN = cd_pass (s0 ++ sCOPEN).
Proof.
  induction n as [|n IH]; intros s0 Hl; [destruct s0; [reflexivity|cbn in Hl; lia]|].
  destruct s0 as [|a s1]; [reflexivity|]. cbn [List.length] in Hl.
  destruct s1 as [|b [|c t]].
  - unfold sCOPEN. cbn. unfold cd_char. destruct (a =? cCR); destruct (a =? cRSQB); reflexivity.
  - unfold sCOPEN. cbn. unfold cd_char. destruct (a =? cCR); destruct (a =? cRSQB); destruct (b =? cCR); destruct (b =? cRSQB); reflexivity.
  - change ((a :: b :: c :: t) ++ sCOPEN) with (a :: b :: c :: (t ++ sCOPEN)).
    rewrite (cd_pass_step a (b :: c :: t)), (cd_pass_step a (b :: c :: t ++ sCOPEN)). cbv beta iota.
    destruct ((a =? cRSQB) && (b =? cRSQB) && (c =? cGT)).
    + rewrite <- app_assoc. f_equal. apply IH. cbn [List.length] in Hl. lia.
    + rewrite <- app_assoc. f_equal. apply (IH (b :: c :: t)). lia.
Qed.

Lemma lex_css ts acc k s : plain s = true ->
  run (h_css s) (mkL ts (MText acc k)) = mkL ts (MText (acc ++ css_text s) 0).
Proof.
  intros Hp. unfold plain in Hp. apply andb_prop in Hp as [Hx Hn]. apply forallb_Forall in Hx. apply Bool.negb_true_iff in Hn.
  assert (Ec : sCCLOSE ++ replace_cdend sCDSPLIT s ++ sCOPEN = cd_pass (sCCLOSE ++ s ++ sCOPEN)).
  { unfold sCCLOSE. change (s2l "*/" ++ [10]) with [42; 47; 10]. cbn [app].
    rewrite !cd_pass_other by reflexivity. change (cd_char 42) with [42]. change (cd_char 47) with [47]. change (cd_char 10) with [10]. cbn [app].
    do 3 f_equal. rewrite <- (cd_pass_suffix (List.length s) s (le_n _)). f_equal.
    rewrite <- (nocr_replace_cdend s Hn). apply cd_pass_eq. }
  unfold h_css.
  replace (sCOPEN ++ sCDOPEN ++ sCCLOSE ++ replace_cdend sCDSPLIT s ++ sCOPEN ++ sCDCLOSE ++ sCCLOSE)
     with (sCOPEN ++ sCDOPEN ++ ((sCCLOSE ++ replace_cdend sCDSPLIT s ++ sCOPEN) ++ sCDCLOSE) ++ sCCLOSE) by (now rewrite <- !app_assoc).
  rewrite Ec. rewrite run_app, (run_plain_in_text ts sCOPEN) by (repeat constructor).
  rewrite run_app, run_cdopen, run_app.
  rewrite (lex_cd_pass ts (List.length (sCCLOSE ++ s ++ sCOPEN))); try lia; try exact I.
  - rewrite (run_plain_in_text ts sCCLOSE) by (repeat constructor). unfold css_text. cbn [repeat app]. now rewrite <- !app_assoc.
  - apply Forall_app. split; [repeat constructor|]. apply Forall_app. split; [exact Hx|repeat constructor].
Qed.

(* ---------------- any sequence of events ---------------- *)
Theorem lex_events evs : forallb ev_ok evs = true -> forall ts acc k,
  lfinish (run (h_render evs) (mkL ts (MText acc k))) = Some (ts ++ ev_toks evs acc).
Proof.
  induction evs as [|e r IH]; intros Hok ts acc k.
  - cbn [h_render flat_map ev_toks]. rewrite run_nil. unfold lfinish. cbn [md toks]. now rewrite flush_text_flushT.
  - cbn [forallb] in Hok. apply andb_prop in Hok as [He Hr]. unfold h_render. cbn [flat_map]. fold (h_render r). rewrite run_app.
    destruct e as [t a b|t b|t a|d| |s]; cbn [h_event ev_ok ev_toks] in *.
    + apply andb_prop in He as [Hn Ha]. rewrite (lex_opentag ts acc k t a b Hn Ha), IH by exact Hr. now rewrite <- !app_assoc.
    + rewrite (lex_closetag ts acc k t b He), IH by exact Hr. now rewrite <- !app_assoc.
    + apply andb_prop in He as [Hn Ha]. rewrite (lex_emptytag ts acc k t a Hn Ha), IH by exact Hr. now rewrite <- !app_assoc.
    + unfold plain in He. apply andb_prop in He as [Hx Hn]. apply Bool.negb_true_iff in Hn.
      destruct (text_stays_text d ts acc k (forallb_Forall _ _ Hx) Hn) as [k' ->]. now apply IH.
    + rewrite lex_nbsp. now apply IH.
    + rewrite (lex_css ts acc k s He). now apply IH.
Qed.

(* ---------------- the tag-stack discipline gives a tree ---------------- *)
Definition fname (f : frame) : str := fst (fst f).
Definition started (stk : list frame) (top : option raw) : bool := match stk, top with [], None => false | _, _ => true end.

Lemma build_flush_in acc f stk top rest :
  exists f', fname f' = fname f /\ build (HtmlDoc.flushT acc ++ rest) (f :: stk) top = build rest (f' :: stk) top.
Proof.
  destruct f as [[n a] kd]. destruct acc as [|c0 acc']; [now exists (n, a, kd)|]. now exists (n, a, kd ++ [RText (c0 :: acc')]).
Qed.
Lemma build_flush_top acc top rest : forallb is_ws acc = true -> build (HtmlDoc.flushT acc ++ rest) [] top = build rest [] top.
Proof. intros H. destruct acc; [reflexivity|]. cbn [HtmlDoc.flushT app build]. now rewrite H. Qed.

Lemma nl_ws b : forallb is_ws (nl b) = true.
Proof. now destruct b. Qed.

Theorem wellnested_builds evs : forall stk top acc,
  (stk = [] -> forallb is_ws acc = true) -> (stk <> [] -> top = None) ->
  wellnested evs (map fname stk) (started stk top) = true ->
  exists r, build (ev_toks evs acc) stk top = Some r.
Proof.
  induction evs as [|e r IH]; intros stk top acc Hws Hinv Hw.
  - cbn [ev_toks]. destruct stk as [|f stk']; [|discriminate]. cbn [map wellnested started] in Hw.
    destruct top as [x|]; [|discriminate]. exists x. rewrite <- (app_nil_r (HtmlDoc.flushT acc)), (build_flush_top acc _ [] (Hws eq_refl)). reflexivity.
  - destruct e as [t a b|t b|t a|d| |s]; cbn [ev_toks wellnested] in *.
    + (* opentag *)
      destruct stk as [|f stk'].
      * cbn [map started] in Hw. apply andb_prop in Hw as [Hr Hw]. destruct top as [x|]; [discriminate|].
        rewrite (build_flush_top acc _ _ (Hws eq_refl)). cbn [build].
        apply (IH [(t, a, [])] None (nl b)); [discriminate|reflexivity|exact Hw].
      * cbn [map] in Hw. destruct (build_flush_in acc f stk' top (TkStart t a :: ev_toks r (nl b))) as [f' [Ef ->]]. cbn [build].
        apply (IH ((t, a, []) :: f' :: stk') top (nl b)); [discriminate|intros _; apply Hinv; discriminate|].
        cbn [map started]. change (fname (t, a, [])) with t. rewrite Ef. exact Hw.
    + (* closetag *)
      destruct stk as [|f stk']; [discriminate|]. cbn [map] in Hw. apply andb_prop in Hw as [Et Hw].
      destruct (build_flush_in acc f stk' top (TkEnd t :: ev_toks r (nl b))) as [f' [Ef ->]].
      destruct f' as [[n' a'] k']. change (fname (n', a', k')) with n' in Ef. cbn [build]. rewrite Ef, Et.
      assert (Htop : top = None) by (apply Hinv; discriminate). subst top.
      destruct stk' as [|g s''].
      * cbn [add_child]. apply (IH [] (Some (RElem (fname f) a' k')) (nl b)); [intros _; apply nl_ws|intros H; now elim H|exact Hw].
      * destruct g as [[gn ga] gk]. cbn [add_child].
        apply (IH ((gn, ga, gk ++ [RElem (fname f) a' k']) :: s'') None (nl b)); [discriminate|reflexivity|exact Hw].
    + (* emptytag *)
      destruct stk as [|f stk'].
      * cbn [map started] in Hw. apply andb_prop in Hw as [Hr Hw]. destruct top as [x|]; [discriminate|].
        rewrite (build_flush_top acc _ _ (Hws eq_refl)). cbn [build add_child].
        apply (IH [] (Some (RElem t a [])) [10]); [reflexivity|intros H; now elim H|exact Hw].
      * cbn [map] in Hw. destruct (build_flush_in acc f stk' top (TkEmpty t a :: ev_toks r [10])) as [f' [Ef ->]].
        destruct f' as [[n' a'] k']. cbn [build add_child].
        apply (IH ((n', a', k' ++ [RElem t a []]) :: stk') top [10]); [discriminate|intros _; apply Hinv; discriminate|].
        cbn [map started]. change (fname (n', a', k' ++ [RElem t a []])) with n'. change (fname (n', a', k')) with n' in Ef. rewrite Ef. exact Hw.
    + destruct stk as [|f stk']; [discriminate|]. apply (IH (f :: stk') top (acc ++ d)); [discriminate|exact Hinv|exact Hw].
    + destruct stk as [|f stk']; [discriminate|]. apply (IH (f :: stk') top (acc ++ [160])); [discriminate|exact Hinv|exact Hw].
    + destruct stk as [|f stk']; [discriminate|]. apply (IH (f :: stk') top (acc ++ css_text s)); [discriminate|exact Hinv|exact Hw].
Qed.

(* the whole output: lexes, and builds a tree *)
Theorem output_well_formed evs : forallb ev_ok evs = true -> wellnested evs [] false = true ->
  exists ts r, lfinish (run (h_render evs) linit) = Some ts /\ ts = ev_toks evs [] /\ build ts [] None = Some r.
Proof.
  intros Hok Hw. destruct (wellnested_builds evs [] None [] (fun _ => eq_refl) (fun H => match H eq_refl with end) Hw) as [r Hr].
  exists (ev_toks evs []), r. split; [|split; [reflexivity|exact Hr]]. exact (lex_events evs Hok [] [] 0%nat).
Qed.

(* a string handed to the writer cannot change the structure: the shape of the token stream is the shape of the event
   sequence, for all strings at once *)
Definition tshape (t : tok) : nat := match t with TkStart _ _ => 0 | TkEnd _ => 1 | TkEmpty _ _ => 2 | TkChars _ => 3 end.
Definition tag_toks (ts : list tok) : list tok := filter (fun t => negb (Nat.eqb (tshape t) 3)) ts.
Fixpoint ev_tags (evs : list hev) : list tok :=
  match evs with
  | [] => []
  | HOpen t a _ :: r => TkStart t a :: ev_tags r
  | HClose t _ :: r => TkEnd t :: ev_tags r
  | HEmpty t a :: r => TkEmpty t a :: ev_tags r
  | _ :: r => ev_tags r
  end.
Lemma tag_toks_flush acc rest : tag_toks (HtmlDoc.flushT acc ++ rest) = tag_toks rest.
Proof. now destruct acc. Qed.
Theorem tags_are_the_calls evs : forall acc, tag_toks (ev_toks evs acc) = ev_tags evs.
Proof.
  induction evs as [|e r IH]; intros acc; [cbn [ev_toks ev_tags]; rewrite <- (app_nil_r (HtmlDoc.flushT acc)); now rewrite tag_toks_flush|].
  destruct e; cbn [ev_toks ev_tags]; rewrite ?tag_toks_flush; try apply IH; unfold tag_toks; cbn [filter tshape Nat.eqb negb]; f_equal; apply IH.
Qed.
