(* XmlLexProofs.v — the printed form of text, attribute values and CDATA lexes
   back to the (filtered) string: the character-level half of the round trip. *)
From Coq Require Import Lia.
From Odf Require Import model.Base model.Chars model.XmlPrint model.XmlLex proofs.XmlPrintProofs.

Lemma run_app a b st : run (a ++ b) st = run b (run a st).
Proof. unfold run. apply fold_left_app. Qed.

Lemma run_cons c s st : run (c :: s) st = run s (lstep st c).
Proof. reflexivity. Qed.

Lemma run_nil st : run [] st = st.
Proof. reflexivity. Qed.

Lemma sAMP_eq : sAMP = [38; 97; 109; 112; 59]. Proof. reflexivity. Qed.
Lemma sLT_eq : sLT = [38; 108; 116; 59]. Proof. reflexivity. Qed.
Lemma sGT_eq : sGT = [38; 103; 116; 59]. Proof. reflexivity. Qed.
Lemma sQUOT_eq : sQUOT = [38; 113; 117; 111; 116; 59]. Proof. reflexivity. Qed.
Lemma sREF13_eq : sREF13 = [38; 35; 49; 51; 59]. Proof. reflexivity. Qed.
Lemma sREF10_eq : sREF10 = [38; 35; 49; 48; 59]. Proof. reflexivity. Qed.
Lemma sREF9_eq : sREF9 = [38; 35; 57; 59]. Proof. reflexivity. Qed.

(* ------------------------------------------------------------------ *)
(* character data                                                        *)
(* ------------------------------------------------------------------ *)
Lemma lex_esc_text c ts acc k :
  xml10_char c = true ->
  exists k', run (esc_text c) (mkL ts (MText acc k)) = mkL ts (MText (acc ++ [c]) k').
Proof.
  intros Hc. unfold esc_text.
  destruct (c =? cAMP) eqn:E1; [apply N.eqb_eq in E1; subst; exists 0%nat; rewrite sAMP_eq; reflexivity|].
  destruct (c =? cLT) eqn:E2; [apply N.eqb_eq in E2; subst; exists 0%nat; rewrite sLT_eq; reflexivity|].
  destruct (c =? cGT) eqn:E3; [apply N.eqb_eq in E3; subst; exists 0%nat; rewrite sGT_eq; reflexivity|].
  destruct (c =? cCR) eqn:E4; [apply N.eqb_eq in E4; subst; exists 0%nat; rewrite sREF13_eq; reflexivity|].
  rewrite run_cons, run_nil. unfold lstep. cbn [md toks]. rewrite E2, E1, E3.
  destruct (c =? cRSQB); [eexists; reflexivity|]. rewrite Hc. eexists; reflexivity.
Qed.

Lemma lex_text_body d : Forall (fun c => xml10_char c = true) d -> forall ts acc k,
  exists k', run (flat_map esc_text d) (mkL ts (MText acc k)) = mkL ts (MText (acc ++ d) k').
Proof.
  induction 1 as [|c d Hc Hd IH]; intros ts acc k.
  - exists k. cbn. now rewrite app_nil_r.
  - cbn [flat_map]. rewrite run_app.
    destruct (lex_esc_text c ts acc k Hc) as [k1 ->].
    destruct (IH ts (acc ++ [c]) k1) as [k2 ->].
    exists k2. now rewrite <- app_assoc.
Qed.

Theorem lex_text_toXml filtered s ts acc k :
  filter_covers filtered -> in_codespace s ->
  exists k', run (text_toXml filtered s) (mkL ts (MText acc k))
             = mkL ts (MText (acc ++ handle_unrepresentable filtered s) k').
Proof.
  intros Hf Hs. rewrite text_toXml_pointwise.
  apply lex_text_body. now apply handle_unrepresentable_chars.
Qed.

(* ------------------------------------------------------------------ *)
(* attribute values                                                      *)
(* ------------------------------------------------------------------ *)
Definition is_quote (q : cp) : Prop := q = cQUOT \/ q = cAPOS.

Lemma lex_esc_attr c q n atts an ts acc :
  xml10_char c = true -> is_quote q -> (c =? q) = false ->
  run (esc_attr c) (mkL ts (MAttVal n atts an q acc)) = mkL ts (MAttVal n atts an q (acc ++ [c])).
Proof.
  intros Hc Hq Hne. unfold esc_attr.
  destruct (c =? cAMP) eqn:E1; [apply N.eqb_eq in E1; subst; rewrite sAMP_eq; destruct Hq; subst; reflexivity|].
  destruct (c =? cLT) eqn:E2; [apply N.eqb_eq in E2; subst; rewrite sLT_eq; destruct Hq; subst; reflexivity|].
  destruct (c =? cGT) eqn:E3; [apply N.eqb_eq in E3; subst; rewrite sGT_eq; destruct Hq; subst; reflexivity|].
  destruct (c =? cLF) eqn:E4; [apply N.eqb_eq in E4; subst; rewrite sREF10_eq; destruct Hq; subst; reflexivity|].
  destruct (c =? cCR) eqn:E5; [apply N.eqb_eq in E5; subst; rewrite sREF13_eq; destruct Hq; subst; reflexivity|].
  destruct (c =? cTAB) eqn:E6; [apply N.eqb_eq in E6; subst; rewrite sREF9_eq; destruct Hq; subst; reflexivity|].
  rewrite run_cons, run_nil. unfold lstep. cbn [md toks]. rewrite Hne, E2, E1, E6, E4, E5. cbn [orb].
  now rewrite Hc.
Qed.

Lemma lex_attr_body q n atts an ts d : Forall (fun c => xml10_char c = true) d ->
  is_quote q -> mem_cp q d = false -> forall acc,
  run (flat_map esc_attr d) (mkL ts (MAttVal n atts an q acc)) = mkL ts (MAttVal n atts an q (acc ++ d)).
Proof.
  intros Hd Hq. induction Hd as [|c d Hc Hd IH]; intros Hm acc.
  - cbn. now rewrite app_nil_r.
  - cbn [mem_cp] in Hm. apply orb_false_iff in Hm as [H1 H2].
    cbn [flat_map]. rewrite run_app, (lex_esc_attr c q) by assumption.
    rewrite IH by assumption. now rewrite <- app_assoc.
Qed.

Definition esc_attr_q (x : cp) : str := if x =? cQUOT then sQUOT else esc_attr x.

Lemma esc_attr_no_quot x : (x =? cQUOT) = false -> mem_cp cQUOT (esc_attr x) = false.
Proof.
  intros H. unfold esc_attr.
  repeat match goal with |- context [if ?b then _ else _] => destruct b; [reflexivity|] end.
  cbn. now rewrite H.
Qed.

Lemma replace_quot_esc_attr x : replace1 cQUOT sQUOT (esc_attr x) = esc_attr_q x.
Proof.
  unfold esc_attr_q. destruct (x =? cQUOT) eqn:E.
  - apply N.eqb_eq in E. subst. reflexivity.
  - apply replace1_absent. now apply esc_attr_no_quot.
Qed.

Lemma lex_esc_attr_q c n atts an ts acc :
  xml10_char c = true ->
  run (esc_attr_q c) (mkL ts (MAttVal n atts an cQUOT acc)) = mkL ts (MAttVal n atts an cQUOT (acc ++ [c])).
Proof.
  intros Hc. unfold esc_attr_q. destruct (c =? cQUOT) eqn:E.
  - apply N.eqb_eq in E. subst. rewrite sQUOT_eq. reflexivity.
  - apply lex_esc_attr; [assumption|now left|assumption].
Qed.

Lemma lex_attr_body_q n atts an ts d : Forall (fun c => xml10_char c = true) d -> forall acc,
  run (flat_map esc_attr_q d) (mkL ts (MAttVal n atts an cQUOT acc)) = mkL ts (MAttVal n atts an cQUOT (acc ++ d)).
Proof.
  induction 1 as [|c d Hc Hd IH]; intros acc.
  - cbn. now rewrite app_nil_r.
  - cbn [flat_map]. rewrite run_app, lex_esc_attr_q by assumption. rewrite IH. now rewrite <- app_assoc.
Qed.

Lemma mem_cp_app_gen c a b : mem_cp c (a ++ b) = mem_cp c a || mem_cp c b.
Proof. induction a as [|x a IH]; cbn; [reflexivity|]. now rewrite IH, orb_assoc. Qed.

(* a quote character that survives escaping was in the string *)
Lemma mem_quote_flat_map q d : is_quote q ->
  mem_cp q (flat_map esc_attr d) = mem_cp q d.
Proof.
  intros Hq. induction d as [|x d IH]; [reflexivity|].
  cbn [flat_map mem_cp]. rewrite mem_cp_app_gen, IH. f_equal.
  unfold esc_attr.
  destruct (x =? cAMP) eqn:E1; [apply N.eqb_eq in E1; subst; destruct Hq; subst; reflexivity|].
  destruct (x =? cLT) eqn:E2; [apply N.eqb_eq in E2; subst; destruct Hq; subst; reflexivity|].
  destruct (x =? cGT) eqn:E3; [apply N.eqb_eq in E3; subst; destruct Hq; subst; reflexivity|].
  destruct (x =? cLF) eqn:E4; [apply N.eqb_eq in E4; subst; destruct Hq; subst; reflexivity|].
  destruct (x =? cCR) eqn:E5; [apply N.eqb_eq in E5; subst; destruct Hq; subst; reflexivity|].
  destruct (x =? cTAB) eqn:E6; [apply N.eqb_eq in E6; subst; destruct Hq; subst; reflexivity|].
  cbn. now rewrite orb_false_r.
Qed.

Lemma lex_open_quote q n atts an ts : is_quote q ->
  lstep (mkL ts (MAttEq n atts an)) q = mkL ts (MAttVal n atts an q []).
Proof. intros [->| ->]; reflexivity. Qed.

Lemma lex_close_quote q n atts an ts acc : is_quote q ->
  lstep (mkL ts (MAttVal n atts an q acc)) q = mkL ts (MAttrs n (atts ++ [(an, acc)]) false).
Proof. intros [->| ->]; reflexivity. Qed.

Theorem lex_quoteattr filtered s n atts an ts :
  filter_covers filtered -> in_codespace s ->
  run (quoteattr filtered s) (mkL ts (MAttEq n atts an))
  = mkL ts (MAttrs n (atts ++ [(an, handle_unrepresentable filtered s)]) false).
Proof.
  intros Hf Hs. unfold quoteattr. rewrite sanitize_attr_pointwise.
  pose proof (handle_unrepresentable_chars filtered s Hf Hs) as Hd.
  set (d := handle_unrepresentable filtered s) in *.
  rewrite !mem_quote_flat_map by (first [now left | now right]).
  assert (Qq : is_quote cQUOT) by now left. assert (Qa : is_quote cAPOS) by now right.
  destruct (mem_cp cQUOT d) eqn:Mq; [destruct (mem_cp cAPOS d) eqn:Ma|].
  - (* both kinds of quote: &quot; *)
    rewrite replace1_flat_map.
    rewrite (flat_map_ext _ _ replace_quot_esc_attr).
    cbn [app]. rewrite run_cons, lex_open_quote, run_app by assumption.
    rewrite lex_attr_body_q by assumption.
    rewrite run_cons, run_nil, lex_close_quote by assumption. reflexivity.
  - (* only double quotes inside: use apostrophes *)
    cbn [app]. rewrite run_cons, lex_open_quote, run_app by assumption.
    rewrite (lex_attr_body cAPOS) by assumption.
    rewrite run_cons, run_nil, lex_close_quote by assumption. reflexivity.
  - cbn [app]. rewrite run_cons, lex_open_quote, run_app by assumption.
    rewrite (lex_attr_body cQUOT) by assumption.
    rewrite run_cons, run_nil, lex_close_quote by assumption. reflexivity.
Qed.

(* ------------------------------------------------------------------ *)
(* CDATA sections                                                        *)
(* ------------------------------------------------------------------ *)
Definition cd_char (a : cp) : str := if a =? cCR then sCDCR else [a].

(* the two str.replace passes of CDATASection.toXml as one pass *)
Fixpoint cd_pass (s : str) : str :=
  match s with
  | [] => []
  | a :: s1 =>
      match s1 with
      | b :: c :: t =>
          if (a =? cRSQB) && (b =? cRSQB) && (c =? cGT) then sCDSPLIT ++ cd_pass t
          else cd_char a ++ cd_pass s1
      | _ => cd_char a ++ cd_pass s1
      end
  end.

Lemma replace_cr_char a : replace1 cCR sCDCR [a] = cd_char a.
Proof. unfold replace1, cd_char. cbn. destruct (a =? cCR); [now rewrite app_nil_r|reflexivity]. Qed.

Lemma cd_pass_eq_len n : forall s, (List.length s <= n)%nat ->
  replace1 cCR sCDCR (replace_cdend sCDSPLIT s) = cd_pass s.
Proof.
  induction n as [|n IH]; intros s Hl.
  - destruct s; [reflexivity|cbn in Hl; lia].
  - destruct s as [|a s1]; [reflexivity|].
    assert (Hs1 : (List.length s1 <= n)%nat) by (cbn in Hl; lia).
    assert (Hstep : replace1 cCR sCDCR (a :: replace_cdend sCDSPLIT s1) = cd_char a ++ cd_pass s1).
    { change (a :: replace_cdend sCDSPLIT s1) with ([a] ++ replace_cdend sCDSPLIT s1).
      rewrite replace1_app, replace_cr_char, IH by assumption. reflexivity. }
    destruct s1 as [|b [|c t]]; try exact Hstep.
    cbn [replace_cdend cd_pass].
    destruct ((a =? cRSQB) && (b =? cRSQB) && (c =? cGT)); [|exact Hstep].
    rewrite replace1_app. rewrite IH by (cbn in Hl; cbn; lia). reflexivity.
Qed.

Lemma cd_pass_eq s : replace1 cCR sCDCR (replace_cdend sCDSPLIT s) = cd_pass s.
Proof. apply (cd_pass_eq_len (List.length s)). lia. Qed.

Definition sw1 (s : str) : bool := match s with c :: _ => c =? cGT | [] => false end.
Definition sw2 (s : str) : bool := match s with a :: b :: _ => (a =? cRSQB) && (b =? cGT) | _ => false end.
(* what the pending brackets must not be followed by *)
Definition cd_inv (k : nat) (s : str) : Prop :=
  match k with
  | O => True
  | S O => sw2 s = false
  | _ => sw1 s = false /\ sw2 s = false
  end.

Lemma cd_close ts acc k : (k <= 2)%nat ->
  run sCDCLOSE (mkL ts (MCData acc k)) = mkL ts (MText (acc ++ repeat cRSQB k) 0).
Proof.
  intros Hk. destruct k as [|[|[|k]]]; [| | |lia]; cbn; rewrite <- ?app_assoc, ?app_nil_r; reflexivity.
Qed.

Lemma cd_cr ts acc k : (k <= 2)%nat ->
  run sCDCR (mkL ts (MCData acc k)) = mkL ts (MCData (acc ++ repeat cRSQB k ++ [cCR]) 0).
Proof.
  intros Hk. destruct k as [|[|[|k]]]; [| | |lia]; cbn; rewrite <- ?app_assoc; reflexivity.
Qed.

Lemma cd_split ts acc k : (k <= 2)%nat ->
  run sCDSPLIT (mkL ts (MCData acc k)) = mkL ts (MCData (acc ++ repeat cRSQB k ++ [cRSQB; cRSQB; cGT]) 0).
Proof.
  intros Hk. destruct k as [|[|[|k]]]; [| | |lia]; cbn; rewrite <- ?app_assoc; reflexivity.
Qed.

Lemma cd_other ts acc k a : xml10_char a = true -> (a =? cRSQB) = false -> (a =? cGT) = false ->
  lstep (mkL ts (MCData acc k)) a = mkL ts (MCData (acc ++ repeat cRSQB k ++ [a]) 0).
Proof. intros Hc E1 E2. unfold lstep. cbn [md toks]. now rewrite E1, E2, Hc. Qed.

Lemma cd_gt ts acc k : (k < 2)%nat ->
  lstep (mkL ts (MCData acc k)) cGT = mkL ts (MCData (acc ++ repeat cRSQB k ++ [cGT]) 0).
Proof. intros Hk. destruct k as [|[|k]]; [reflexivity|reflexivity|lia]. Qed.

Lemma cd_rsqb ts acc k : (k <= 2)%nat ->
  exists acc' k', lstep (mkL ts (MCData acc k)) cRSQB = mkL ts (MCData acc' k') /\
                  (k' <= 2)%nat /\ (1 <= k')%nat /\ (k = 0%nat -> k' = 1%nat) /\ (1 <= k -> k' = 2)%nat /\
                  acc' ++ repeat cRSQB k' = acc ++ repeat cRSQB k ++ [cRSQB].
Proof.
  intros Hk. destruct k as [|[|[|k]]]; [| | |lia].
  - exists acc, 1%nat. cbn. repeat split; try lia.
  - exists acc, 2%nat. cbn. repeat split; try lia.
  - exists (acc ++ [cRSQB]), 2%nat. cbn. repeat split; try lia. now rewrite <- !app_assoc.
Qed.

Lemma lex_cd_pass ts n : forall s, (List.length s <= n)%nat -> Forall (fun c => xml10_char c = true) s ->
  forall acc k, (k <= 2)%nat -> cd_inv k s ->
  run (cd_pass s ++ sCDCLOSE) (mkL ts (MCData acc k)) = mkL ts (MText (acc ++ repeat cRSQB k ++ s) 0).
Proof.
  induction n as [|n IH]; intros s Hl Hs acc k Hk Hinv.
  - destruct s; [|cbn in Hl; lia]. cbn [cd_pass app]. rewrite cd_close by assumption. now rewrite app_nil_r.
  - destruct s as [|a s1]; [cbn [cd_pass app]; rewrite cd_close by assumption; now rewrite app_nil_r|].
    assert (Hl1 : (List.length s1 <= n)%nat) by (cbn in Hl; lia).
    inversion Hs as [|? ? Ha Hs1]; subst.
    (* the step for a head character that is not the start of "]]>" *)
    assert (Hstep : (match s1 with b :: c :: _ => (a =? cRSQB) && (b =? cRSQB) && (c =? cGT) | _ => false end) = false ->
       run ((cd_char a ++ cd_pass s1) ++ sCDCLOSE) (mkL ts (MCData acc k))
       = mkL ts (MText (acc ++ repeat cRSQB k ++ a :: s1) 0)).
    { intros Hnm. rewrite <- app_assoc, run_app. unfold cd_char.
      destruct (a =? cCR) eqn:Ecr.
      - apply N.eqb_eq in Ecr. subst a. rewrite cd_cr by assumption.
        rewrite IH; [|assumption|assumption|lia|exact I]. cbn [repeat app].
        rewrite <- !app_assoc. reflexivity.
      - rewrite run_cons, run_nil.
        destruct (a =? cRSQB) eqn:Eb.
        + apply N.eqb_eq in Eb. subst a.
          destruct (cd_rsqb ts acc k Hk) as [acc' [k' [-> [Hk' [Hk1 [Hk0 [Hk2 Hacc]]]]]]].
          rewrite IH; [|assumption|assumption|assumption|].
          * rewrite app_assoc, Hacc. rewrite <- !app_assoc. reflexivity.
          * (* the invariant for the new pending count *)
            destruct k as [|k0].
            -- rewrite (Hk0 eq_refl). cbn [cd_inv]. destruct s1 as [|b [|c t]]; try reflexivity.
               cbn [sw2]. cbn in Hnm. exact Hnm.
            -- rewrite (Hk2 ltac:(lia)). cbn [cd_inv].
               assert (Hsw2 : sw2 (cRSQB :: s1) = false).
               { destruct k0 as [|k1]; cbn [cd_inv] in Hinv; [exact Hinv|apply Hinv]. }
               split.
               ++ destruct s1 as [|b t]; [reflexivity|]. cbn [sw1]. cbn [sw2] in Hsw2. exact Hsw2.
               ++ destruct s1 as [|b [|c t]]; try reflexivity.
                  cbn [sw2]. cbn in Hnm. exact Hnm.
        + destruct (a =? cGT) eqn:Eg.
          * apply N.eqb_eq in Eg. subst a.
            assert (Hk2 : (k < 2)%nat).
            { destruct k as [|[|k0]]; [lia|lia|]. cbn [cd_inv] in Hinv. destruct Hinv as [H1 _]. cbn in H1. discriminate. }
            rewrite cd_gt by assumption.
            rewrite IH; [|assumption|assumption|lia|exact I]. cbn [repeat app]. rewrite <- !app_assoc. reflexivity.
          * rewrite cd_other by assumption.
            rewrite IH; [|assumption|assumption|lia|exact I]. cbn [repeat app]. rewrite <- !app_assoc. reflexivity. }
    destruct s1 as [|b [|c t]]; [apply Hstep; reflexivity|apply Hstep; reflexivity|].
    cbn [cd_pass].
    destruct ((a =? cRSQB) && (b =? cRSQB) && (c =? cGT)) eqn:Em; [|apply Hstep; reflexivity].
    apply andb_true_iff in Em as [Em E3]. apply andb_true_iff in Em as [E1 E2].
    apply N.eqb_eq in E1, E2, E3. subst a b c.
    rewrite <- app_assoc, run_app, cd_split by assumption.
    inversion Hs1 as [|? ? _ Hs2]; subst. inversion Hs2 as [|? ? _ Hs3]; subst.
    rewrite IH; [|cbn in Hl; cbn; lia|assumption|lia|exact I].
    cbn [repeat app]. rewrite <- !app_assoc. reflexivity.
Qed.

Lemma run_cdopen ts acc k :
  run sCDOPEN (mkL ts (MText acc k)) = mkL ts (MCData acc 0).
Proof. reflexivity. Qed.

Theorem lex_cdata_toXml filtered s ts acc k :
  filter_covers filtered -> in_codespace s ->
  exists k', run (cdata_toXml filtered s) (mkL ts (MText acc k))
             = mkL ts (MText (acc ++ handle_unrepresentable filtered s) k').
Proof.
  intros Hf Hs. unfold cdata_toXml. destruct s as [|c s].
  - exists k. cbn. now rewrite app_nil_r.
  - exists 0%nat. rewrite cd_pass_eq. rewrite run_app, run_cdopen.
    rewrite (lex_cd_pass ts (List.length (handle_unrepresentable filtered (c :: s)))); try lia; try exact I.
    + reflexivity.
    + now apply handle_unrepresentable_chars.
Qed.
