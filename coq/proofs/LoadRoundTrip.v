(* LoadRoundTrip.v — C04 for the tables of the working tree: loading the four parts a document is saved as gives
   the document back (normalised as a parser normalises, generator replaced, the used automatic styles). *)
From Odf Require Import model.Base model.Chars model.XmlPrint model.XmlLex model.XmlTree model.Doc model.Inst model.LoadStyles model.Load model.LoadInst
  gen.GenChars gen.GenNs gen.GenStyleRefs proofs.XmlRoundTrip proofs.XmlInst proofs.DocProofs proofs.AutoStylesProofs proofs.AutoStylesExact proofs.DocInst
  proofs.LoadStylesProofs proofs.LoadProofs.

Definition cn := canon F.
Definition tv := toolsversion.

(* a section: the office:* element, no attributes, element children only *)
Definition sect (q : qname) (t : node) : Prop := exists ks, t = Elem q [] ks /\ forallb is_element ks = true.
Record sections_ok (d : odfdoc) : Prop := mkSO {
  so_meta : sect (q_off "meta") (d_meta d); so_scripts : sect (q_off "scripts") (d_scripts d);
  so_ffd : sect (q_off "font-face-decls") (d_ffd d); so_settings : sect (q_off "settings") (d_settings d);
  so_styles : sect (q_off "styles") (d_styles d); so_auto : sect (q_off "automatic-styles") (d_auto d);
  so_master : sect (q_off "master-styles") (d_master d); so_body : sect (q_off "body") (d_body d) }.

(* the general form: the eight office:* elements without attributes, holding anything at all *)
Definition named (q : qname) (t : node) : Prop := exists ks, t = Elem q [] ks.
Record sections_named (d : odfdoc) : Prop := mkSN {
  sn_meta : named (q_off "meta") (d_meta d); sn_scripts : named (q_off "scripts") (d_scripts d);
  sn_ffd : named (q_off "font-face-decls") (d_ffd d); sn_settings : named (q_off "settings") (d_settings d);
  sn_styles : named (q_off "styles") (d_styles d); sn_auto : named (q_off "automatic-styles") (d_auto d);
  sn_master : named (q_off "master-styles") (d_master d); sn_body : named (q_off "body") (d_body d) }.
Lemma sect_named q t : sect q t -> named q t.
Proof. intros [ks [E _]]. now exists ks. Qed.
Lemma sections_ok_named d : sections_ok d -> sections_named d.
Proof. intros [H1 H2 H3 H4 H5 H6 H7 H8]. constructor; now apply sect_named. Qed.

Definition used_c (d : odfdoc) := used_auto_styles RA [d_styles d; d_body d] (d_auto d).
Definition used_s (d : odfdoc) := used_auto_styles RA [d_master d] (d_auto d).
Definition csec (t : node) : node := match t with Elem q a ks => Elem q a (map cn ks) | t => t end.

(* the loaded document *)
Definition expected (d : odfdoc) : odfdoc :=
  mkDoc (d_mime d) (csec (d_meta (norm_gen tv d))) (csec (d_scripts d)) (csec (d_ffd d)) (csec (d_settings d)) (csec (d_styles d))
        (Elem (q_off "automatic-styles") [] (map cn (used_c d) ++ map cn (used_s d))) (csec (d_master d)) (csec (d_body d)).

(* in general: of the children of a section as a parser delivers them (CDATA is text, adjacent text merged) the loader
   keeps all when there is an element among them and none otherwise *)
Definition gk (ks : list node) : list node := keep (merge_text (map cn ks)).
Definition gsec (t : node) : node := match t with Elem q a ks => Elem q a (gk ks) | t => t end.
Definition expected_gen (d : odfdoc) : odfdoc :=
  mkDoc (d_mime d) (gsec (d_meta (norm_gen tv d))) (gsec (d_scripts d)) (gsec (d_ffd d)) (gsec (d_settings d)) (gsec (d_styles d))
        (Elem (q_off "automatic-styles") [] (map cn (used_c d) ++ map cn (used_s d))) (gsec (d_master d)) (gsec (d_body d)).

(* the parts of the saved package, as parsed *)
Definition p_settings (d : odfdoc) : option node := if has_kids (d_settings d) then Some (cn (settings_tree d)) else None.
Definition p_meta (d : odfdoc) : option node := Some (cn (meta_tree tv d)).
Definition p_content (d : odfdoc) : option node := Some (cn (content_tree RA d)).
Definition p_styles (d : odfdoc) : option node := Some (cn (styles_tree RA d)).

(* the section elements each part holds *)
Definition secs_settings (d : odfdoc) : list node := if has_kids (d_settings d) then [cn (d_settings d)] else [].
Definition secs_meta (d : odfdoc) : list node := [cn (d_meta (norm_gen tv d))].
Definition secs_content (d : odfdoc) : list node :=
  map cn (opt_kid (d_scripts d) ++ opt_kid (d_ffd d) ++ [Elem q_autostyles [] (used_c d); d_body d]).
Definition secs_styles (d : odfdoc) : list node :=
  map cn (opt_kid (d_ffd d) ++ [d_styles d] ++ [Elem q_autostyles [] (used_s d)] ++ opt_kid (d_master d)).
(* the names registered while loading, in order *)
Definition all_regs (d : odfdoc) : list str :=
  flat_map (sec_regs PnSettings) (secs_settings d) ++ flat_map (sec_regs PnMeta) (secs_meta d) ++
  flat_map (sec_regs PnContent) (secs_content d) ++ flat_map (sec_regs PnStyles) (secs_styles d).

Lemma cn_section q ks : forallb is_element ks = true -> cn (Elem q [] ks) = Elem q [] (map cn ks).
Proof. apply canon_section. Qed.
Lemma map_cn_elems ks : forallb is_element ks = true -> forallb is_element (map cn ks) = true.
Proof. intros H. rewrite forallb_forall in *. intros x Hx. apply in_map_iff in Hx as [y [<- Hy]]. unfold cn. rewrite canon_is_element. now apply H. Qed.
Lemma map_cn_nocdata ks : forallb (nocdata) (map cn ks) = true.
Proof. apply forallb_forall. intros x Hx. apply in_map_iff in Hx as [y [<- Hy]]. apply canon_nocdata. Qed.
Lemma good_cn_section q ks : forallb is_element ks = true -> good_section (cn (Elem q [] ks)).
Proof. intros H. rewrite (cn_section q ks H). intros q' a' ks' E. injection E as _ _ <-. apply map_cn_nocdata. Qed.
Lemma keep_cn ks : forallb is_element ks = true -> keep (map cn ks) = map cn ks.
Proof. intros H. apply keep_elems. now apply map_cn_elems. Qed.
Lemma cn_auto_kids q u : forallb is_element u = true -> cn (Elem q [] (auto_kids u)) = Elem q [] (map cn u).
Proof. intros H. destruct u as [|x r]; [reflexivity|]. cbn [auto_kids]. now apply cn_section. Qed.

Lemma opt_kid_elem t y : In y (opt_kid t) -> y = t.
Proof. unfold opt_kid. destruct (has_kids t); [intros [H|[]]; now symmetry|intros []]. Qed.
Lemma used_elements segs auto : forallb is_element (kids_of auto) = true -> forallb is_element (used_auto_styles RA segs auto) = true.
Proof.
  intros H. rewrite forallb_forall in *. intros e He. apply H. now apply (written_styles_are_the_documents RA segs auto).
Qed.

(* the selected automatic styles are elements, whatever else office:automatic-styles holds *)
Lemma used_elems segs auto : forallb is_element (used_auto_styles RA segs auto) = true.
Proof.
  apply forallb_forall. intros e He. destruct (used_exact RA segs auto) as (sel & names & E & L & _ & Hsel). rewrite E in He.
  apply pick_selected in He as [i [Hi Hs]]. now apply (Hsel i e Hi).
Qed.
Lemma good_cn t : good_section (cn t).
Proof.
  intros q a ks E. pose proof (canon_nocdata F t) as H. fold cn in H. rewrite E in H. exact H.
Qed.
Lemma cn_named q ks : cn (Elem q [] ks) = Elem q [] (merge_text (map cn ks)).
Proof. reflexivity. Qed.
Lemma gk_elems ks : forallb is_element ks = true -> gk ks = map cn ks.
Proof. intros H. unfold gk. rewrite (merge_text_elems _ (map_cn_elems ks H)). now apply keep_cn. Qed.

(* routing of the section names *)
Lemma R_set : route PnSettings (q_off "settings") = Some SSettings. Proof. vm_compute. reflexivity. Qed.
Lemma R_meta : route PnMeta (q_off "meta") = Some SMeta. Proof. vm_compute. reflexivity. Qed.
Lemma R_c_scripts : route PnContent (q_off "scripts") = Some SScripts. Proof. vm_compute. reflexivity. Qed.
Lemma R_c_ffd : route PnContent (q_off "font-face-decls") = None. Proof. vm_compute. reflexivity. Qed.
Lemma R_c_auto : route PnContent (q_off "automatic-styles") = Some SAuto. Proof. vm_compute. reflexivity. Qed.
Lemma R_c_body : route PnContent (q_off "body") = Some SBody. Proof. vm_compute. reflexivity. Qed.
Lemma R_s_ffd : route PnStyles (q_off "font-face-decls") = Some SFfd. Proof. vm_compute. reflexivity. Qed.
Lemma R_s_styles : route PnStyles (q_off "styles") = Some SStyles. Proof. vm_compute. reflexivity. Qed.
Lemma R_s_auto : route PnStyles (q_off "automatic-styles") = Some SAuto. Proof. vm_compute. reflexivity. Qed.
Lemma R_s_master : route PnStyles (q_off "master-styles") = Some SMaster. Proof. vm_compute. reflexivity. Qed.
Lemma q_auto_eq : q_autostyles = q_off "automatic-styles". Proof. reflexivity. Qed.

Lemma sec_apply_some pn d q a ks s : route pn q = Some s -> sec_apply pn d (Elem q a ks) = add_to d s (keep ks).
Proof. intros H. unfold sec_apply. now rewrite H. Qed.
Lemma sec_apply_none pn d q a ks : route pn q = None -> sec_apply pn d (Elem q a ks) = d.
Proof. intros H. unfold sec_apply. now rewrite H. Qed.

(* the part trees: a root whose children are the section elements *)
Lemma good_map_cn l : Forall good_section (map cn l).
Proof. apply Forall_forall. intros x Hx. apply in_map_iff in Hx as [y [<- _]]. apply good_cn. Qed.

Lemma part_content d : sections_named d -> exists q a, cn (content_tree RA d) = Elem q a (secs_content d) /\ Forall good_section (secs_content d).
Proof.
  intros [_ [ksc Esc] [kff Eff] _ [kst Est] [kau Eau] _ [kbo Ebo]].
  assert (G : Forall good_section (secs_content d)) by apply good_map_cn.
  eexists. eexists. split; [|exact G]. unfold content_tree. unfold cn at 1. cbn [canon]. fold cn. f_equal.
  unfold secs_content. apply merge_text_elems. apply forallb_forall. intros x Hx. apply in_map_iff in Hx as [y [<- Hy]].
  unfold cn. rewrite canon_is_element. rewrite Esc, Eff, Ebo in Hy.
  repeat (apply in_app_or in Hy as [Hy|Hy]); try (apply opt_kid_elem in Hy; subst y; reflexivity). destruct Hy as [<-|[<-|[]]]; reflexivity.
Qed.
Lemma part_styles d : sections_named d -> exists q a, cn (styles_tree RA d) = Elem q a (secs_styles d) /\ Forall good_section (secs_styles d).
Proof.
  intros [_ _ [kff Eff] _ [kst Est] [kau Eau] [kma Ema] _].
  pose proof (used_elems [d_master d] (d_auto d)) as Hu. fold (used_s d) in Hu.
  assert (G : Forall good_section (secs_styles d)) by apply good_map_cn.
  eexists. eexists. split; [|exact G]. unfold styles_tree. unfold cn at 1. cbn [canon]. fold cn. f_equal.
  rewrite !map_app. cbn [map]. fold (used_s d). rewrite (cn_auto_kids _ _ Hu), <- (cn_section _ _ Hu).
  replace (map cn (opt_kid (d_ffd d)) ++ [cn (d_styles d)] ++ [cn (Elem q_autostyles [] (used_s d))] ++ map cn (opt_kid (d_master d))) with (secs_styles d)
    by (unfold secs_styles; rewrite !map_app; reflexivity).
  apply merge_text_elems. apply forallb_forall. intros x Hx. unfold secs_styles in Hx. apply in_map_iff in Hx as [y [<- Hy]].
  unfold cn. rewrite canon_is_element. rewrite Eff, Est, Ema in Hy.
  repeat (apply in_app_or in Hy as [Hy|Hy]); try (apply opt_kid_elem in Hy; subst y; reflexivity); destruct Hy as [<-|[]]; reflexivity.
Qed.
Lemma part_meta d : sections_named d -> exists q a, cn (meta_tree tv d) = Elem q a (secs_meta d) /\ Forall good_section (secs_meta d).
Proof.
  intros [[kme Eme] _ _ _ _ _ _ _].
  assert (E : d_meta (norm_gen tv d) = Elem (q_off "meta") [] (filter (fun c => negb (is_generator c)) kme ++ [Elem q_generator [] [TextN tv]])).
  { unfold norm_gen. cbn [d_meta]. now rewrite Eme. }
  assert (G : Forall good_section (secs_meta d)) by apply (good_map_cn [d_meta (norm_gen tv d)]).
  eexists. eexists. split; [|exact G]. unfold meta_tree. unfold cn at 1. cbn [canon map]. fold cn. f_equal.
  fold (secs_meta d). apply merge_text_elems. unfold secs_meta. rewrite E. reflexivity.
Qed.
Lemma part_settings d : sections_named d -> has_kids (d_settings d) = true ->
  exists q a, cn (settings_tree d) = Elem q a (secs_settings d) /\ Forall good_section (secs_settings d).
Proof.
  intros [_ _ _ [kse Ese] _ _ _ _] Hk.
  assert (G : Forall good_section (secs_settings d)) by (unfold secs_settings; rewrite Hk; apply (good_map_cn [d_settings d])).
  eexists. eexists. split; [|exact G]. unfold settings_tree. unfold cn at 1. cbn [canon map]. fold cn. f_equal.
  replace [cn (d_settings d)] with (secs_settings d) by (unfold secs_settings; now rewrite Hk).
  apply merge_text_elems. unfold secs_settings. rewrite Hk, Ese. reflexivity.
Qed.

Definition routed (d : odfdoc) : odfdoc :=
  fold_left (sec_apply PnStyles) (secs_styles d) (fold_left (sec_apply PnContent) (secs_content d)
    (fold_left (sec_apply PnMeta) (secs_meta d) (fold_left (sec_apply PnSettings) (secs_settings d) (empty_doc (d_mime d))))).

Lemma load_is_routed d : sections_named d -> NoDup (all_regs d) ->
  i_load_parts (d_mime d) (p_settings d) (p_meta d) (p_content d) (p_styles d) = routed d.
Proof.
  intros HS Hd. unfold i_load_parts, load_parts, routed, all_regs in *.
  destruct (part_meta d HS) as (q2 & a2 & E2 & G2). destruct (part_content d HS) as (q3 & a3 & E3 & G3). destruct (part_styles d HS) as (q4 & a4 & E4 & G4).
  unfold p_meta, p_content, p_styles. rewrite E2, E3, E4. cbn [load_part].
  (* settings.xml, if it is there *)
  assert (S1 : load_part i_redirected PnSettings (s0, empty_doc (d_mime d)) (p_settings d) =
               (mkLS (flat_map (sec_regs PnSettings) (secs_settings d)) [], fold_left (sec_apply PnSettings) (secs_settings d) (empty_doc (d_mime d)))).
  { unfold p_settings. destruct (has_kids (d_settings d)) eqn:Hk.
    - destruct (part_settings d HS Hk) as (q1 & a1 & E1 & G1). rewrite E1. cbn [load_part].
      rewrite (load_sections_id i_redirected PnSettings (secs_settings d) s0 _ (eq_refl : ls_fix s0 = []) G1); [reflexivity|].
      cbn [ls_names s0 app]. now apply NoDup_app_l in Hd.
    - unfold secs_settings. rewrite Hk. reflexivity. }
  rewrite S1. clear S1.
  set (n1 := flat_map (sec_regs PnSettings) (secs_settings d)) in *. set (n2 := flat_map (sec_regs PnMeta) (secs_meta d)) in *.
  set (n3 := flat_map (sec_regs PnContent) (secs_content d)) in *. set (n4 := flat_map (sec_regs PnStyles) (secs_styles d)) in *.
  rewrite (load_sections_id i_redirected PnMeta (secs_meta d) (mkLS n1 []) _ eq_refl G2)
    by (cbn [ls_names]; fold n2; rewrite app_assoc in Hd; now apply NoDup_app_l in Hd).
  cbn [ls_names]. fold n2.
  rewrite (load_sections_id i_redirected PnContent (secs_content d) (mkLS (n1 ++ n2) []) _ eq_refl G3)
    by (cbn [ls_names]; fold n3; rewrite <- app_assoc; rewrite !app_assoc in Hd; apply NoDup_app_l in Hd; now rewrite <- !app_assoc in Hd).
  cbn [ls_names]. fold n3.
  rewrite (load_sections_id i_redirected PnStyles (secs_styles d) (mkLS ((n1 ++ n2) ++ n3) []) _ eq_refl G4)
    by (cbn [ls_names]; fold n4; now rewrite <- !app_assoc).
  reflexivity.
Qed.

Lemma add_kids_empty q ks : add_kids (Elem q [] []) ks = Elem q [] ks.
Proof. reflexivity. Qed.
Lemma add_kids_nil t : is_element t = true -> add_kids t [] = t.
Proof. destruct t; try discriminate. intros _. cbn. now rewrite app_nil_r. Qed.

(* what the sections of one part do to a document whose sections are still empty *)
Definition D0 (m : str) (me sc ff se st au ma bo : list node) : odfdoc :=
  mkDoc m (Elem (q_off "meta") [] me) (Elem (q_off "scripts") [] sc) (Elem (q_off "font-face-decls") [] ff) (Elem (q_off "settings") [] se)
        (Elem (q_off "styles") [] st) (Elem (q_off "automatic-styles") [] au) (Elem (q_off "master-styles") [] ma) (Elem (q_off "body") [] bo).

Lemma opt_fold pn d q ks s : route pn q = Some s -> forallb is_element ks = true ->
  fold_left (sec_apply pn) (map cn (opt_kid (Elem q [] ks))) d = match ks with [] => d | _ => add_to d s (map cn ks) end.
Proof.
  intros R H. unfold opt_kid, has_kids. cbn [kids_of]. destruct ks as [|x r]; [reflexivity|].
  cbn [map fold_left]. rewrite (cn_section q (x :: r) H), (sec_apply_some pn d q [] _ s R), (keep_cn _ H). reflexivity.
Qed.
Lemma opt_fold_none pn d q ks : route pn q = None -> forallb is_element ks = true ->
  fold_left (sec_apply pn) (map cn (opt_kid (Elem q [] ks))) d = d.
Proof.
  intros R H. unfold opt_kid, has_kids. cbn [kids_of]. destruct ks as [|x r]; [reflexivity|].
  cbn [map fold_left]. rewrite (cn_section q (x :: r) H). now apply sec_apply_none.
Qed.

Lemma routed_expected d : sections_ok d -> routed d = expected d.
Proof.
  intros HS. pose proof HS as [[kme [Eme Hme]] [ksc [Esc Hsc]] [kff [Eff Hff]] [kse [Ese Hse]] [kst [Est Hst]] [kau [Eau Hau]] [kma [Ema Hma]] [kbo [Ebo Hbo]]].
  assert (Huc : forallb is_element (used_c d) = true) by (apply used_elements; rewrite Eau; exact Hau).
  assert (Hus : forallb is_element (used_s d) = true) by (apply used_elements; rewrite Eau; exact Hau).
  set (gm := filter (fun c => negb (is_generator c)) kme ++ [Elem q_generator [] [TextN tv]]).
  assert (Emeta : d_meta (norm_gen tv d) = Elem (q_off "meta") [] gm) by (unfold norm_gen; cbn [d_meta]; now rewrite Eme).
  assert (Hmeta : forallb is_element gm = true).
  { unfold gm. rewrite forallb_app. cbn. rewrite andb_true_r. rewrite forallb_forall in *. intros x Hx. apply filter_In in Hx as [Hx _]. now apply Hme. }
  (* settings.xml *)
  assert (S1 : fold_left (sec_apply PnSettings) (secs_settings d) (empty_doc (d_mime d)) = D0 (d_mime d) [] [] [] (map cn kse) [] [] [] []).
  { unfold secs_settings. rewrite Ese. unfold has_kids. cbn [kids_of]. destruct kse as [|x r]; [reflexivity|].
    cbn [fold_left]. rewrite (cn_section _ _ Hse), (sec_apply_some PnSettings _ (q_off "settings") [] _ SSettings R_set), (keep_cn _ Hse). reflexivity. }
  (* meta.xml *)
  assert (S2 : fold_left (sec_apply PnMeta) (secs_meta d) (D0 (d_mime d) [] [] [] (map cn kse) [] [] [] []) = D0 (d_mime d) (map cn gm) [] [] (map cn kse) [] [] [] []).
  { unfold secs_meta. rewrite Emeta. cbn [fold_left]. rewrite (cn_section _ _ Hmeta), (sec_apply_some PnMeta _ (q_off "meta") [] _ SMeta R_meta), (keep_cn _ Hmeta). reflexivity. }
  (* content.xml *)
  assert (S3 : fold_left (sec_apply PnContent) (secs_content d) (D0 (d_mime d) (map cn gm) [] [] (map cn kse) [] [] [] []) =
               D0 (d_mime d) (map cn gm) (map cn ksc) [] (map cn kse) [] (map cn (used_c d)) [] (map cn kbo)).
  { unfold secs_content. rewrite Esc, Eff, Ebo, !map_app, !fold_left_app.
    rewrite (opt_fold PnContent _ (q_off "scripts") ksc SScripts R_c_scripts Hsc), (opt_fold_none PnContent _ (q_off "font-face-decls") kff R_c_ffd Hff).
    cbn [map fold_left]. rewrite q_auto_eq, (cn_section _ _ Huc), (cn_section _ _ Hbo).
    rewrite (sec_apply_some PnContent _ (q_off "automatic-styles") [] _ SAuto R_c_auto), (sec_apply_some PnContent _ (q_off "body") [] _ SBody R_c_body), (keep_cn _ Huc), (keep_cn _ Hbo).
    destruct ksc as [|x r]; reflexivity. }
  (* styles.xml *)
  assert (S4 : fold_left (sec_apply PnStyles) (secs_styles d) (D0 (d_mime d) (map cn gm) (map cn ksc) [] (map cn kse) [] (map cn (used_c d)) [] (map cn kbo)) =
               D0 (d_mime d) (map cn gm) (map cn ksc) (map cn kff) (map cn kse) (map cn kst) (map cn (used_c d) ++ map cn (used_s d)) (map cn kma) (map cn kbo)).
  { unfold secs_styles. rewrite Eff, Est, Ema, !map_app, !fold_left_app.
    rewrite (opt_fold PnStyles _ (q_off "font-face-decls") kff SFfd R_s_ffd Hff).
    cbn [map fold_left]. rewrite q_auto_eq, (cn_section _ _ Hst), (cn_section _ _ Hus).
    rewrite (sec_apply_some PnStyles _ (q_off "styles") [] _ SStyles R_s_styles), (sec_apply_some PnStyles _ (q_off "automatic-styles") [] _ SAuto R_s_auto), (keep_cn _ Hst), (keep_cn _ Hus).
    rewrite (opt_fold PnStyles _ (q_off "master-styles") kma SMaster R_s_master Hma).
    destruct kff as [|x r], kma as [|y r2]; reflexivity. }
  unfold routed. rewrite S1, S2, S3, S4. unfold expected. rewrite Emeta, Esc, Eff, Ese, Est, Ema, Ebo. reflexivity.
Qed.

(* ---- the general form: sections with any children ---- *)
Lemma opt_fold_gen pn d q ks s : route pn q = Some s ->
  fold_left (sec_apply pn) (map cn (opt_kid (Elem q [] ks))) d = match ks with [] => d | _ => add_to d s (gk ks) end.
Proof.
  intros R. unfold opt_kid, has_kids. cbn [kids_of]. destruct ks as [|x r]; [reflexivity|].
  cbn [map fold_left]. rewrite cn_named, (sec_apply_some pn d q [] _ s R). reflexivity.
Qed.
Lemma opt_fold_none_gen pn d q ks : route pn q = None -> fold_left (sec_apply pn) (map cn (opt_kid (Elem q [] ks))) d = d.
Proof.
  intros R. unfold opt_kid, has_kids. cbn [kids_of]. destruct ks as [|x r]; [reflexivity|].
  cbn [map fold_left]. rewrite cn_named. now apply sec_apply_none.
Qed.

Lemma routed_gen d : sections_named d -> routed d = expected_gen d.
Proof.
  intros [[kme Eme] [ksc Esc] [kff Eff] [kse Ese] [kst Est] [kau Eau] [kma Ema] [kbo Ebo]].
  pose proof (used_elems [d_styles d; d_body d] (d_auto d)) as Huc. fold (used_c d) in Huc.
  pose proof (used_elems [d_master d] (d_auto d)) as Hus. fold (used_s d) in Hus.
  set (gm := filter (fun c => negb (is_generator c)) kme ++ [Elem q_generator [] [TextN tv]]).
  assert (Emeta : d_meta (norm_gen tv d) = Elem (q_off "meta") [] gm) by (unfold norm_gen; cbn [d_meta]; now rewrite Eme).
  assert (S1 : fold_left (sec_apply PnSettings) (secs_settings d) (empty_doc (d_mime d)) = D0 (d_mime d) [] [] [] (gk kse) [] [] [] []).
  { unfold secs_settings. rewrite Ese. unfold has_kids. cbn [kids_of]. destruct kse as [|x r]; [reflexivity|].
    cbn [fold_left]. rewrite cn_named, (sec_apply_some PnSettings _ (q_off "settings") [] _ SSettings R_set). reflexivity. }
  assert (S2 : fold_left (sec_apply PnMeta) (secs_meta d) (D0 (d_mime d) [] [] [] (gk kse) [] [] [] []) = D0 (d_mime d) (gk gm) [] [] (gk kse) [] [] [] []).
  { unfold secs_meta. rewrite Emeta. cbn [fold_left]. rewrite cn_named, (sec_apply_some PnMeta _ (q_off "meta") [] _ SMeta R_meta). reflexivity. }
  assert (S3 : fold_left (sec_apply PnContent) (secs_content d) (D0 (d_mime d) (gk gm) [] [] (gk kse) [] [] [] []) =
               D0 (d_mime d) (gk gm) (gk ksc) [] (gk kse) [] (map cn (used_c d)) [] (gk kbo)).
  { unfold secs_content. rewrite Esc, Eff, Ebo, !map_app, !fold_left_app.
    rewrite (opt_fold_gen PnContent _ (q_off "scripts") ksc SScripts R_c_scripts), (opt_fold_none_gen PnContent _ (q_off "font-face-decls") kff R_c_ffd).
    cbn [map fold_left]. rewrite q_auto_eq, (cn_section _ _ Huc), cn_named.
    rewrite (sec_apply_some PnContent _ (q_off "automatic-styles") [] _ SAuto R_c_auto), (sec_apply_some PnContent _ (q_off "body") [] _ SBody R_c_body), (keep_cn _ Huc).
    destruct ksc as [|x r]; reflexivity. }
  assert (S4 : fold_left (sec_apply PnStyles) (secs_styles d) (D0 (d_mime d) (gk gm) (gk ksc) [] (gk kse) [] (map cn (used_c d)) [] (gk kbo)) =
               D0 (d_mime d) (gk gm) (gk ksc) (gk kff) (gk kse) (gk kst) (map cn (used_c d) ++ map cn (used_s d)) (gk kma) (gk kbo)).
  { unfold secs_styles. rewrite Eff, Est, Ema, !map_app, !fold_left_app.
    rewrite (opt_fold_gen PnStyles _ (q_off "font-face-decls") kff SFfd R_s_ffd).
    cbn [map fold_left]. rewrite q_auto_eq, cn_named, (cn_section _ _ Hus).
    rewrite (sec_apply_some PnStyles _ (q_off "styles") [] _ SStyles R_s_styles), (sec_apply_some PnStyles _ (q_off "automatic-styles") [] _ SAuto R_s_auto), (keep_cn _ Hus).
    rewrite (opt_fold_gen PnStyles _ (q_off "master-styles") kma SMaster R_s_master).
    destruct kff as [|x r], kma as [|y r2]; reflexivity. }
  unfold routed. rewrite S1, S2, S3, S4. unfold expected_gen. rewrite Emeta, Esc, Eff, Ese, Est, Ema, Ebo. reflexivity.
Qed.

(* with element-only sections the general form is the one above *)
Lemma expected_gen_strict d : sections_ok d -> expected_gen d = expected d.
Proof. intros HS. rewrite <- (routed_gen d (sections_ok_named d HS)). now apply routed_expected. Qed.

Theorem load_saved_gen d : sections_named d -> NoDup (all_regs d) ->
  i_load_doc (d_mime d) (p_settings d) (p_meta d) (p_content d) (p_styles d) = finish (expected_gen d).
Proof.
  intros HS Hd. unfold i_load_doc, load_doc. fold (i_load_parts (d_mime d) (p_settings d) (p_meta d) (p_content d) (p_styles d)).
  rewrite (load_is_routed d HS Hd). f_equal. now apply routed_gen.
Qed.
Theorem save_load_roundtrip_gen env d : sections_named d -> NoDup (all_regs d) ->
  doc_ok F env (settings_tree d) = true -> doc_ok F env (meta_tree tv d) = true ->
  doc_ok F env (content_tree RA d) = true -> doc_ok F env (styles_tree RA d) = true ->
  i_load_doc (d_mime d) (if has_kids (d_settings d) then xml_parse (i_settingsxml env d) else None)
             (xml_parse (snd (i_metaxml env d))) (xml_parse (i_contentxml env d)) (xml_parse (i_stylesxml env d)) = finish (expected_gen d).
Proof.
  intros HS Hd O1 O2 O3 O4. rewrite (settings_roundtrip env d O1), (meta_roundtrip env d O2), (content_roundtrip env d O3), (styles_roundtrip env d O4).
  apply (load_saved_gen d HS Hd).
Qed.

Theorem load_saved d : sections_ok d -> NoDup (all_regs d) ->
  i_load_doc (d_mime d) (p_settings d) (p_meta d) (p_content d) (p_styles d) = finish (expected d).
Proof.
  intros HS Hd. unfold i_load_doc, load_doc. fold (i_load_parts (d_mime d) (p_settings d) (p_meta d) (p_content d) (p_styles d)).
  rewrite (load_is_routed d (sections_ok_named d HS) Hd). f_equal. now apply routed_expected.
Qed.

(* from the bytes: each part parses to the tree it serialises (C01/C02), and the loader takes it from there *)
Theorem save_load_roundtrip env d : sections_ok d -> NoDup (all_regs d) ->
  doc_ok F env (settings_tree d) = true -> doc_ok F env (meta_tree tv d) = true ->
  doc_ok F env (content_tree RA d) = true -> doc_ok F env (styles_tree RA d) = true ->
  i_load_doc (d_mime d) (if has_kids (d_settings d) then xml_parse (i_settingsxml env d) else None)
             (xml_parse (snd (i_metaxml env d))) (xml_parse (i_contentxml env d)) (xml_parse (i_stylesxml env d)) = finish (expected d).
Proof.
  intros HS Hd O1 O2 O3 O4. rewrite (settings_roundtrip env d O1), (meta_roundtrip env d O2), (content_roundtrip env d O3), (styles_roundtrip env d O4).
  apply (load_saved d HS Hd).
Qed.

(* exactly one generator after the round trip *)
Definition count_gen (t : node) : nat := List.length (filter is_generator (kids_of t)).
Lemma is_generator_cn x : is_generator (cn x) = is_generator x.
Proof. destruct x; reflexivity. Qed.
Lemma no_generator_left l : filter is_generator (map cn (filter (fun c => negb (is_generator c)) l)) = [].
Proof.
  induction l as [|x r IH]; [reflexivity|]. cbn [filter]. destruct (is_generator x) eqn:E; cbn [negb]; [exact IH|].
  cbn [map filter]. now rewrite is_generator_cn, E.
Qed.
Theorem one_generator d : sections_ok d -> count_gen (d_meta (expected d)) = 1%nat.
Proof.
  intros [[kme [Eme Hme]] _ _ _ _ _ _ _]. unfold expected, count_gen. cbn [d_meta]. unfold norm_gen. cbn [d_meta]. rewrite Eme.
  cbn [replace_generator csec kids_of]. rewrite map_app. cbn [map]. rewrite filter_app. cbn [filter]. rewrite is_generator_cn.
  assert (G : is_generator (Elem q_generator [] [TextN tv]) = true) by reflexivity. rewrite G. rewrite app_length. cbn [List.length].
  now rewrite no_generator_left.
Qed.

(* non-vacuity: a small document with a common style, two automatic styles (one used by the body, one by a master
   page), text with markup characters; the whole pipeline evaluated *)
Definition sTEXTNS := s2l "urn:oasis:names:tc:opendocument:xmlns:text:1.0".
Definition ex_env : nsenv := [(sOFFICENS, s2l "office"); (sMETANS, s2l "meta"); (sSTYLENS, s2l "style"); (sTEXTNS, s2l "text")].
Definition ex_style (n : string) : node := Elem (sSTYLENS, s2l "style") [((sSTYLENS, s2l "name"), s2l n); ((sSTYLENS, s2l "family"), s2l "paragraph")] [].
Definition ex_p (n : string) (t : string) : node := Elem (sTEXTNS, s2l "p") [((sTEXTNS, s2l "style-name"), s2l n)] [TextN (s2l t)].
Definition ex_d : odfdoc :=
  mkDoc (s2l "application/vnd.oasis.opendocument.text")
    (Elem (q_off "meta") [] [Elem q_generator [] [TextN (s2l "Other/1.0")]])
    (Elem (q_off "scripts") [] []) (Elem (q_off "font-face-decls") [] [])
    (Elem (q_off "settings") [] [])
    (Elem (q_off "styles") [] [ex_style "Standard"])
    (Elem (q_off "automatic-styles") [] [ex_style "P1"; ex_style "P2"; ex_style "P3"])
    (Elem (q_off "master-styles") [] [Elem (sSTYLENS, s2l "master-page") [((sSTYLENS, s2l "name"), s2l "M")] [ex_p "P2" "head & <er>"]])
    (Elem (q_off "body") [] [Elem (q_off "text") [] [ex_p "P1" "a < b"; ex_p "Standard" "x"]]).
Example ex_hyps : NoDup (all_regs ex_d) /\ doc_ok F ex_env (content_tree RA ex_d) = true /\ doc_ok F ex_env (styles_tree RA ex_d) = true /\
  doc_ok F ex_env (meta_tree tv ex_d) = true.
Proof.
  split; [|split; [|split]]; try (vm_compute; reflexivity).
  assert (E : all_regs ex_d = [s2l "P1"; s2l "Standard"; s2l "P2"]) by (vm_compute; reflexivity). rewrite E.
  repeat constructor; cbn; intuition discriminate.
Qed.
Example ex_runs :
  i_load_doc (d_mime ex_d) None (xml_parse (snd (i_metaxml ex_env ex_d))) (xml_parse (i_contentxml ex_env ex_d)) (xml_parse (i_stylesxml ex_env ex_d)) = finish (expected ex_d).
Proof. vm_compute. reflexivity. Qed.

(* ================= C05: any package ================= *)
Definition secs_of (p : option node) : list node := match p with Some (Elem _ _ secs) => secs | _ => [] end.
Definition part_ok (p : option node) : Prop := Forall good_section (secs_of p).
Definition any_regs (se me co st : option node) : list str :=
  flat_map (sec_regs PnSettings) (secs_of se) ++ flat_map (sec_regs PnMeta) (secs_of me) ++
  flat_map (sec_regs PnContent) (secs_of co) ++ flat_map (sec_regs PnStyles) (secs_of st).
Definition loaded_any (mime : str) (se me co st : option node) : odfdoc :=
  fold_left (sec_apply PnStyles) (secs_of st) (fold_left (sec_apply PnContent) (secs_of co)
    (fold_left (sec_apply PnMeta) (secs_of me) (fold_left (sec_apply PnSettings) (secs_of se) (empty_doc mime)))).

Lemma load_part_secs pn acc p : load_part i_redirected pn acc p = fold_left (load_section i_redirected pn) (secs_of p) acc.
Proof. destruct p as [[q a secs|t|t]|]; reflexivity. Qed.

(* whatever the parts hold - any root, any order and number of sections, text between them, unknown elements - as long as
   no registered style name occurs twice *)
Theorem load_any mime se me co st : part_ok se -> part_ok me -> part_ok co -> part_ok st -> NoDup (any_regs se me co st) ->
  i_load_doc mime se me co st = finish (loaded_any mime se me co st).
Proof.
  intros G1 G2 G3 G4 Hd. unfold i_load_doc, load_doc. f_equal. unfold load_parts, loaded_any, any_regs in *. rewrite !load_part_secs.
  set (n1 := flat_map (sec_regs PnSettings) (secs_of se)) in *. set (n2 := flat_map (sec_regs PnMeta) (secs_of me)) in *.
  set (n3 := flat_map (sec_regs PnContent) (secs_of co)) in *. set (n4 := flat_map (sec_regs PnStyles) (secs_of st)) in *.
  rewrite (load_sections_id i_redirected PnSettings (secs_of se) s0 _ (eq_refl : ls_fix s0 = []) G1) by (cbn [ls_names s0 app]; fold n1; now apply NoDup_app_l in Hd).
  cbn [ls_names s0 app]. fold n1.
  rewrite (load_sections_id i_redirected PnMeta (secs_of me) (mkLS n1 []) _ eq_refl G2) by (cbn [ls_names]; fold n2; rewrite app_assoc in Hd; now apply NoDup_app_l in Hd).
  cbn [ls_names]. fold n2.
  rewrite (load_sections_id i_redirected PnContent (secs_of co) (mkLS (n1 ++ n2) []) _ eq_refl G3)
    by (cbn [ls_names]; fold n3; rewrite <- app_assoc; rewrite !app_assoc in Hd; apply NoDup_app_l in Hd; now rewrite <- !app_assoc in Hd).
  cbn [ls_names]. fold n3.
  rewrite (load_sections_id i_redirected PnStyles (secs_of st) (mkLS ((n1 ++ n2) ++ n3) []) _ eq_refl G4) by (cbn [ls_names]; fold n4; now rewrite <- !app_assoc).
  reflexivity.
Qed.

(* what each section of the loaded document holds: the kept children of the source sections routed to it, in load order *)
Definition get_sec (s : secid) (d : odfdoc) : node :=
  match s with SMeta => d_meta d | SScripts => d_scripts d | SFfd => d_ffd d | SSettings => d_settings d
             | SStyles => d_styles d | SAuto => d_auto d | SMaster => d_master d | SBody => d_body d end.
Definition secid_eqb (a b : secid) : bool :=
  match a, b with SMeta, SMeta | SScripts, SScripts | SFfd, SFfd | SSettings, SSettings | SStyles, SStyles | SAuto, SAuto | SMaster, SMaster | SBody, SBody => true | _, _ => false end.
Definition kids_routed (pn : partname) (sid : secid) (secs : list node) : list node :=
  flat_map (fun sec => match sec with
                       | Elem q _ ks => match route pn q with Some s => if secid_eqb s sid then keep ks else [] | None => [] end
                       | _ => [] end) secs.
Lemma get_add sid d s ks : get_sec sid (add_to d s ks) = if secid_eqb s sid then add_kids (get_sec sid d) ks else get_sec sid d.
Proof. destruct sid, s; reflexivity. Qed.
Lemma add_kids_app t a b : add_kids (add_kids t a) b = add_kids t (a ++ b).
Proof. destruct t; cbn; [now rewrite app_assoc|reflexivity|reflexivity]. Qed.
Lemma add_kids_nil' t : is_element t = true -> add_kids t [] = t.
Proof. destruct t; try discriminate. intros _. cbn. now rewrite app_nil_r. Qed.
Lemma is_element_add t ks : is_element (add_kids t ks) = is_element t.
Proof. destruct t; reflexivity. Qed.
Lemma fold_apply_section pn sid secs : forall d, is_element (get_sec sid d) = true ->
  get_sec sid (fold_left (sec_apply pn) secs d) = add_kids (get_sec sid d) (kids_routed pn sid secs).
Proof.
  induction secs as [|sec r IH]; intros d He; cbn [fold_left kids_routed flat_map].
  - now rewrite add_kids_nil'.
  - fold (kids_routed pn sid r). destruct sec as [q a ks|t|t]; cbn [sec_apply]; try (cbn [app]; now apply IH).
    destruct (route pn q) as [s|]; [|cbn [app]; now apply IH].
    rewrite IH by (rewrite get_add; destruct (secid_eqb s sid); [now rewrite is_element_add|exact He]).
    rewrite get_add. destruct (secid_eqb s sid); [now rewrite add_kids_app|reflexivity].
Qed.

Theorem loaded_section mime se me co st sid :
  get_sec sid (loaded_any mime se me co st) =
  Elem (sec_q sid) [] (kids_routed PnSettings sid (secs_of se) ++ kids_routed PnMeta sid (secs_of me) ++
                      kids_routed PnContent sid (secs_of co) ++ kids_routed PnStyles sid (secs_of st)).
Proof.
  unfold loaded_any.
  assert (E0 : get_sec sid (empty_doc mime) = Elem (sec_q sid) [] []) by (destruct sid; reflexivity).
  assert (H1 : is_element (get_sec sid (empty_doc mime)) = true) by (now rewrite E0).
  pose proof (fold_apply_section PnSettings sid (secs_of se) _ H1) as F1.
  assert (H2 : is_element (get_sec sid (fold_left (sec_apply PnSettings) (secs_of se) (empty_doc mime))) = true) by (now rewrite F1, is_element_add).
  pose proof (fold_apply_section PnMeta sid (secs_of me) _ H2) as F2.
  assert (H3 : is_element (get_sec sid (fold_left (sec_apply PnMeta) (secs_of me) (fold_left (sec_apply PnSettings) (secs_of se) (empty_doc mime)))) = true) by (now rewrite F2, is_element_add).
  pose proof (fold_apply_section PnContent sid (secs_of co) _ H3) as F3.
  assert (H4 : is_element (get_sec sid (fold_left (sec_apply PnContent) (secs_of co) (fold_left (sec_apply PnMeta) (secs_of me) (fold_left (sec_apply PnSettings) (secs_of se) (empty_doc mime))))) = true) by (now rewrite F3, is_element_add).
  rewrite (fold_apply_section PnStyles sid (secs_of st) _ H4), F3, F2, F1, E0, !add_kids_app. reflexivity.
Qed.

(* the last step (identical automatic styles kept once) touches the automatic styles only *)
Theorem finish_section sid d : sid <> SAuto -> get_sec sid (finish d) = get_sec sid d.
Proof. destruct sid; intros H; try reflexivity. contradiction. Qed.
Theorem finish_auto d q a ks : d_auto d = Elem q a ks -> d_auto (finish d) = Elem q a (dedupe [] ks).
Proof. intros E. unfold finish. cbn [d_auto]. now rewrite E. Qed.
(* and nothing at all when no two named automatic styles share element type and name *)
Definition auto_key (t : node) : option (qname * str) :=
  match t with Elem q a _ => match get_att q_stylename a with Some n => Some (q, n) | None => None end | _ => None end.

(* the font declarations of content.xml never reach the document; those of styles.xml do *)
Theorem content_font_decls_skipped q a ks : qname_eqb q (q_off "font-face-decls") = true -> kids_routed PnContent SFfd [Elem q a ks] = [].
Proof.
  intros H. apply XmlResolveProofs.qname_eqb_eq in H. subst q. cbn [kids_routed flat_map]. rewrite R_c_ffd. reflexivity.
Qed.
Theorem styles_font_decls_kept a ks : kids_routed PnStyles SFfd [Elem (q_off "font-face-decls") a ks] = keep ks.
Proof. cbn [kids_routed flat_map]. rewrite R_s_ffd. cbn [secid_eqb]. apply app_nil_r. Qed.

(* ---- what load() returns always has the eight sections in the general form, so saving it and loading again is covered
   by the general round trip: no hypothesis on the source beyond the one on names ---- *)
Lemma named_add q t ks : named q t -> named q (add_kids t ks).
Proof. intros [k ->]. now exists (k ++ ks). Qed.
Lemma named_add_to d s ks : sections_named d -> sections_named (add_to d s ks).
Proof. intros [H1 H2 H3 H4 H5 H6 H7 H8]. destruct s; constructor; cbn [add_to d_meta d_scripts d_ffd d_settings d_styles d_auto d_master d_body]; try assumption; now apply named_add. Qed.
Lemma named_load_section pn acc sec : sections_named (snd acc) -> sections_named (snd (load_section i_redirected pn acc sec)).
Proof.
  intros H. destruct sec as [q a ks|t|t]; cbn [load_section]; try exact H. destruct (route pn q) as [s|]; [|exact H].
  destruct (ld_kids i_redirected (fst acc) (sec_q s) (keep ks)) as [st' ks']. cbn [snd]. now apply named_add_to.
Qed.
Lemma named_load_sections pn secs : forall acc, sections_named (snd acc) -> sections_named (snd (fold_left (load_section i_redirected pn) secs acc)).
Proof. induction secs as [|x r IH]; intros acc H; [exact H|]. cbn [fold_left]. apply IH. now apply named_load_section. Qed.
Lemma named_load_part pn acc p : sections_named (snd acc) -> sections_named (snd (load_part i_redirected pn acc p)).
Proof. intros H. rewrite load_part_secs. now apply named_load_sections. Qed.
Lemma named_empty mime : sections_named (empty_doc mime).
Proof. constructor; eexists; reflexivity. Qed.
Lemma named_finish d : sections_named d -> sections_named (finish d).
Proof. intros [H1 H2 H3 H4 H5 [k E] H7 H8]. constructor; cbn [finish d_meta d_scripts d_ffd d_settings d_styles d_auto d_master d_body]; try assumption. rewrite E. now eexists. Qed.
Theorem loaded_named mime se me co st : sections_named (i_load_doc mime se me co st).
Proof.
  unfold i_load_doc, load_doc. apply named_finish. unfold load_parts.
  apply named_load_part, named_load_part, named_load_part, named_load_part. apply named_empty.
Qed.

(* load, save, load: for ANY parts (no condition on the source at all beyond what the second load needs: no two
   registered style names alike, and the parts of the loaded document within the serialiser's domain) *)
Theorem resave_gen env mime se me co st : let d := i_load_doc mime se me co st in
  NoDup (all_regs d) ->
  doc_ok F env (settings_tree d) = true -> doc_ok F env (meta_tree tv d) = true ->
  doc_ok F env (content_tree RA d) = true -> doc_ok F env (styles_tree RA d) = true ->
  i_load_doc (d_mime d) (if has_kids (d_settings d) then xml_parse (i_settingsxml env d) else None)
             (xml_parse (snd (i_metaxml env d))) (xml_parse (i_contentxml env d)) (xml_parse (i_stylesxml env d)) = finish (expected_gen d).
Proof. intros d. apply save_load_roundtrip_gen. apply loaded_named. Qed.

(* non-vacuity of the general form: a document with white space between the children of its sections (what load()
   returns for a pretty-printed package), a section holding only white space, and text around a style *)
Definition ws : node := TextN [10; 32; 32].
Definition ex_pp : odfdoc :=
  mkDoc (s2l "application/vnd.oasis.opendocument.text")
    (Elem (q_off "meta") [] [ws; Elem q_generator [] [TextN (s2l "Other/1.0")]; ws])
    (Elem (q_off "scripts") [] [ws]) (Elem (q_off "font-face-decls") [] [])
    (Elem (q_off "settings") [] [])
    (Elem (q_off "styles") [] [ws; ex_style "Standard"; ws])
    (Elem (q_off "automatic-styles") [] [ws; ex_style "P1"; ws; ex_style "P2"; ex_style "P3"; ws])
    (Elem (q_off "master-styles") [] [ws; Elem (sSTYLENS, s2l "master-page") [((sSTYLENS, s2l "name"), s2l "M")] [ex_p "P2" "head"]; CDataN [10]])
    (Elem (q_off "body") [] [ws; Elem (q_off "text") [] [ex_p "P1" "a < b"; ws; ex_p "Standard" "x"]; TextN [10]; TextN [32]]).
Example ex_pp_runs : sections_named ex_pp /\ ~ sections_ok ex_pp /\ NoDup (all_regs ex_pp) /\
  i_load_doc (d_mime ex_pp) None (xml_parse (snd (i_metaxml ex_env ex_pp))) (xml_parse (i_contentxml ex_env ex_pp)) (xml_parse (i_stylesxml ex_env ex_pp)) = finish (expected_gen ex_pp) /\
  d_scripts (expected_gen ex_pp) = Elem (q_off "scripts") [] [] /\
  d_body (expected_gen ex_pp) = Elem (q_off "body") [] [ws; Elem (q_off "text") [] [ex_p "P1" "a < b"; ws; ex_p "Standard" "x"]; TextN [10; 32]].
Proof.
  split; [constructor; eexists; reflexivity|]. split.
  { intros [_ [ks [E H]] _ _ _ _ _ _]. cbn in E. injection E as <-. discriminate. }
  split.
  { assert (E : all_regs ex_pp = [s2l "P1"; s2l "Standard"; s2l "P2"]) by (vm_compute; reflexivity). rewrite E.
    repeat constructor; cbn; intuition discriminate. }
  split; [vm_compute; reflexivity|]. split; vm_compute; reflexivity.
Qed.
