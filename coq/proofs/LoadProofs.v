(* LoadProofs.v — C04: the loader applied to the parts the renderers write gives the document back. *)
From Coq Require Import Lia.
From Odf Require Import model.Base model.Chars model.XmlPrint model.XmlLex model.XmlTree model.Doc model.LoadStyles model.Load
  proofs.XmlTokProofs proofs.XmlBuildProofs proofs.XmlResolveProofs proofs.LoadStylesProofs.

Section LP.
Variable redirected : qname -> qname -> bool.
Variable filtered : list (N * N).
Notation canon := (canon filtered).
Notation ld_node := (ld_node redirected).
Notation ld_kids := (ld_kids redirected).
Notation ld_atts := (ld_atts redirected).

(* ---------------- trees without CDATA sections (what a parser delivers) ---------------- *)
Fixpoint nocdata (t : node) : bool :=
  match t with CDataN _ => false | TextN _ => true | Elem _ _ k => forallb nocdata k end.

Lemma merge_text_forallb (P : node -> bool) : (forall s, P (TextN s) = true) -> forall l, forallb P l = true -> forallb P (merge_text l) = true.
Proof.
  intros HT. induction l as [|x l IH]; intros H; [reflexivity|]. cbn [forallb] in H. apply andb_prop in H as [Hx Hl]. specialize (IH Hl).
  destruct x as [q a k|s|s]; cbn [merge_text].
  - cbn [forallb]. now rewrite Hx, IH.
  - destruct (merge_text l) as [|[q a k|b|b] r'] eqn:E.
    + destruct s; [reflexivity|cbn [forallb]; now rewrite HT].
    + destruct s; [exact IH|cbn [forallb]; rewrite HT; exact IH].
    + cbn [forallb] in *. apply andb_prop in IH as [_ IH]. now rewrite HT, IH.
    + destruct s; [exact IH|cbn [forallb]; rewrite HT; exact IH].
  - cbn [forallb]. now rewrite Hx, IH.
Qed.
Lemma canon_nocdata t : nocdata (canon t) = true.
Proof.
  induction t as [s|s|q atts kids IH] using node_ind2; try reflexivity. cbn [XmlTree.canon nocdata].
  apply merge_text_forallb; [reflexivity|]. apply forallb_forall. intros x Hx. apply in_map_iff in Hx as [y [<- Hy]].
  rewrite Forall_forall in IH. now apply IH.
Qed.
Lemma merge_text_elems l : forallb is_element l = true -> merge_text l = l.
Proof.
  induction l as [|x l IH]; intros H; [reflexivity|]. cbn [forallb] in H. apply andb_prop in H as [Hx Hl].
  destruct x as [q a k|s|s]; try discriminate. cbn [merge_text]. now rewrite IH.
Qed.
Lemma canon_is_element t : is_element (canon t) = is_element t.
Proof. destruct t; reflexivity. Qed.
Lemma canon_section q ks : forallb is_element ks = true -> canon (Elem q [] ks) = Elem q [] (map canon ks).
Proof.
  intros H. cbn [XmlTree.canon map]. rewrite merge_text_elems; [reflexivity|]. rewrite forallb_forall in *. intros x Hx.
  apply in_map_iff in Hx as [y [<- Hy]]. rewrite canon_is_element. now apply H.
Qed.

(* ---------------- the names an element sequence registers ---------------- *)
Fixpoint reg_names (parent_q : qname) (t : node) : list str :=
  match t with
  | Elem q atts kids =>
      (if qname_eqb q q_style && registers parent_q then match get_att q_stylename atts with Some n => [n] | None => [] end else [])
      ++ (fix go (ks : list node) : list str := match ks with [] => [] | k :: r => reg_names q k ++ go r end) kids
  | _ => []
  end.
Definition reg_kids (parent_q : qname) (ks : list node) : list str := flat_map (reg_names parent_q) ks.
Lemma reg_names_elem pq q atts kids : reg_names pq (Elem q atts kids) =
  (if qname_eqb q q_style && registers pq then match get_att q_stylename atts with Some n => [n] | None => [] end else []) ++ reg_kids q kids.
Proof. reflexivity. Qed.

Lemma ld_node_elem st pq q atts kids : ld_node st pq (Elem q atts kids) =
  let '(st1, atts') := ld_atts st pq q atts in let '(st2, kids') := ld_kids st1 q kids in (st2, Elem q atts' kids').
Proof.
  cbn [Load.ld_node]. destruct (ld_atts st pq q atts) as [st1 atts'].
  assert (E : forall ks s, (fix go (ks : list node) (s : lstate) : lstate * list node :=
              match ks with [] => (s, []) | k :: r => let '(s1, k') := ld_node s q k in let '(s2, r') := go r s1 in (s2, k' :: r') end) ks s = ld_kids s q ks).
  { induction ks as [|k r IH]; intros s; [reflexivity|]. cbn [Load.ld_kids]. destruct (ld_node s q k) as [s1 k']. now rewrite IH. }
  now rewrite E.
Qed.

(* where nothing clashes, attaching a subtree changes nothing but the set of registered names *)
Lemma ld_atts_id st pq q atts : ls_fix st = [] ->
  NoDup (ls_names st ++ (if qname_eqb q q_style && registers pq then match get_att q_stylename atts with Some n => [n] | None => [] end else [])) ->
  ld_atts st pq q atts = (mkLS (ls_names st ++ (if qname_eqb q q_style && registers pq then match get_att q_stylename atts with Some n => [n] | None => [] end else [])) [], atts).
Proof.
  intros Hf Hd. unfold Load.ld_atts. destruct (qname_eqb q q_style && registers pq).
  - destruct (get_att q_stylename atts) as [n|].
    + assert (Hm : mem_str n (ls_names st) = false).
      { apply mem_str_false. intros Hin. apply (NoDup_app_disj _ _ n Hd); [exact Hin|now left]. }
      rewrite Hm. cbn [ls_fix]. now rewrite Hf.
    + rewrite app_nil_r, Hf. destruct st. cbn in *. now subst.
  - rewrite app_nil_r, Hf. destruct st. cbn in *. now subst.
Qed.

Lemma ld_node_id t : forall st pq, ls_fix st = [] -> nocdata t = true -> NoDup (ls_names st ++ reg_names pq t) ->
  ld_node st pq t = (mkLS (ls_names st ++ reg_names pq t) [], t).
Proof.
  induction t as [s|s|q atts kids IH] using node_ind2; intros st pq Hf Hc Hd.
  - cbn. rewrite app_nil_r. destruct st. cbn in *. now subst.
  - discriminate.
  - rewrite ld_node_elem. rewrite reg_names_elem in *. rewrite app_assoc in Hd.
    rewrite (ld_atts_id st pq q atts Hf (NoDup_app_l _ _ Hd)).
    set (own := if qname_eqb q q_style && registers pq then match get_att q_stylename atts with Some n => [n] | None => [] end else []) in *.
    cbn [nocdata] in Hc.
    assert (K : forall ks st1, Forall (fun k => forall st pq, ls_fix st = [] -> nocdata k = true -> NoDup (ls_names st ++ reg_names pq k) ->
                  ld_node st pq k = (mkLS (ls_names st ++ reg_names pq k) [], k)) ks ->
                ls_fix st1 = [] -> forallb nocdata ks = true -> NoDup (ls_names st1 ++ reg_kids q ks) ->
                ld_kids st1 q ks = (mkLS (ls_names st1 ++ reg_kids q ks) [], ks)).
    { induction ks as [|k r IHr]; intros st1 HF Hf1 Hc1 Hd1.
      - cbn. rewrite app_nil_r. destruct st1. cbn in *. now subst.
      - cbn [Load.ld_kids]. apply Forall_cons_iff in HF as [Hk HF]. cbn [forallb] in Hc1. apply andb_prop in Hc1 as [Hck Hcr].
        unfold reg_kids in *. cbn [flat_map] in *. rewrite app_assoc in Hd1.
        rewrite (Hk st1 q Hf1 Hck (NoDup_app_l _ _ Hd1)).
        rewrite (IHr (mkLS (ls_names st1 ++ reg_names q k) []) HF eq_refl Hcr Hd1). cbn [ls_names]. now rewrite app_assoc. }
    rewrite (K kids (mkLS (ls_names st ++ own) []) IH eq_refl Hc Hd). cbn [ls_names]. now rewrite app_assoc.
Qed.

Lemma ld_kids_id ks : forall st pq, ls_fix st = [] -> forallb nocdata ks = true -> NoDup (ls_names st ++ reg_kids pq ks) ->
  ld_kids st pq ks = (mkLS (ls_names st ++ reg_kids pq ks) [], ks).
Proof.
  induction ks as [|k r IH]; intros st pq Hf Hc Hd.
  - cbn. rewrite app_nil_r. destruct st. cbn in *. now subst.
  - cbn [Load.ld_kids]. cbn [forallb] in Hc. apply andb_prop in Hc as [Hck Hcr]. unfold reg_kids in *. cbn [flat_map] in *. rewrite app_assoc in Hd.
    rewrite (ld_node_id k st pq Hf Hck (NoDup_app_l _ _ Hd)). rewrite (IH (mkLS (ls_names st ++ reg_names pq k) []) pq eq_refl Hcr Hd). cbn [ls_names]. now rewrite app_assoc.
Qed.

(* ---------------- sections ---------------- *)
Lemma keep_elems ks : forallb is_element ks = true -> keep ks = ks.
Proof.
  intros H. unfold keep. destruct ks as [|x r]; [reflexivity|]. cbn [forallb existsb] in *. apply andb_prop in H as [Hx _]. now rewrite Hx.
Qed.

Definition sec_regs (pn : partname) (sec : node) : list str :=
  match sec with Elem q _ ks => match route pn q with Some s => reg_kids (sec_q s) (keep ks) | None => [] end | _ => [] end.
Definition sec_apply (pn : partname) (d : odfdoc) (sec : node) : odfdoc :=
  match sec with Elem q _ ks => match route pn q with Some s => add_to d s (keep ks) | None => d end | _ => d end.
(* a child of a part's root: anything but an element is ignored; an element must be free of CDATA sections (parsed trees are) *)
Definition good_section (sec : node) : Prop := forall q a ks, sec = Elem q a ks -> forallb nocdata ks = true.

Lemma keep_nocdata ks : forallb nocdata ks = true -> forallb nocdata (keep ks) = true.
Proof. intros H. unfold keep. destruct (existsb is_element ks); [exact H|reflexivity]. Qed.

Lemma load_sections_id pn secs : forall st d, ls_fix st = [] -> Forall good_section secs ->
  NoDup (ls_names st ++ flat_map (sec_regs pn) secs) ->
  fold_left (load_section redirected pn) secs (st, d) = (mkLS (ls_names st ++ flat_map (sec_regs pn) secs) [], fold_left (sec_apply pn) secs d).
Proof.
  induction secs as [|sec r IH]; intros st d Hf Hg Hd.
  - cbn. rewrite app_nil_r. destruct st. cbn in *. now subst.
  - apply Forall_cons_iff in Hg as [Hsec Hg]. cbn [fold_left flat_map] in *. rewrite app_assoc in Hd.
    destruct sec as [q a ks|t|t]; cbn [load_section fst snd sec_regs sec_apply] in *.
    + pose proof (Hsec q a ks eq_refl) as Hc. destruct (route pn q) as [s|].
      * rewrite (ld_kids_id (keep ks) st (sec_q s) Hf (keep_nocdata ks Hc) (NoDup_app_l _ _ Hd)).
        rewrite (IH (mkLS (ls_names st ++ reg_kids (sec_q s) (keep ks)) []) _ eq_refl Hg Hd). cbn [ls_names]. now rewrite app_assoc.
      * rewrite app_nil_r in *. now apply IH.
    + rewrite app_nil_r in *. now apply IH.
    + rewrite app_nil_r in *. now apply IH.
Qed.
End LP.
