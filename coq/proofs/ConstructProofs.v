(* ConstructProofs.v — a refused constructor call leaves the document untouched (C07). *)
From Coq Require Import Lia PeanoNat Arith.
From Odf Require Import model.Base model.Dom model.Construct proofs.DomProofs.

(* what a user can observe of the document: every allocated node and both lookups *)
Definition same_document (h h' : heap) : Prop :=
  (forall j, (j < alloc h)%nat -> nodes h' j = nodes h j) /\ edict h' = edict h /\ sdict h' = sdict h.

Lemma new_elem_wf h q sn : WF h -> WF (fst (new_elem h q sn)) /\ same_document h (fst (new_elem h q sn)).
Proof.
  intros HW. pose proof (new_node_consistent h (KElem q) HW) as [[HC HF] _].
  unfold new_node in HC, HF. cbn [fst nodes alloc] in HC, HF.
  unfold new_elem. cbn [fst]. split; [split|].
  - cbn [nodes]. eapply Consistent_same; [|exact HC]. intros j.
    unfold PAR, KIDS, PREV, NEXT, ELEM, upd. destruct (Nat.eqb j (alloc h)); repeat split.
  - cbn [nodes alloc]. intros j Hj. specialize (HF j Hj). unfold Fresh, upd in *. destruct (Nat.eqb j (alloc h)); exact HF.
  - split; [|split; reflexivity]. intros j Hj. cbn [nodes]. unfold upd.
    destruct (Nat.eqb j (alloc h)) eqn:E; [apply Nat.eqb_eq in E; lia|reflexivity].
Qed.

Theorem construct_atomic h q sn steps check req par e h' :
  WF h -> (match par with Some (p, _) => (p < alloc h)%nat | None => True end) ->
  construct h q sn steps check req par = RRaise e h' -> same_document h h'.
Proof.
  intros HW Hp. unfold construct.
  destruct (new_elem_wf h q sn HW) as [[HC1 HF1] Hsame].
  destruct (new_elem h q sn) as [h1 n] eqn:En. cbn [fst] in *.
  assert (Hn : n = alloc h /\ alloc h1 = S (alloc h)) by (unfold new_elem in En; injection En as <- <-; split; reflexivity).
  destruct Hn as [-> Ha1].
  destruct (first_raise steps); [intros H; injection H as _ <-; exact Hsame|].
  destruct (check && negb req); [intros H; injection H as _ <-; exact Hsame|].
  destruct par as [[p al]|]; [|discriminate].
  intros H. assert (h' = h1); [|subst; exact Hsame].
  apply (step_raise_unchanged h1 (OAddElement p (alloc h) al) e h' HC1); [cbn [op_ok]; lia|exact H].
Qed.

(* the element whose construction was refused is in nobody's child list and in no lookup *)
Theorem construct_refused_not_found h q sn steps check req par e h' :
  WF h -> (match par with Some (p, _) => (p < alloc h)%nat | None => True end) ->
  construct h q sn steps check req par = RRaise e h' ->
  forall j, (j < alloc h)%nat -> ~ In (alloc h) (kids (nodes h' j)).
Proof.
  intros HW Hp H j Hj Hin. destruct (construct_atomic h q sn steps check req par e h' HW Hp H) as [Hn _].
  rewrite (Hn j Hj) in Hin. destruct HW as [HC HF].
  apply (c_kids _ HC) in Hin. destruct (HF (alloc h) (le_n _)) as [Hpar _]. congruence.
Qed.

(* setAttribute / setAttrNS: a refused value or keyword leaves the stored attributes alone
   (the result carries no store at all: the old one stays in place) *)
Theorem set_attribute_atomic a known conv e : set_attribute a known conv = Raise e ->
  known = None /\ e = AttributeErr \/ conv = Raise e.
Proof.
  unfold set_attribute, set_attr_ns. destruct known; [|intros H; injection H as <-; now left].
  destruct conv; [discriminate|intros H; injection H as <-; now right].
Qed.

(* the unrepaired order is refuted: parent= first, then a failing attribute *)
Open Scope nat_scope.
Example construct_old_refuted :
  let h := heap0 2 0 in
  exists e h', construct_old h 9 None [OParent 0 true; OAttr (Some AttributeErr)] true true = RRaise e h' /\
               kids (nodes h' 0) = [2].
Proof. eexists. eexists. vm_compute. split; reflexivity. Qed.

Example construct_example :
  let h := heap0 2 0 in
  construct h 9 None [None; Some ValueErr] true true (Some (0, true)) = RRaise ValueErr (fst (new_elem h 9 None)).
Proof. reflexivity. Qed.
