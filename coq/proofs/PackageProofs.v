(* PackageProofs.v — C03 / C16: structure of the saved package. *)
From Coq Require Import Lia PeanoNat Arith.
From Odf Require Import model.Base model.XmlLex model.XmlTree model.NsTable model.Package proofs.XmlResolveProofs proofs.NsTableProofs.

Definition names (es : list entry) : list str := map e_name es.

(* ---- mimetype first, stored, no extra field, exactly the media type ---- *)
Theorem mimetype_first t :
  hd_error (fst (save_m t)) = Some (mkE sMIMETYPE true [] (DBytes (o_mt (t_root t)))).
Proof.
  unfold save_m. destruct (save_xml true [] (t_root t)) as [ex mx]. destruct (save_pics [] (t_root t)) as [ep mp]. reflexivity.
Qed.

(* ---- the four required members ---- *)
Lemma save_xml_top_names o : exists rest,
  names (fst (save_xml true [] o)) = s2l "styles.xml" :: s2l "content.xml" :: rest /\ In (s2l "meta.xml") rest.
Proof.
  destruct o as [mt f hs pics kids]. cbn [save_xml fst]. destruct hs; cbn [app names map].
  - eexists. split; [reflexivity|]. right. now left.
  - eexists. split; [reflexivity|]. now left.
Qed.

Theorem required_members t :
  In (s2l "content.xml") (names (fst (save_m t))) /\ In (s2l "styles.xml") (names (fst (save_m t))) /\
  In (s2l "meta.xml") (names (fst (save_m t))) /\ In sMANIFEST (names (fst (save_m t))) /\ In sMIMETYPE (names (fst (save_m t))).
Proof.
  unfold save_m. destruct (save_xml_top_names (t_root t)) as (rest & Hn & Hm).
  destruct (save_xml true [] (t_root t)) as [ex mx]. destruct (save_pics [] (t_root t)) as [ep mp]. cbn [fst] in *.
  unfold names in *. cbn [map]. rewrite !map_app. rewrite Hn.
  repeat split; cbn [app In map e_name]; rewrite ?in_app_iff; cbn [In map e_name]; auto 10.
Qed.

(* ---- the manifest lists exactly the files of the archive ---- *)
(* manifest rows that name a file (not a folder entry) *)
Definition is_file_row (r : str * str) : bool := negb (ends_slash (fst r)).
Definition file_paths (m : manifest) : list str := map fst (filter is_file_row m).

Definition path_ok (p : str) : bool := ends_slash p || str_eqb p [].     (* a folder path handed down the recursion *)

Lemma ends_slash_app a b : b <> [] -> ends_slash (a ++ b) = ends_slash b.
Proof.
  intros H. unfold ends_slash. rewrite rev_app_distr. destruct (rev b) eqn:E; [|reflexivity].
  apply (f_equal (@rev cp)) in E. rewrite rev_involutive in E. contradiction.
Qed.

Lemma objfolder_slash o : ends_slash (objfolder o) = true.
Proof. unfold objfolder, ends_slash. rewrite rev_app_distr. reflexivity. Qed.

Section XmlRows.
(* by induction on the object tree: the file rows written by _saveXmlObjects are exactly its members, in order *)
Fixpoint odoc_ind2 (P : odoc -> Prop) (H : forall mt f hs pics kids, Forall P kids -> P (ODoc mt f hs pics kids)) (o : odoc) : P o :=
  match o with
  | ODoc mt f hs pics kids =>
      H mt f hs pics kids ((fix go (l : list odoc) : Forall P l :=
         match l with [] => Forall_nil P | x :: r => Forall_cons x (odoc_ind2 P H x) (go r) end) kids)
  end.

Lemma file_paths_app a b : file_paths (a ++ b) = file_paths a ++ file_paths b.
Proof. unfold file_paths. now rewrite filter_app, map_app. Qed.

Lemma names_app a b : names (a ++ b) = names a ++ names b.
Proof. apply map_app. Qed.

Lemma flat_map_rows {A} (f : A -> list entry * manifest) (l : list A) :
  Forall (fun x => file_paths (snd (f x)) = names (fst (f x))) l ->
  file_paths (flat_map snd (map f l)) = names (flat_map fst (map f l)).
Proof.
  induction 1 as [|x l Hx Hl IH]; [reflexivity|]. cbn [map flat_map]. cbv beta in Hx. rewrite file_paths_app, names_app. f_equal; [exact Hx|exact IH].
Qed.

Lemma file_row_const (p suffix mtv : str) : suffix <> [] -> ends_slash suffix = false ->
  file_paths [(p ++ suffix, mtv)] = [p ++ suffix].
Proof. intros H1 H2. unfold file_paths, is_file_row. cbn [filter fst]. now rewrite ends_slash_app, H2 by exact H1. Qed.

Theorem save_xml_rows o : forall top path, (top = true -> path = []) -> (top = false -> ends_slash path = true) ->
  file_paths (snd (save_xml top path o)) = names (fst (save_xml top path o)).
Proof.
  induction o as [mt f hs pics kids IH] using odoc_ind2. intros top path Ht Hf.
  cbn [save_xml fst snd].
  set (m1 := [(if top then [cSLASHc] else path, mt); (path ++ s2l "styles.xml", sTEXTXML); (path ++ s2l "content.xml", sTEXTXML)]).
  set (e1 := [xml_entry (path ++ s2l "styles.xml") PStyles f; xml_entry (path ++ s2l "content.xml") PContent f]).
  assert (H1 : file_paths m1 = names e1).
  { change m1 with ([(if top then [cSLASHc] else path, mt)] ++ [(path ++ s2l "styles.xml", sTEXTXML)] ++ [(path ++ s2l "content.xml", sTEXTXML)]).
    rewrite !file_paths_app, !file_row_const by (first [discriminate | reflexivity]).
    unfold file_paths, is_file_row. cbn [filter fst]. destruct top; [reflexivity|]. now rewrite (Hf eq_refl). }
  assert (H2 : file_paths (if hs then [(path ++ s2l "settings.xml", sTEXTXML)] else []) =
               names (if hs then [xml_entry (path ++ s2l "settings.xml") PSettings f] else [])).
  { destruct hs; [|reflexivity]. rewrite file_row_const by (first [discriminate | reflexivity]). reflexivity. }
  assert (H3 : file_paths (if top then [(s2l "meta.xml", sTEXTXML)] else []) = names (if top then [xml_entry (s2l "meta.xml") PMeta f] else [])).
  { destruct top; reflexivity. }
  assert (H4 : file_paths (flat_map snd (map (fun k => save_xml false (objfolder k) k) kids)) =
               names (flat_map fst (map (fun k => save_xml false (objfolder k) k) kids))).
  { apply (flat_map_rows (fun k => save_xml false (objfolder k) k)).
    apply Forall_forall. intros k Hk. rewrite Forall_forall in IH. apply (IH k Hk); [discriminate|intros _; apply objfolder_slash]. }
  rewrite !file_paths_app, !names_app.
  f_equal; [exact H1|]. f_equal; [exact H2|]. f_equal; [exact H3|exact H4].
Qed.

Definition pic_names_ok (o : odoc) : Prop := True.

(* picture names are file names: not empty, not ending in a slash *)
Fixpoint pics_ok (o : odoc) : bool :=
  match o with
  | ODoc _ _ _ pics kids =>
      forallb (fun p => negb (ends_slash (pc_name p)) && negb (str_eqb (pc_name p) [])) pics && forallb pics_ok kids
  end.

Theorem save_pics_rows o : pics_ok o = true -> forall path,
  file_paths (snd (save_pics path o)) = names (fst (save_pics path o)).
Proof.
  induction o as [mt f hs pics kids IH] using odoc_ind2. intros Hok path.
  cbn [pics_ok] in Hok. apply andb_true_iff in Hok as [Hp Hk].
  cbn [save_pics fst snd]. rewrite file_paths_app, names_app. f_equal.
  - clear -Hp. induction pics as [|p pics IHp]; [reflexivity|].
    cbn [forallb] in Hp. apply andb_true_iff in Hp as [H1 H2]. apply andb_true_iff in H1 as [Ha Hb].
    apply negb_true_iff in Ha, Hb.
    change (map (fun p0 => (path ++ pc_name p0, pc_mt p0)) (p :: pics)) with ([(path ++ pc_name p, pc_mt p)] ++ map (fun p0 => (path ++ pc_name p0, pc_mt p0)) pics).
    rewrite file_paths_app, (IHp H2). rewrite file_row_const; [reflexivity| |exact Ha].
    intros E. rewrite E in Hb. discriminate.
  - apply (flat_map_rows (fun k => save_pics (objfolder k) k)).
    apply Forall_forall. intros k Hin. rewrite Forall_forall in IH. rewrite forallb_forall in Hk. now apply IH; [|apply Hk].
Qed.
End XmlRows.

(* extras: a member without content is a folder row; every other name is a file name *)
Definition extras_ok (t : topdoc) : bool :=
  forallb (fun x => match snd x with
                    | None => ends_slash (fst (fst x))
                    | Some _ => negb (ends_slash (fst (fst x))) end) (t_extras t).

Theorem manifest_lists_exactly_the_files t : pics_ok (t_root t) = true -> extras_ok t = true ->
  file_paths (snd (save_m t)) = removelast (tl (names (fst (save_m t)))).
Proof.
  intros Hp He. unfold save_m.
  pose proof (save_xml_rows (t_root t) true [] (fun _ => eq_refl)) as Hx.
  pose proof (save_pics_rows (t_root t) Hp []) as Hpi.
  destruct (save_xml true [] (t_root t)) as [ex mx]. destruct (save_pics [] (t_root t)) as [ep mp]. cbn [fst snd] in *.
  assert (Hx' : file_paths mx = names ex) by (apply Hx; discriminate). clear Hx.
  set (et := match t_thumb t with Some b => [mkE sTHUMB false [] (DBytes (fst b))] | None => [] end).
  set (mt := match t_thumb t with Some b => [(sTHUMBDIR, []); (sTHUMB, snd b)] | None => [] end).
  set (xs := filter (fun x => negb (str_eqb (fst (fst x)) sSIG)) (t_extras t)).
  set (ee := flat_map (fun x => match snd x with Some b => [mkE (fst (fst x)) false [] (DBytes b)] | None => [] end) xs).
  set (me := map (fun x => (fst (fst x), snd (fst x))) xs).
  assert (Ht : file_paths mt = names et) by (unfold mt, et; destruct (t_thumb t); reflexivity).
  assert (Hee : file_paths me = names ee).
  { unfold me, ee, xs. unfold extras_ok in He. induction (t_extras t) as [|x l IH]; [reflexivity|].
    cbn [forallb] in He. apply andb_true_iff in He as [H1 H2]. cbn [filter].
    destruct (negb (str_eqb (fst (fst x)) sSIG)); [|now apply IH].
    cbn [map flat_map].
    change ((fst (fst x), snd (fst x)) :: map (fun x0 => (fst (fst x0), snd (fst x0))) (filter (fun x0 => negb (str_eqb (fst (fst x0)) sSIG)) l))
      with ([(fst (fst x), snd (fst x))] ++ map (fun x0 => (fst (fst x0), snd (fst x0))) (filter (fun x0 => negb (str_eqb (fst (fst x0)) sSIG)) l)).
    rewrite file_paths_app, names_app. f_equal; [|now apply IH].
    unfold file_paths, is_file_row. cbn [filter fst]. destruct (snd x); [apply negb_true_iff in H1; now rewrite H1|now rewrite H1]. }
  cbn [names map tl]. fold (names (ex ++ ep ++ et ++ ee ++ [mkE sMANIFEST false [] DManifest])).
  rewrite !names_app. change (names [mkE sMANIFEST false [] DManifest]) with [sMANIFEST].
  rewrite !app_assoc.
  rewrite removelast_last. rewrite <- !app_assoc. rewrite !file_paths_app. f_equal; [exact Hx'|]. f_equal; [exact Hpi|]. f_equal; [exact Ht|exact Hee].
Qed.

(* ---------------- media types, pictures, embedded objects ---------------- *)
Theorem root_media_type t : In ([cSLASHc], o_mt (t_root t)) (snd (save_m t)).
Proof.
  unfold save_m. destruct (t_root t) as [mt f hs pics kids] eqn:E.
  cbn [save_xml]. destruct (save_pics [] (ODoc mt f hs pics kids)) as [ep mp]. cbn [snd o_mt]. now left.
Qed.

(* o' is an embedded object of o, at any depth *)
Inductive embedded : odoc -> odoc -> Prop :=
  | emb_kid o k : In k (o_kids o) -> embedded o k
  | emb_deep o k d : In k (o_kids o) -> embedded k d -> embedded o d.

Lemma in_flat_map_fst {A} (f : A -> list entry * manifest) l x e : In x l -> In e (fst (f x)) -> In e (flat_map fst (map f l)).
Proof. intros Hx He. apply in_flat_map. exists (f x). split; [now apply in_map|exact He]. Qed.
Lemma in_flat_map_snd {A} (f : A -> list entry * manifest) l x (r : str * str) : In x l -> In r (snd (f x)) -> In r (flat_map snd (map f l)).
Proof. intros Hx He. apply in_flat_map. exists (f x). split; [now apply in_map|exact He]. Qed.

Lemma save_xml_own top path o :
  In (xml_entry (path ++ s2l "content.xml") PContent (o_folder o)) (fst (save_xml top path o)) /\
  In (xml_entry (path ++ s2l "styles.xml") PStyles (o_folder o)) (fst (save_xml top path o)) /\
  In ((if top then [cSLASHc] else path), o_mt o) (snd (save_xml top path o)).
Proof. destruct o as [mt f hs pics kids]. cbn [save_xml fst snd o_folder o_mt]. repeat split; cbn [In app]; auto. Qed.

Lemma save_xml_sub top path o k : In k (o_kids o) ->
  (forall e, In e (fst (save_xml false (objfolder k) k)) -> In e (fst (save_xml top path o))) /\
  (forall r, In r (snd (save_xml false (objfolder k) k)) -> In r (snd (save_xml top path o))).
Proof.
  destruct o as [mt f hs pics kids]. cbn [o_kids save_xml fst snd]. intros Hk. split.
  - intros e He. rewrite !in_app_iff. right. right. right. apply (in_flat_map_fst (fun k0 => save_xml false (objfolder k0) k0) kids k e Hk He).
  - intros r Hr. rewrite !in_app_iff. right. right. right. apply (in_flat_map_snd (fun k0 => save_xml false (objfolder k0) k0) kids k r Hk Hr).
Qed.

Theorem embedded_object_stored top path o d : embedded o d ->
  In (xml_entry (objfolder d ++ s2l "content.xml") PContent (o_folder d)) (fst (save_xml top path o)) /\
  In (xml_entry (objfolder d ++ s2l "styles.xml") PStyles (o_folder d)) (fst (save_xml top path o)) /\
  In (objfolder d, o_mt d) (snd (save_xml top path o)).
Proof.
  intros H. revert top path. induction H as [o k Hk|o k d Hk Hd IH]; intros top path.
  - destruct (save_xml_sub top path o k Hk) as [S1 S2]. destruct (save_xml_own false (objfolder k) k) as (A & B & C). auto.
  - destruct (save_xml_sub top path o k Hk) as [S1 S2]. destruct (IH false (objfolder k)) as (A & B & C). auto.
Qed.

Lemma in_save_m_xml t e : In e (fst (save_xml true [] (t_root t))) -> In e (fst (save_m t)).
Proof.
  unfold save_m. destruct (save_xml true [] (t_root t)) as [ex mx]. destruct (save_pics [] (t_root t)) as [ep mp]. cbn [fst].
  intros H. right. apply in_or_app. now left.
Qed.
Lemma in_save_m_xml_row t r : In r (snd (save_xml true [] (t_root t))) -> In r (snd (save_m t)).
Proof.
  unfold save_m. destruct (save_xml true [] (t_root t)) as [ex mx]. destruct (save_pics [] (t_root t)) as [ep mp]. cbn [snd].
  intros H. apply in_or_app. now left.
Qed.
Lemma in_save_m_pic t e : In e (fst (save_pics [] (t_root t))) -> In e (fst (save_m t)).
Proof.
  unfold save_m. destruct (save_xml true [] (t_root t)) as [ex mx]. destruct (save_pics [] (t_root t)) as [ep mp]. cbn [fst].
  intros H. right. apply in_or_app. right. apply in_or_app. now left.
Qed.
Lemma in_save_m_pic_row t r : In r (snd (save_pics [] (t_root t))) -> In r (snd (save_m t)).
Proof.
  unfold save_m. destruct (save_xml true [] (t_root t)) as [ex mx]. destruct (save_pics [] (t_root t)) as [ep mp]. cbn [snd].
  intros H. apply in_or_app. right. apply in_or_app. now left.
Qed.

(* C16: every embedded sub-document is stored in the folder its reference names, declared with its media type *)
Theorem object_where_its_reference_says t d : embedded (t_root t) d ->
  In (xml_entry (objfolder d ++ s2l "content.xml") PContent (o_folder d)) (fst (save_m t)) /\
  In (xml_entry (objfolder d ++ s2l "styles.xml") PStyles (o_folder d)) (fst (save_m t)) /\
  In (objfolder d, o_mt d) (snd (save_m t)).
Proof.
  intros H. destruct (embedded_object_stored true [] (t_root t) d H) as (A & B & C).
  repeat split; [now apply in_save_m_xml|now apply in_save_m_xml|now apply in_save_m_xml_row].
Qed.

(* pictures: present, byte-identical, under the owning object's folder, with their media type *)
Lemma save_pics_own path o p : In p (o_pics o) ->
  In (mkE (path ++ pc_name p) true [] (DBytes (pc_data p))) (fst (save_pics path o)) /\ In (path ++ pc_name p, pc_mt p) (snd (save_pics path o)).
Proof.
  destruct o as [mt f hs pics kids]. cbn [o_pics save_pics fst snd]. intros H. split; apply in_or_app; left.
  - apply (in_map (fun p0 => mkE (path ++ pc_name p0) true [] (DBytes (pc_data p0)))). exact H.
  - apply (in_map (fun p0 => (path ++ pc_name p0, pc_mt p0))). exact H.
Qed.
Lemma save_pics_sub path o k : In k (o_kids o) ->
  (forall e, In e (fst (save_pics (objfolder k) k)) -> In e (fst (save_pics path o))) /\
  (forall r, In r (snd (save_pics (objfolder k) k)) -> In r (snd (save_pics path o))).
Proof.
  destruct o as [mt f hs pics kids]. cbn [o_kids save_pics fst snd]. intros Hk. split.
  - intros e He. apply in_or_app. right. apply (in_flat_map_fst (fun k0 => save_pics (objfolder k0) k0) kids k e Hk He).
  - intros r Hr. apply in_or_app. right. apply (in_flat_map_snd (fun k0 => save_pics (objfolder k0) k0) kids k r Hk Hr).
Qed.

Theorem pictures_of_main_document t p : In p (o_pics (t_root t)) ->
  In (mkE (pc_name p) true [] (DBytes (pc_data p))) (fst (save_m t)) /\ In (pc_name p, pc_mt p) (snd (save_m t)).
Proof.
  intros H. destruct (save_pics_own [] (t_root t) p H) as [A B]. split; [now apply in_save_m_pic|now apply in_save_m_pic_row].
Qed.

Theorem pictures_of_embedded_object t d p : embedded (t_root t) d -> In p (o_pics d) ->
  In (mkE (objfolder d ++ pc_name p) true [] (DBytes (pc_data p))) (fst (save_m t)) /\ In (objfolder d ++ pc_name p, pc_mt p) (snd (save_m t)).
Proof.
  intros He Hp.
  assert (G : forall o path, embedded o d ->
     In (mkE (objfolder d ++ pc_name p) true [] (DBytes (pc_data p))) (fst (save_pics path o)) /\ In (objfolder d ++ pc_name p, pc_mt p) (snd (save_pics path o))).
  { intros o path H. revert path. induction H as [o k Hk|o k d0 Hk Hd IH]; intros path.
    - destruct (save_pics_sub path o k Hk) as [S1 S2]. destruct (save_pics_own (objfolder k) k p Hp) as [A B]. auto.
    - destruct (save_pics_sub path o k Hk) as [S1 S2]. destruct (IH He Hp (objfolder k)) as [A B]. auto. }
  destruct (G (t_root t) [] He) as [A B]. split; [now apply in_save_m_pic|now apply in_save_m_pic_row].
Qed.

(* addObject: the reference returned is "./" + the folder the object will be stored in *)
Lemma fresh_folder_shape fuel pf taken : forall n, exists m, fresh_folder fuel pf taken n = pf ++ sOBJECT ++ dec (N.of_nat m) /\ (n <= m <= n + fuel)%nat.
Proof.
  induction fuel as [|k IH]; intros n; cbn [fresh_folder]; [exists n; split; [reflexivity|lia]|].
  destruct (existsb _ taken); [destruct (IH (S n)) as [m [E Hm]]; exists m; split; [exact E|lia]|exists n; split; [reflexivity|lia]].
Qed.
Theorem add_object_reference pf taken child name : (pf = [] \/ exists x, pf = cSLASHc :: x) ->
  exists x, snd (add_object pf taken child name) = 46 :: cSLASHc :: x /\
            objfolder (fst (add_object pf taken child name)) = x ++ [cSLASHc] /\
            o_folder (fst (add_object pf taken child name)) = cSLASHc :: x.
Proof.
  intros Hpf. unfold add_object. destruct child as [mt f hs p k]. cbn [fst snd objfolder o_folder].
  destruct name as [nm|].
  - destruct nm as [|c r].
    + exists []. repeat split.
    + destruct (N.eq_dec c 47) as [->|Hc].
      * exists r. repeat split.
      * exists (c :: r). assert (E : match c with 47 => c :: r | _ => cSLASHc :: c :: r end = cSLASHc :: c :: r).
        { destruct c as [|pc]; [reflexivity|]. repeat (destruct pc as [pc|pc|]; try reflexivity). now contradiction Hc. }
        rewrite E. repeat split.
  - destruct (fresh_folder_shape (S (List.length taken)) pf taken (S (List.length taken))) as [m [-> _]].
    destruct Hpf as [->|[x ->]].
    + exists (tl sOBJECT ++ dec (N.of_nat m)). repeat split.
    + exists (x ++ sOBJECT ++ dec (N.of_nat m)). repeat split.
Qed.

(* ... and a folder of its own: the default name is none of the folders the siblings have (pigeonhole over the numbers
   |taken|+1 ... 2|taken|+2: they print differently, so one of them is free, and the search stops at the first free one) *)
Lemma str_eqb_true_iff a b : str_eqb a b = true <-> a = b.
Proof. apply str_eqb_eq. Qed.
Lemma obj_name_inj pf a b : pf ++ sOBJECT ++ dec (N.of_nat a) = pf ++ sOBJECT ++ dec (N.of_nat b) -> a = b.
Proof. intros H. apply app_inv_head in H. apply app_inv_head in H. apply NsTableProofs.dec_inj in H. now apply Nat2N.inj. Qed.
Lemma fresh_folder_spec pf taken : forall fuel n,
  (exists j, (j < fuel)%nat /\ ~ In (pf ++ sOBJECT ++ dec (N.of_nat (n + j))) taken) -> ~ In (fresh_folder fuel pf taken n) taken.
Proof.
  induction fuel as [|k IH]; intros n [j [Hj Hn]]; [lia|]. cbn [fresh_folder].
  destruct (existsb (str_eqb (pf ++ sOBJECT ++ dec (N.of_nat n))) taken) eqn:E.
  - apply IH. destruct j as [|j'].
    + exfalso. apply Hn. rewrite Nat.add_0_r. apply existsb_exists in E as [y [Hy Ey]]. apply str_eqb_eq in Ey. now subst.
    + exists j'. split; [lia|]. now replace (S n + j')%nat with (n + S j')%nat by lia.
  - intros Hin. assert (existsb (str_eqb (pf ++ sOBJECT ++ dec (N.of_nat n))) taken = true); [|congruence].
    apply existsb_exists. eexists. split; [exact Hin|now apply str_eqb_true_iff].
Qed.
Lemma NoDup_map_inj_on' {A B} (f : A -> B) (l : list A) :
  (forall x y, In x l -> In y l -> f x = f y -> x = y) -> NoDup l -> NoDup (map f l).
Proof.
  intros Hinj Hn. induction Hn as [|x r Hx Hr IH]; [constructor|]. cbn [map]. constructor.
  - intros Hin. apply in_map_iff in Hin as [y [E Hy]]. apply Hx. rewrite (Hinj x y); [exact Hy|now left|now right|now symmetry].
  - apply IH. intros a b Ha Hb. apply Hinj; now right.
Qed.
Lemma some_free_number pf (taken : list str) n : exists j, (j <= List.length taken)%nat /\ ~ In (pf ++ sOBJECT ++ dec (N.of_nat (n + j))) taken.
Proof.
  set (L := map (fun j => pf ++ sOBJECT ++ dec (N.of_nat (n + j))) (seq 0 (S (List.length taken)))).
  assert (HL : NoDup L).
  { apply NoDup_map_inj_on'; [|apply seq_NoDup]. intros x y _ _ E. apply obj_name_inj in E. lia. }
  destruct (forallb (fun y => existsb (str_eqb y) taken) L) eqn:F.
  - exfalso. assert (I : incl L taken).
    { intros y Hy. rewrite forallb_forall in F. specialize (F y Hy). apply existsb_exists in F as [z [Hz Ez]]. apply str_eqb_eq in Ez. now subst. }
    apply (NoDup_incl_length HL) in I. assert (EL : List.length L = S (List.length taken)) by (unfold L; now rewrite map_length, seq_length). rewrite EL in I. exact (Nat.nle_succ_diag_l _ I).
  - assert (G : exists y, In y L /\ existsb (str_eqb y) taken = false).
    { clear HL. induction L as [|y r IH]; [discriminate|]. cbn [forallb] in F. destruct (existsb (str_eqb y) taken) eqn:Ey.
      - cbn [andb] in F. destruct (IH F) as [z [Hz Ez]]. exists z. split; [now right|exact Ez].
      - exists y. split; [now left|exact Ey]. }
    destruct G as [y [Hy Fy]]. unfold L in Hy. apply in_map_iff in Hy as [j [E Hj]]. apply in_seq in Hj. exists j. split; [lia|].
    subst y. intros Hin. assert (existsb (str_eqb (pf ++ sOBJECT ++ dec (N.of_nat (n + j)))) taken = true); [|congruence].
    apply existsb_exists. eexists. split; [exact Hin|now apply str_eqb_true_iff].
Qed.
Theorem add_object_fresh pf taken child : ~ In (o_folder (fst (add_object pf taken child None))) taken.
Proof.
  unfold add_object. destruct child as [mt f hs p k]. cbn [fst o_folder]. apply fresh_folder_spec.
  destruct (some_free_number pf taken (S (List.length taken))) as [j [Hj Hn]]. exists j. split; [lia|exact Hn].
Qed.

(* load(): an object folder of the source is loaded as an object whose folder is that very path *)
Lemma removelast_slash p : ends_slash p = true -> removelast p ++ [cSLASHc] = p.
Proof.
  unfold ends_slash. intros H. destruct (rev p) as [|c r] eqn:E; [discriminate|]. apply N.eqb_eq in H. subst c.
  assert (Hp : p = rev r ++ [cSLASHc]) by (rewrite <- (rev_involutive p), E; reflexivity).
  rewrite Hp. now rewrite removelast_last.
Qed.

Theorem loaded_object_keeps_its_folder foreign m member mime rs os p mtv :
  In (p, mtv) m -> classify foreign m p = IsObject ->
  exists d, In d (o_kids (t_root (load_m foreign m member mime rs os))) /\ objfolder d = p /\ o_mt d = mtv.
Proof.
  intros Hin Hc. exists (ODoc mtv (cSLASHc :: removelast p) (os p) [] []). split; [|split; [|reflexivity]].
  - unfold load_m. cbn [t_root o_kids]. apply in_flat_map. exists (p, mtv). split; [exact Hin|]. cbn [fst snd]. rewrite Hc. now left.
  - unfold objfolder. cbn [o_folder tl]. apply removelast_slash.
    unfold classify in Hc. repeat match type of Hc with (if ?b then _ else _) = _ => destruct b eqn:?; try discriminate end.
    unfold is_object_folder in *. repeat match goal with H : _ && _ = true |- _ => apply andb_true_iff in H as [? ?] end. assumption.
Qed.

(* load then save: the object is written back under the same folder, with the same media type *)
Theorem object_survives_load_save foreign m member mime rs os p mtv :
  In (p, mtv) m -> classify foreign m p = IsObject ->
  In (p ++ s2l "content.xml") (names (fst (save_m (load_m foreign m member mime rs os)))) /\
  In (p ++ s2l "styles.xml") (names (fst (save_m (load_m foreign m member mime rs os)))) /\
  In (p, mtv) (snd (save_m (load_m foreign m member mime rs os))).
Proof.
  intros Hin Hc. destruct (loaded_object_keeps_its_folder foreign m member mime rs os p mtv Hin Hc) as (d & Hd & Hf & Hm).
  destruct (object_where_its_reference_says (load_m foreign m member mime rs os) d (emb_kid _ _ Hd)) as (A & B & C).
  rewrite Hf, Hm in *. repeat split; [| |exact C].
  - apply (in_map e_name) in A. exact A.
  - apply (in_map e_name) in B. exact B.
Qed.

(* every other member listed in the manifest travels byte-identically under its path and media type
   (document signatures excepted) *)
Theorem extra_survives_load_save foreign m member mime rs os p mtv :
  In (p, mtv) m -> classify foreign m p = IsExtra -> ends_slash p = false -> str_eqb p sSIG = false ->
  In (mkE p false [] (DBytes (member p))) (fst (save_m (load_m foreign m member mime rs os))) /\
  In (p, mtv) (snd (save_m (load_m foreign m member mime rs os))).
Proof.
  intros Hin Hc Hs Hsig.
  assert (Hx : In (p, mtv, Some (member p)) (t_extras (load_m foreign m member mime rs os))).
  { unfold load_m. cbn [t_extras]. apply in_flat_map. exists (p, mtv). split; [exact Hin|]. cbn [fst snd]. rewrite Hc, Hs. now left. }
  unfold save_m. destruct (save_xml true [] (t_root _)) as [ex mx]. destruct (save_pics [] (t_root _)) as [ep mp]. cbn [fst snd].
  set (xs := filter (fun x => negb (str_eqb (fst (fst x)) sSIG)) (t_extras (load_m foreign m member mime rs os))).
  assert (Hxs : In (p, mtv, Some (member p)) xs) by (apply filter_In; split; [exact Hx|cbn [fst]; rewrite Hsig; reflexivity]).
  split.
  - right. rewrite !in_app_iff. right. right. right. left.
    apply in_flat_map. exists (p, mtv, Some (member p)). split; [exact Hxs|now left].
  - rewrite !in_app_iff. right. right. right.
    apply (in_map (fun x => (fst (fst x), snd (fst x)))) in Hxs. exact Hxs.
Qed.

(* embedded objects that are not OpenDocument documents (foreign: the content.xml of the folder has a root element of another
   vocabulary - a formula written as plain MathML): the folder is not loaded as a sub-document and none of its files as a part
   of one, so they are among the members carried over as they are (extra_survives_load_save) *)
Lemma classify_object_not_foreign foreign m p : classify foreign m p = IsObject -> foreign p = false.
Proof.
  unfold classify. repeat match goal with |- (if ?b then _ else _) = _ -> _ => destruct b eqn:?; try discriminate end.
  intros _. unfold is_object_folder in *. repeat match goal with H : _ && _ = true |- _ => apply andb_true_iff in H as [? ?] end.
  now apply negb_true_iff.
Qed.
Lemma classify_part_not_foreign foreign m p : classify foreign m p = IsObjectPart -> foreign (fst (split_last_slash p [] [])) = false.
Proof.
  unfold classify. repeat match goal with |- (if ?b then _ else _) = _ -> _ => destruct b eqn:?; try discriminate end.
  intros _. unfold is_object_part in *. destruct (split_last_slash p [] []) as [dir base]. cbn [fst].
  repeat match goal with H : _ && _ = true |- _ => apply andb_true_iff in H as [? ?] end. now apply negb_true_iff.
Qed.
Lemma object_path_dispositions foreign m p : starts_with sOBJ p = true ->
  classify foreign m p = IsObject \/ classify foreign m p = IsObjectPart \/ classify foreign m p = IsExtra.
Proof.
  intros H. unfold starts_with in H. destruct p as [|c p]; [discriminate|].
  assert (Hs : sOBJ = 79 :: s2l "bject ") by reflexivity. rewrite Hs in H. cbn [strip_prefix] in H.
  destruct (79 =? c) eqn:E; [|discriminate]. apply N.eqb_eq in E. subst c.
  match goal with |- classify _ _ ?q = _ \/ _ =>
    assert (Hc : classify foreign m q = if is_object_folder foreign m q then IsObject
                                        else if is_object_part foreign m q then IsObjectPart else IsExtra) by reflexivity;
    rewrite Hc; destruct (is_object_folder foreign m q); [now left|]; destruct (is_object_part foreign m q) end; [right; now left|right; now right].
Qed.
Theorem foreign_member_is_extra foreign m p : starts_with sOBJ p = true ->
  foreign (fst (split_last_slash p [] [])) = true -> (ends_slash p = true -> foreign p = true) -> classify foreign m p = IsExtra.
Proof.
  intros Hs Hd Hf. destruct (object_path_dispositions foreign m p Hs) as [H|[H|H]]; [| |exact H].
  - pose proof (classify_object_not_foreign _ _ _ H) as Hn. exfalso.
    unfold classify in H. repeat match type of H with (if ?b then _ else _) = _ => destruct b eqn:?; try discriminate end.
    unfold is_object_folder in *. repeat match goal with H : _ && _ = true |- _ => apply andb_true_iff in H as [? ?] end.
    rewrite Hf in Hn by assumption. discriminate.
  - apply classify_part_not_foreign in H. rewrite Hd in H. discriminate.
Qed.

(* a formula object as office suites write it *)
Example foreign_formula_object :
  let m := [(s2l "/", s2l "application/vnd.oasis.opendocument.text"); (s2l "content.xml", sTEXTXML);
            (s2l "Object 1/content.xml", sTEXTXML); (s2l "Object 1/settings.xml", sTEXTXML); (s2l "Object 1/", s2l "application/vnd.oasis.opendocument.formula");
            (s2l "Object 2/content.xml", sTEXTXML); (s2l "Object 2/", s2l "application/vnd.oasis.opendocument.chart")] in
  let foreign := fun p => str_eqb p (s2l "Object 1/") in
  map (fun e => classify foreign m (fst e)) m = [IsRootEntry; IsRootPart; IsExtra; IsExtra; IsExtra; IsObjectPart; IsObject] /\
  fst (split_last_slash (s2l "Object 1/content.xml") [] []) = s2l "Object 1/".
Proof. vm_compute. split; reflexivity. Qed.
