(* DocProofs.v — the part renderers are the serialisation of a wrapper tree (so C01/C02 apply to them),
   rendering normalises the generator and changes nothing else, and is repeatable (C12). *)
From Coq Require Import Lia.
From Odf Require Import model.Base model.Chars model.XmlPrint model.XmlLex model.XmlTree model.Doc.

Section Parts.
Variable filtered : list (N * N).
Variable refattrs : list qname.
Variable prologue : str.
Variable tools : str.
Variable env : nsenv.

Notation toXml := (node_toXml filtered env).

Lemma wrapper_eq l0 q a kids : kids <> [] ->
  write_open_tag filtered env l0 q a ++ flat_map (toXml false) kids ++ write_close_tag env q = toXml l0 (Elem q a kids).
Proof.
  intros H. destruct kids as [|k ks]; [contradiction|]. unfold write_open_tag, write_close_tag.
  cbn [node_toXml]. rewrite <- !app_assoc. reflexivity.
Qed.

Definition opt_kid (t : node) : list node := if has_kids t then [t] else [].
Lemma opt_section_eq t : opt_section filtered env t = flat_map (toXml false) (opt_kid t).
Proof. unfold opt_section, opt_kid. destruct (has_kids t); cbn; [now rewrite app_nil_r|reflexivity]. Qed.

(* the trees the four parts serialise *)
Definition content_tree (d : odfdoc) : node :=
  Elem (q_office "document-content") version_att
    (opt_kid (d_scripts d) ++ opt_kid (d_ffd d) ++
     [Elem q_autostyles [] (used_auto_styles refattrs [d_styles d; d_body d] (d_auto d)); d_body d]).

(* stylesxml always writes <office:automatic-styles> ... </office:automatic-styles>, also around nothing:
   that is an element with one empty text child *)
Definition auto_kids (used : list node) : list node := match used with [] => [TextN []] | _ => used end.
Definition styles_tree (d : odfdoc) : node :=
  Elem (q_office "document-styles") version_att
    (opt_kid (d_ffd d) ++ [d_styles d] ++
     [Elem q_autostyles [] (auto_kids (used_auto_styles refattrs [d_master d] (d_auto d)))] ++
     opt_kid (d_master d)).

Definition meta_tree (d : odfdoc) : node := Elem (q_office "document-meta") version_att [d_meta (norm_gen tools d)].
Definition settings_tree (d : odfdoc) : node := Elem (q_office "document-settings") version_att [d_settings d].

Theorem contentxml_is_tree d : contentxml filtered refattrs prologue env d = prologue ++ toXml true (content_tree d).
Proof.
  unfold contentxml, content_tree. f_equal.
  set (used := used_auto_styles refattrs [d_styles d; d_body d] (d_auto d)).
  set (K := opt_kid (d_scripts d) ++ opt_kid (d_ffd d) ++ [Elem q_autostyles [] used; d_body d]).
  assert (HK : K <> []) by (unfold K; destruct (opt_kid (d_scripts d)); [destruct (opt_kid (d_ffd d)); discriminate|discriminate]).
  rewrite <- (wrapper_eq true (q_office "document-content") version_att K HK).
  unfold K. rewrite !opt_section_eq, !flat_map_app. cbn [flat_map]. rewrite app_nil_r. rewrite <- !app_assoc.
  f_equal. f_equal. f_equal. f_equal.
  destruct used as [|s l] eqn:E; [reflexivity|]. apply wrapper_eq. discriminate.
Qed.

Theorem stylesxml_is_tree d : stylesxml filtered refattrs prologue env d = prologue ++ toXml true (styles_tree d).
Proof.
  unfold stylesxml, styles_tree. f_equal.
  set (used := used_auto_styles refattrs [d_master d] (d_auto d)).
  set (A := Elem q_autostyles [] (auto_kids used)).
  set (K := opt_kid (d_ffd d) ++ [d_styles d] ++ [A] ++ opt_kid (d_master d)).
  assert (HK : K <> []) by (unfold K; destruct (opt_kid (d_ffd d)); discriminate).
  rewrite <- (wrapper_eq true (q_office "document-styles") version_att K HK).
  assert (E : write_open_tag filtered env false q_autostyles [] ++ flat_map (toXml false) used ++ write_close_tag env q_autostyles = toXml false A).
  { unfold A, auto_kids. destruct used as [|s l] eqn:E.
    - unfold write_open_tag, write_close_tag. cbn [node_toXml flat_map textnode_toXml app]. rewrite <- !app_assoc. reflexivity.
    - apply wrapper_eq. discriminate. }
  unfold K. rewrite !opt_section_eq, !flat_map_app. cbn [flat_map]. rewrite !app_nil_r. rewrite <- E. rewrite <- !app_assoc.
  reflexivity.
Qed.

Theorem metaxml_is_tree d : snd (metaxml filtered prologue tools env d) = prologue ++ toXml true (meta_tree d).
Proof.
  unfold metaxml, meta_tree. cbn [snd]. f_equal. rewrite <- wrapper_eq by discriminate. cbn [flat_map]. now rewrite app_nil_r.
Qed.

Theorem settingsxml_is_tree d : settingsxml filtered prologue env d = prologue ++ toXml true (settings_tree d).
Proof.
  unfold settingsxml, settings_tree. f_equal. rewrite <- wrapper_eq by discriminate. cbn [flat_map]. now rewrite app_nil_r.
Qed.

(* ---------------- C12 ---------------- *)
Lemma filter_generator_app k g : is_generator g = true ->
  filter (fun c => negb (is_generator c)) (filter (fun c => negb (is_generator c)) k ++ [g]) = filter (fun c => negb (is_generator c)) k.
Proof.
  intros Hg. rewrite filter_app. cbn [filter]. rewrite Hg. cbn [negb]. rewrite app_nil_r.
  induction k as [|x k IH]; [reflexivity|]. cbn [filter]. destruct (negb (is_generator x)) eqn:E; [|exact IH].
  cbn [filter]. rewrite E. now rewrite IH.
Qed.

Theorem replace_generator_idem meta : replace_generator tools (replace_generator tools meta) = replace_generator tools meta.
Proof.
  destruct meta as [q a k|s|s]; try reflexivity. cbn [replace_generator]. f_equal. f_equal.
  apply filter_generator_app. reflexivity.
Qed.

Theorem norm_gen_idem d : norm_gen tools (norm_gen tools d) = norm_gen tools d.
Proof. unfold norm_gen. cbn. now rewrite replace_generator_idem. Qed.

(* exactly one generator afterwards, the library's; every other child of office:meta kept in order *)
Theorem replace_generator_spec q a k :
  replace_generator tools (Elem q a k) = Elem q a (filter (fun c => negb (is_generator c)) k ++ [Elem q_generator [] [TextN tools]]) /\
  List.length (filter is_generator (kids_of (replace_generator tools (Elem q a k)))) = 1%nat.
Proof.
  split; [reflexivity|]. cbn [replace_generator kids_of]. rewrite filter_app. cbn [filter].
  assert (E : filter is_generator (filter (fun c => negb (is_generator c)) k) = []).
  { induction k as [|x k IH]; [reflexivity|]. cbn [filter]. destruct (is_generator x) eqn:Ex; cbn [negb]; [exact IH|]. cbn [filter]. now rewrite Ex. }
  rewrite E. reflexivity.
Qed.

Notation render := (render filtered refattrs prologue tools env).

(* rendering changes nothing but the generator *)
Theorem render_frame r d : fst (render r d) = d \/ fst (render r d) = norm_gen tools d.
Proof. destruct r; cbn; auto. Qed.

Theorem render_frame_exact r d :
  fst (render r d) = match r with RContent | RStyles | RSettings => d | _ => norm_gen tools d end.
Proof. destruct r; reflexivity. Qed.

(* the parts that do not show office:meta do not depend on it *)
Lemma content_norm d : contentxml filtered refattrs prologue env (norm_gen tools d) = contentxml filtered refattrs prologue env d.
Proof. reflexivity. Qed.
Lemma styles_norm d : stylesxml filtered refattrs prologue env (norm_gen tools d) = stylesxml filtered refattrs prologue env d.
Proof. reflexivity. Qed.
Lemma settings_norm d : settingsxml filtered prologue env (norm_gen tools d) = settingsxml filtered prologue env d.
Proof. reflexivity. Qed.

Lemma render_norm r d : snd (render r (norm_gen tools d)) = snd (render r d).
Proof.
  destruct r; cbn [Doc.render snd metaxml flatxml]; rewrite ?norm_gen_idem; reflexivity.
Qed.

Fixpoint render_all (rs : list rkind) (d : odfdoc) : odfdoc :=
  match rs with [] => d | r :: rest => render_all rest (fst (render r d)) end.

Lemma render_all_state rs d : render_all rs d = d \/ render_all rs d = norm_gen tools d.
Proof.
  revert d. induction rs as [|r rs IH]; intros d; [now left|]. cbn [render_all].
  destruct (render_frame r d) as [-> | ->]; [apply IH|].
  destruct (IH (norm_gen tools d)) as [-> | ->]; [now right|right; apply norm_gen_idem].
Qed.

(* repeatable: after ANY sequence of rendering calls, each renderer returns what it returns on the fresh document *)
Theorem render_repeatable rs r d : snd (render r (render_all rs d)) = snd (render r d).
Proof. destruct (render_all_state rs d) as [-> | ->]; [reflexivity|apply render_norm]. Qed.

(* and the document after any sequence is the original one up to generator normalisation *)
Theorem render_all_frame rs d : norm_gen tools (render_all rs d) = norm_gen tools d.
Proof. destruct (render_all_state rs d) as [-> | ->]; [reflexivity|apply norm_gen_idem]. Qed.
End Parts.
