(* AutoStylesProofs.v — C10: the automatic styles written to a part are exactly closed under references. *)
From Coq Require Import Lia.
From Odf Require Import model.Base model.Chars model.XmlPrint model.XmlLex model.XmlTree model.Doc
  proofs.XmlTokProofs proofs.XmlBuildProofs proofs.XmlResolveProofs.

Section AS.
Variable refattrs : list qname.
Notation scan_one := (scan_one refattrs).
Notation parse_node := (parse_node refattrs).
Notation parse_kids := (parse_kids refattrs).
Notation parse_one := (parse_one refattrs).
Notation round := (round refattrs).
Notation rounds := (rounds refattrs).

(* ---- names only grow ---- *)
Lemma mem_add_mono x names n : mem_str x names = true -> mem_str x (add_name names n) = true.
Proof.
  unfold add_name. destruct (mem_str n names); [auto|]. intros H. unfold mem_str in *. rewrite existsb_app, H. reflexivity.
Qed.
Lemma mem_add_self names n : mem_str n (add_name names n) = true.
Proof.
  unfold add_name. destruct (mem_str n names) eqn:E; [exact E|]. unfold mem_str. rewrite existsb_app. cbn. now rewrite str_eqb_refl, orb_true_r.
Qed.
Lemma fold_add_mono x l : forall names, mem_str x names = true -> mem_str x (fold_left add_name l names) = true.
Proof. induction l as [|n l IH]; intros names H; [exact H|]. cbn. apply IH. now apply mem_add_mono. Qed.
Lemma fold_add_adds x l : In x l -> forall names, mem_str x (fold_left add_name l names) = true.
Proof.
  induction l as [|n l IH]; intros Hin names; [contradiction|]. cbn. destruct Hin as [->|Hin].
  - apply fold_add_mono. apply mem_add_self.
  - now apply IH.
Qed.

Lemma scan_one_mono x atts : forall names, mem_str x names = true -> mem_str x (scan_one atts names) = true.
Proof.
  unfold Doc.scan_one. induction atts as [|a atts IH]; intros names H; [exact H|]. cbn [fold_left]. apply IH.
  destruct (existsb (qname_eqb (fst a)) refattrs && negb (str_eqb (snd a) [])); [now apply fold_add_mono|exact H].
Qed.

(* an attribute list refers to a name *)
Definition has_ref (atts : list (qname * str)) (tok : str) : Prop :=
  exists a v, In (a, v) atts /\ existsb (qname_eqb a) refattrs = true /\ In tok (py_split v []).

Lemma py_split_nonempty v tok : In tok (py_split v []) -> v <> [].
Proof. destruct v; [intros []|discriminate]. Qed.

Lemma scan_one_adds atts tok : has_ref atts tok -> forall names, mem_str tok (scan_one atts names) = true.
Proof.
  intros (a & v & Hin & Hr & Ht). unfold Doc.scan_one. induction atts as [|x atts IH]; intros names; [contradiction|].
  cbn [fold_left]. destruct Hin as [->|Hin].
  - cbn [fst snd]. rewrite Hr. assert (Hv : str_eqb v [] = false) by (apply str_eqb_neq; now apply (py_split_nonempty v tok)).
    rewrite Hv. cbn [negb andb]. fold (scan_one atts (fold_left add_name (py_split v []) names)).
    apply scan_one_mono. now apply fold_add_adds.
  - now apply IH.
Qed.

Lemma parse_node_elem q a k names :
  parse_node (Elem q a k) names = fold_left (fun acc x => parse_node x acc) k (scan_one a names).
Proof.
  cbn [Doc.parse_node]. generalize (scan_one a names) as acc. induction k as [|x k IH]; intros acc; [reflexivity|]. cbn [fold_left]. apply IH.
Qed.

Lemma parse_node_mono x t : forall names, mem_str x names = true -> mem_str x (parse_node t names) = true.
Proof.
  induction t as [s|s|q a k IH] using node_ind2; intros names H; try exact H.
  rewrite parse_node_elem. assert (H0 : mem_str x (scan_one a names) = true) by now apply scan_one_mono.
  revert H0. generalize (scan_one a names) as acc. induction IH as [|c k Hc Hk IHk]; intros acc H0; [exact H0|].
  cbn [fold_left]. apply IHk. now apply Hc.
Qed.

Lemma parse_kids_mono x ks : forall names, mem_str x names = true -> mem_str x (parse_kids ks names) = true.
Proof.
  unfold Doc.parse_kids. induction ks as [|c ks IH]; intros names H; [exact H|]. cbn [fold_left]. apply IH. now apply parse_node_mono.
Qed.

(* a name referred to somewhere in a subtree (the root element included) *)
Inductive refs_in : node -> str -> Prop :=
  | ref_here q a k tok : has_ref a tok -> refs_in (Elem q a k) tok
  | ref_deep q a k c tok : In c k -> refs_in c tok -> refs_in (Elem q a k) tok.

Lemma parse_node_adds t tok : refs_in t tok -> forall names, mem_str tok (parse_node t names) = true.
Proof.
  induction 1 as [q a k tok Hr|q a k c tok Hin Hc IH]; intros names; rewrite parse_node_elem.
  - assert (H0 : mem_str tok (scan_one a names) = true) by now apply scan_one_adds.
    revert H0. generalize (scan_one a names) as acc. induction k as [|x k IHk]; intros acc H0; [exact H0|].
    cbn [fold_left]. apply IHk. now apply parse_node_mono.
  - generalize (scan_one a names) as acc. induction k as [|x k IHk]; intros acc; [contradiction|].
    cbn [fold_left]. destruct Hin as [->|Hin].
    + fold (parse_kids k (parse_node c acc)). apply parse_kids_mono. apply IH.
    + now apply IHk.
Qed.

Lemma parse_kids_adds ks c tok : In c ks -> refs_in c tok -> forall names, mem_str tok (parse_kids ks names) = true.
Proof.
  unfold Doc.parse_kids. induction ks as [|x ks IH]; intros Hin Hr names; [contradiction|]. cbn [fold_left]. destruct Hin as [->|Hin].
  - fold (parse_kids ks (parse_node c names)). apply parse_kids_mono. now apply parse_node_adds.
  - now apply IH.
Qed.

(* ---- one round ---- *)
Fixpoint count_false (l : list bool) : nat := match l with [] => 0 | b :: r => (if b then 0 else 1) + count_false r end.

Lemma round_spec autos : forall sel names, List.length sel = List.length autos ->
  let '(sel', names', found) := round autos sel names in
  List.length sel' = List.length sel /\
  (forall x, mem_str x names = true -> mem_str x names' = true) /\
  (forall i, nth i sel false = true -> nth i sel' false = true) /\
  (found = false -> sel' = sel /\ names' = names) /\
  (found = true -> (count_false sel' < count_false sel)%nat) /\
  (* whatever got selected in this round has had its references added *)
  (forall i e, nth_error autos i = Some e -> nth i sel false = false -> nth i sel' false = true ->
      is_element e = true /\ named_in names' e = true /\ forall tok, refs_in e tok -> mem_str tok names' = true) /\
  (* stability: if nothing was found, no unselected named element is left *)
  (found = false -> forall i e, nth_error autos i = Some e -> is_element e = true -> named_in names e = true -> nth i sel false = true).
Proof.
  induction autos as [|e r IH]; intros sel names Hl.
  - destruct sel; [|discriminate]. cbn. repeat split; auto; try discriminate; intros; match goal with H : nth_error [] ?j = Some _ |- _ => destruct j; discriminate end.
  - destruct sel as [|s sr]; [discriminate|]. cbn [Doc.round]. injection Hl as Hl.
    destruct (is_element e && negb s && named_in names e) eqn:Ec.
    + apply andb_true_iff in Ec as [Ec Hn]. apply andb_true_iff in Ec as [He Hs]. apply negb_true_iff in Hs. subst s.
      set (names1 := parse_one e (scan_one (atts_of e) names)).
      assert (Hmono1 : forall x, mem_str x names = true -> mem_str x names1 = true).
      { intros x Hx. unfold names1, Doc.parse_one. apply parse_kids_mono. now apply scan_one_mono. }
      specialize (IH sr names1 Hl). destruct (round r sr names1) as [[sr' n2] f]. destruct IH as (L & M & Sm & _ & _ & N & _).
      split; [|split; [|split; [|split; [|split; [|split]]]]].
      * cbn. now rewrite L.
      * intros x Hx. apply M. now apply Hmono1.
      * intros [|i] Hi; [reflexivity|]. cbn in *. now apply Sm.
      * discriminate.
      * intros _. cbn [count_false]. clear -L Sm Hl.
        assert (G : forall a b, List.length a = List.length b -> (forall i, nth i b false = true -> nth i a false = true) -> (count_false a <= count_false b)%nat).
        { induction a as [|x a IHa]; intros [|y b] Hab Hs; try discriminate; [cbn; lia|]. cbn [count_false].
          assert (Hr : (count_false a <= count_false b)%nat) by (apply IHa; [now injection Hab|intros i Hi; apply (Hs (S i)); exact Hi]).
          specialize (Hs 0%nat). cbn in Hs. destruct y; [rewrite Hs by reflexivity; lia|destruct x; lia]. }
        specialize (G sr' sr L Sm). lia.
      * intros [|i] e0 Hnth Hsi Hsi'.
        -- cbn in Hnth. injection Hnth as <-. split; [exact He|]. split.
           ++ unfold named_in in *. destruct (style_name e); [|discriminate]. apply M. now apply Hmono1.
           ++ intros tok Hr. apply M. unfold names1.
              destruct e as [q a k|s|s]; try discriminate. cbn [atts_of Doc.parse_one kids_of].
              inversion Hr as [? ? ? ? Hh|? ? ? c ? Hin Hc]; subst.
              ** apply parse_kids_mono. now apply scan_one_adds.
              ** now apply (parse_kids_adds k c tok Hin Hc).
        -- cbn in Hnth, Hsi, Hsi'. now apply (N i e0).
      * discriminate.
    + specialize (IH sr names Hl). destruct (round r sr names) as [[sr' n2] f]. destruct IH as (L & M & Sm & U & C & N & T).
      split; [|split; [|split; [|split; [|split; [|split]]]]].
      * cbn. now rewrite L.
      * exact M.
      * intros [|i] Hi; [exact Hi|]. cbn in *. now apply Sm.
      * intros Hf. destruct (U Hf) as [-> ->]. split; reflexivity.
      * intros Hf. cbn [count_false]. specialize (C Hf). lia.
      * intros [|i] e0 Hnth Hsi Hsi'; [cbn in Hsi, Hsi'; congruence|]. cbn in Hnth, Hsi, Hsi'. now apply (N i e0).
      * intros Hf [|i] e0 Hnth He0 Hn0.
        -- cbn in Hnth. injection Hnth as <-. cbn. rewrite He0, Hn0 in Ec. destruct s; [reflexivity|discriminate].
        -- cbn in Hnth |- *. destruct (U Hf) as [-> ->]. now apply (T Hf i e0).
Qed.

Lemma named_in_mono names names' e : (forall x, mem_str x names = true -> mem_str x names' = true) ->
  named_in names e = true -> named_in names' e = true.
Proof. unfold named_in. destruct (style_name e); [auto|discriminate]. Qed.

Lemma count_false_all_false {A} (l : list A) : count_false (map (fun _ => false) l) = List.length l.
Proof. induction l; cbn; [reflexivity|now rewrite IHl]. Qed.

(* the while loop: with more fuel than unselected elements it ends in a stable state *)
Lemma rounds_spec autos : forall fuel sel names, List.length sel = List.length autos -> (count_false sel < fuel)%nat ->
  let '(sel', names') := rounds fuel autos sel names in
  List.length sel' = List.length sel /\
  (forall x, mem_str x names = true -> mem_str x names' = true) /\
  (forall i, nth i sel false = true -> nth i sel' false = true) /\
  (forall i e, nth_error autos i = Some e -> is_element e = true -> named_in names' e = true -> nth i sel' false = true) /\
  (forall i e, nth_error autos i = Some e -> nth i sel' false = true -> nth i sel false = true \/
      (is_element e = true /\ named_in names' e = true /\ forall tok, refs_in e tok -> mem_str tok names' = true)).
Proof.
  induction fuel as [|f IH]; intros sel names Hl Hc; [lia|].
  cbn [Doc.rounds]. pose proof (round_spec autos sel names Hl) as R.
  destruct (round autos sel names) as [[sel1 names1] found]. destruct R as (L & M & Sm & U & C & N & T).
  destruct found.
  - specialize (C eq_refl). assert (Hl1 : List.length sel1 = List.length autos) by congruence.
    specialize (IH sel1 names1 Hl1 ltac:(lia)). destruct (rounds f autos sel1 names1) as [sel2 names2].
    destruct IH as (L2 & M2 & S2 & T2 & N2).
    split; [congruence|]. split; [auto|]. split; [auto|]. split; [exact T2|].
    intros i e Hnth H2. destruct (N2 i e Hnth H2) as [H1|H1]; [|now right].
    destruct (nth i sel false) eqn:E; [now left|]. right.
    destruct (N i e Hnth E H1) as (A & B & D). split; [exact A|]. split; [now apply (named_in_mono names1 names2)|].
    intros tok Hr. apply M2. now apply D.
  - destruct (U eq_refl) as [-> ->].
    split; [reflexivity|]. split; [auto|]. split; [auto|]. split; [intros i e; apply (T eq_refl)|]. intros i e _ H. now left.
Qed.

Lemma pick_in {A} (l : list A) : forall sel i e, List.length sel = List.length l -> nth_error l i = Some e -> nth i sel false = true -> In e (pick l sel).
Proof.
  induction l as [|x l IH]; intros sel i e Hl Hn Hs; [destruct i; discriminate|].
  destruct sel as [|b sr]; [discriminate|]. injection Hl as Hl. destruct i as [|i].
  - cbn in Hn, Hs. injection Hn as ->. subst b. now left.
  - cbn in Hn, Hs. destruct b; cbn [pick]; [right|]; now apply (IH sr i e).
Qed.

Lemma pick_sub {A} (l : list A) : forall sel e, In e (pick l sel) -> In e l.
Proof.
  induction l as [|x l IH]; intros sel e H; [destruct sel; contradiction|].
  destruct sel as [|[|] sr]; cbn [pick] in H; try contradiction.
  - destruct H as [->|H]; [now left|right; now apply (IH sr)].
  - right. now apply (IH sr).
Qed.

Lemma pick_nodup {A} (l : list A) : NoDup l -> forall sel, NoDup (pick l sel).
Proof.
  induction 1 as [|x l Hn Hd IH]; intros sel; [destruct sel; constructor|].
  destruct sel as [|[|] sr]; cbn [pick]; [constructor| |apply IH].
  constructor; [|apply IH]. intros Hin. apply Hn. now apply (pick_sub l sr).
Qed.

Lemma pick_selected {A} (l : list A) : forall sel e, In e (pick l sel) -> exists i, nth_error l i = Some e /\ nth i sel false = true.
Proof.
  induction l as [|x l IH]; intros sel e H; [destruct sel; contradiction|].
  destruct sel as [|[|] sr]; cbn [pick] in H; try contradiction.
  - destruct H as [->|H]; [exists 0%nat; split; reflexivity|]. destruct (IH sr e H) as [i [H1 H2]]. exists (S i). split; assumption.
  - destruct (IH sr e H) as [i [H1 H2]]. exists (S i). split; assumption.
Qed.

(* names collected from the segments *)
Lemma names0_adds segs seg c tok : In seg segs -> In c (kids_of seg) -> refs_in c tok ->
  forall acc, mem_str tok (fold_left (fun acc seg => parse_one seg acc) segs acc) = true.
Proof.
  induction segs as [|s segs IH]; intros Hs Hc Hr acc; [contradiction|]. cbn [fold_left]. destruct Hs as [->|Hs].
  - assert (H0 : mem_str tok (parse_one seg acc) = true) by (unfold Doc.parse_one; now apply (parse_kids_adds (kids_of seg) c tok)).
    revert H0. generalize (parse_one seg acc) as a. clear. induction segs as [|s segs IH]; intros a H; [exact H|].
    cbn [fold_left]. apply IH. unfold Doc.parse_one. now apply parse_kids_mono.
  - now apply IH.
Qed.

(* ---------------- the theorems ---------------- *)
Notation used := (used_auto_styles refattrs).

Lemma used_unfold segs auto :
  exists sel names, rounds (S (List.length (kids_of auto))) (kids_of auto) (map (fun _ => false) (kids_of auto))
                      (fold_left (fun acc seg => parse_one seg acc) segs []) = (sel, names) /\
                    used segs auto = pick (kids_of auto) sel.
Proof.
  unfold used_auto_styles. destruct (rounds _ _ _ _) as [sel names]. exists sel, names. split; reflexivity.
Qed.

Lemma used_state segs auto : exists sel names,
  used segs auto = pick (kids_of auto) sel /\ List.length sel = List.length (kids_of auto) /\
  (forall x, mem_str x (fold_left (fun acc seg => parse_one seg acc) segs []) = true -> mem_str x names = true) /\
  (forall i e, nth_error (kids_of auto) i = Some e -> is_element e = true -> named_in names e = true -> nth i sel false = true) /\
  (forall i e, nth_error (kids_of auto) i = Some e -> nth i sel false = true ->
      is_element e = true /\ named_in names e = true /\ forall tok, refs_in e tok -> mem_str tok names = true).
Proof.
  destruct (used_unfold segs auto) as (sel & names & E & Hu). exists sel, names.
  pose proof (rounds_spec (kids_of auto) (S (List.length (kids_of auto))) (map (fun _ => false) (kids_of auto))
                (fold_left (fun acc seg => parse_one seg acc) segs [])) as R.
  rewrite E in R. specialize (R (map_length _ _)). rewrite count_false_all_false in R. specialize (R ltac:(lia)).
  destruct R as (L & M & _ & T & N). rewrite map_length in L.
  split; [exact Hu|]. split; [exact L|]. split; [exact M|]. split; [exact T|].
  intros i e Hn Hs. destruct (N i e Hn Hs) as [H|H]; [|exact H].
  exfalso. clear -H. revert i H. induction (kids_of auto) as [|x l IH]; intros [|i] H; cbn in H; try discriminate. now apply (IH i).
Qed.

(* a style referenced from a segment (from any element below the segment's root) is written *)
Theorem referenced_style_is_written segs auto seg c e n :
  In seg segs -> In c (kids_of seg) -> refs_in c n ->
  In e (kids_of auto) -> is_element e = true -> style_name e = Some n -> In e (used segs auto).
Proof.
  intros Hs Hc Hr He Hel Hn. destruct (used_state segs auto) as (sel & names & -> & L & M & T & N).
  apply In_nth_error in He as [i Hi]. apply (pick_in _ sel i e L Hi). apply (T i e Hi Hel).
  unfold named_in. rewrite Hn. apply M. now apply (names0_adds segs seg c n).
Qed.

(* ... and so is every style referenced from a style that is written (transitively, by iteration) *)
Theorem style_referenced_by_written_style_is_written segs auto s e n :
  In s (used segs auto) -> refs_in s n ->
  In e (kids_of auto) -> is_element e = true -> style_name e = Some n -> In e (used segs auto).
Proof.
  intros Hs Hr He Hel Hn. destruct (used_state segs auto) as (sel & names & Eu & L & M & T & N). rewrite Eu in *.
  apply pick_selected in Hs as (j & Hj & Hsj). destruct (N j s Hj Hsj) as (_ & _ & Hrefs).
  apply In_nth_error in He as [i Hi]. apply (pick_in _ sel i e L Hi). apply (T i e Hi Hel).
  unfold named_in. rewrite Hn. now apply Hrefs.
Qed.

(* what is written are automatic styles of the document, unchanged, each at most once *)
Theorem written_styles_are_the_documents segs auto e : In e (used segs auto) -> In e (kids_of auto).
Proof. destruct (used_state segs auto) as (sel & names & -> & _). apply pick_sub. Qed.

Theorem written_styles_once segs auto : NoDup (kids_of auto) -> NoDup (used segs auto).
Proof. intros H. destruct (used_state segs auto) as (sel & names & -> & _). now apply pick_nodup. Qed.
End AS.
