(* the regenerated VALUE_TYPES table is the one the model's value_attr implements *)
From Odf Require Import model.Base model.XmlTree model.UserField gen.GenUserField.

Definition attr_index (local : str) : option nat :=
  if str_eqb local (s2l "value") then Some A_VALUE else if str_eqb local (s2l "date-value") then Some A_DATE
  else if str_eqb local (s2l "time-value") then Some A_TIME else if str_eqb local (s2l "boolean-value") then Some A_BOOL
  else if str_eqb local (s2l "string-value") then Some A_STRING else None.

Lemma value_types_tie :
  forallb (fun e => match attr_index (snd e) with Some k => Nat.eqb (value_attr (fst e)) k | None => false end) value_types = true
  /\ map fst value_types = [s2l "boolean"; s2l "currency"; s2l "date"; s2l "float"; s2l "percentage"; s2l "string"; s2l "time"].
Proof. vm_compute. split; reflexivity. Qed.
