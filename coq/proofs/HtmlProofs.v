(* HtmlProofs.v — C18: what the XHTML writer layer emits for document strings is read back by a conforming parser as
   exactly those strings: character data stays character data, an attribute value stays one attribute value. *)
From Odf Require Import model.Base model.Chars model.XmlPrint model.XmlLex model.Html proofs.XmlPrintProofs proofs.XmlLexProofs proofs.XmlRoundTrip.

Lemma hu_nil s : handle_unrepresentable [] s = s.
Proof. unfold handle_unrepresentable, filter_char. cbn. apply map_id. Qed.

Lemma replace1_absent c r s : mem_cp c s = false -> replace1 c r s = s.
Proof.
  unfold replace1. induction s as [|x s IH]; [reflexivity|]. cbn [mem_cp flat_map]. intros H.
  apply orb_false_elim in H as [H1 H2]. rewrite H1. cbn [app]. f_equal. now apply IH.
Qed.

(* without a carriage return (a parser never delivers one) saxutils.escape is the text printer without filter *)
Lemma h_escape_text s : nocr s -> h_escape s = text_toXml [] s.
Proof.
  intros H. unfold h_escape, text_toXml, sanitize, escape, text_ents. cbn [fold_left fst snd]. rewrite hu_nil.
  symmetry. apply replace1_absent. apply nocr_replace_other; [reflexivity|]. apply nocr_replace_other; [reflexivity|].
  apply nocr_replace_other; [reflexivity|exact H].
Qed.

(* character data written by writedata() is read back as that character data, whatever markup characters it holds;
   the lexer stays in text mode, so no tag can start inside it *)
Theorem text_stays_text s ts acc k : Forall (fun c => xml10_char c = true) s -> nocr s ->
  exists k', run (h_writedata s) (mkL ts (MText acc k)) = mkL ts (MText (acc ++ s) k').
Proof.
  intros Hs Hn. unfold h_writedata. rewrite (h_escape_text s Hn), text_toXml_pointwise, hu_nil. now apply lex_text_body.
Qed.

(* an attribute value written through quoteattr is read back as one attribute with that value; the lexer ends in the
   state after an attribute, so no further attribute or tag can come out of it *)
Theorem attribute_stays_attribute s n atts an ts : Forall (fun c => xml10_char c = true) s ->
  run (h_quoteattr s) (mkL ts (MAttEq n atts an)) = mkL ts (MAttrs n (atts ++ [(an, s)]) false).
Proof.
  intros Hd. unfold h_quoteattr, quoteattr. rewrite sanitize_attr_pointwise, hu_nil.
  rewrite !mem_quote_flat_map by (first [now left | now right]).
  assert (Qq : is_quote cQUOT) by now left. assert (Qa : is_quote cAPOS) by now right.
  destruct (mem_cp cQUOT s) eqn:Mq; [destruct (mem_cp cAPOS s) eqn:Ma|].
  - rewrite replace1_flat_map. rewrite (flat_map_ext _ _ replace_quot_esc_attr).
    cbn [app]. rewrite run_cons, lex_open_quote, run_app by assumption.
    rewrite lex_attr_body_q by assumption.
    rewrite run_cons, run_nil, lex_close_quote by assumption. reflexivity.
  - cbn [app]. rewrite run_cons, lex_open_quote, run_app by assumption.
    rewrite (lex_attr_body cAPOS) by assumption.
    rewrite run_cons, run_nil, lex_close_quote by assumption. reflexivity.
  - cbn [app]. rewrite run_cons, lex_open_quote, run_app by assumption.
    rewrite (lex_attr_body cQUOT) by assumption.
    rewrite run_cons, run_nil, lex_close_quote by assumption. reflexivity.
Qed.

(* escaped character data contains no '<' *)
Theorem escaped_has_no_lt s : mem_cp cLT (h_escape s) = false.
Proof.
  assert (E : h_escape s = flat_map esc_plain s).
  { pose proof (sanitize_plain_pointwise [] s) as P. unfold sanitize in P. rewrite hu_nil in P. exact P. }
  rewrite E. clear E. induction s as [|c r IH]; [reflexivity|]. cbn [flat_map]. rewrite mem_cp_app_gen, IH, orb_false_r.
  unfold esc_plain. destruct (c =? cAMP); [reflexivity|]. destruct (c =? cLT) eqn:E2; [reflexivity|].
  destruct (c =? cGT); [reflexivity|]. cbn [mem_cp]. rewrite E2. reflexivity.
Qed.
