(* GrammarProofs.v — C06: with checks on, the API accepts exactly what the schema permits, apart from the recorded
   deviations.  The domain is finite: the obligations are decided by computation over the regenerated tables
   (grammar.py, the RELAX NG schema, the factories, the recorded deviations) and lifted to statements about every
   element pair, every keyword string and every set of given attributes. *)
From Coq Require Import Lia.
From Odf Require Import model.Base model.Grammar gen.GenGrammar model.GrammarInst proofs.XmlBuildProofs proofs.XmlResolveProofs.

(* ---------------- obligations on the tables ---------------- *)
Definition devs_of (dev : list (N * N)) (el : N) : list N := map snd (filter (fun x => N.eqb (fst x) el) dev).
Definition same_but (l sl dv : list N) : bool := forallb (fun a => Bool.eqb (memN a l) (xorb (memN a sl) (memN a dv))) (l ++ sl ++ dv).

Lemma O_child : forallb (fun p => negb (known p) ||
  (let gl := child_list G p in let row := lookup p S in
   forallb (fun c => Bool.eqb (accepted (add_element_in gl c true)) (xorb (s_child_row row c) (mem2 (p, c) dev_child))) selems)) selems = true.
Proof. vm_compute. reflexivity. Qed.
Lemma O_text : forallb (fun p => negb (known p) || Bool.eqb (accepted (add_text G p true)) (xorb (s_text S p) (memN p dev_text))) selems = true.
Proof. vm_compute. reflexivity. Qed.
Lemma O_attr : forallb (fun el => negb (known el) || memN el dev_attrnone ||
  match attr_list G el, lookup el S with
  | Some l, Some (_, _, ats, _) => negb (fst ats) && same_but l (snd ats) (devs_of dev_attr el)
  | _, _ => false end) selems = true.
Proof. vm_compute. reflexivity. Qed.
Lemma O_attrnone : forallb (fun el => match attr_list G el with None => true | Some _ => false end) dev_attrnone = true.
Proof. vm_compute. reflexivity. Qed.
Lemma O_req : forallb (fun el => negb (known el) || same_but (g_req_of el) (s_required S el) (devs_of dev_req el)) selems = true.
Proof. vm_compute. reflexivity. Qed.
Lemma O_factory : forallb (fun e => Bool.eqb (memN e factory_elems) (negb (memN e dev_factory))) selems = true.
Proof. vm_compute. reflexivity. Qed.
Lemma O_ascii : forallb (fun r => forallb (fun c => c <? 128) (snd r)) attr_local = true.
Proof. vm_compute. reflexivity. Qed.

(* ---------------- small facts ---------------- *)
Lemma memN_In x l : memN x l = true <-> In x l.
Proof.
  unfold memN. rewrite existsb_exists. split.
  - intros [y [Hy E]]. apply N.eqb_eq in E. now subst.
  - intros H. exists x. split; [exact H|apply N.eqb_refl].
Qed.
Lemma forallb_same_members (f : N -> bool) (l1 l2 : list N) :
  (forall a, memN a l1 = memN a l2) -> forallb f l1 = forallb f l2.
Proof.
  intros H. destruct (forallb f l1) eqn:E1, (forallb f l2) eqn:E2; try reflexivity.
  - exfalso. assert (F : forallb f l2 = true); [|congruence]. apply forallb_forall. intros x Hx.
    rewrite forallb_forall in E1. apply E1. apply memN_In. rewrite H. now apply memN_In.
  - exfalso. assert (F : forallb f l1 = true); [|congruence]. apply forallb_forall. intros x Hx.
    rewrite forallb_forall in E2. apply E2. apply memN_In. rewrite <- H. now apply memN_In.
Qed.
Lemma existsb_same {A} (f : A -> bool) (l1 l2 : list A) :
  (forall a, In a l1 -> f a = true -> exists b, In b l2 /\ f b = true) ->
  (forall a, In a l2 -> f a = true -> exists b, In b l1 /\ f b = true) -> existsb f l1 = existsb f l2.
Proof.
  intros H1 H2. destruct (existsb f l1) eqn:E1, (existsb f l2) eqn:E2; try reflexivity.
  - apply existsb_exists in E1 as [a [Ha Fa]]. destruct (H1 a Ha Fa) as [b [Hb Fb]].
    assert (existsb f l2 = true) by (apply existsb_exists; eauto). congruence.
  - apply existsb_exists in E2 as [a [Ha Fa]]. destruct (H2 a Ha Fa) as [b [Hb Fb]].
    assert (existsb f l1 = true) by (apply existsb_exists; eauto). congruence.
Qed.

Lemma memN_false x l : memN x l = false <-> ~ In x l.
Proof. split; [intros H Hin; apply memN_In in Hin; congruence|intros H; destruct (memN x l) eqn:E; [apply memN_In in E; contradiction|reflexivity]]. Qed.
Lemma same_but_spec l sl dv : same_but l sl dv = true -> forall a, memN a l = xorb (memN a sl) (memN a dv).
Proof.
  intros H a. unfold same_but in H. rewrite forallb_forall in H.
  destruct (memN a (l ++ sl ++ dv)) eqn:E.
  - apply memN_In in E. apply Bool.eqb_prop. now apply H.
  - apply memN_false in E. assert (A1 : memN a l = false) by (apply memN_false; intros X; apply E; apply in_or_app; now left).
    assert (A2 : memN a sl = false) by (apply memN_false; intros X; apply E; apply in_or_app; right; apply in_or_app; now left).
    assert (A3 : memN a dv = false) by (apply memN_false; intros X; apply E; apply in_or_app; right; apply in_or_app; now right).
    now rewrite A1, A2, A3.
Qed.
Lemma devs_of_spec dev el a : memN a (devs_of dev el) = mem2 (el, a) dev.
Proof.
  unfold devs_of, mem2. cbn [fst snd]. induction dev as [|[e b] dev IH]; [reflexivity|]. cbn [filter existsb fst snd].
  destruct (N.eqb e el) eqn:E.
  - apply N.eqb_eq in E. subst e. rewrite N.eqb_refl. cbn [map snd andb]. unfold memN in *. cbn [existsb]. now rewrite IH.
  - rewrite (N.eqb_sym el e), E. cbn [andb orb]. exact IH.
Qed.

(* ---------------- the statements ---------------- *)
(* adding a child: every ordered pair of schema elements *)
Theorem child_exact p c : In p selems -> In c selems -> known p = true ->
  accepted (add_element G p c true) = xorb (s_child S p c) (mem2 (p, c) dev_child).
Proof.
  intros Hp Hc Hk. pose proof O_child as O. rewrite forallb_forall in O. specialize (O p Hp). rewrite Hk in O. cbn [negb orb] in O.
  cbv zeta in O. rewrite forallb_forall in O. specialize (O c Hc). now apply Bool.eqb_prop in O.
Qed.
(* a refusal is IllegalChild, nothing else *)
Theorem child_refusal p c : add_element G p c true = Accepted \/ add_element G p c true = IllegalChildErr.
Proof. unfold add_element, add_element_in. destruct (child_list G p) as [l|]; [destruct (memN c l)|]; auto. Qed.

Theorem text_exact p : In p selems -> known p = true -> accepted (add_text G p true) = xorb (s_text S p) (memN p dev_text).
Proof.
  intros Hp Hk. pose proof O_text as O. rewrite forallb_forall in O. specialize (O p Hp). rewrite Hk in O. now apply Bool.eqb_prop in O.
Qed.
Theorem text_refusal p : add_text G p true = Accepted \/ add_text G p true = IllegalTextErr.
Proof. unfold add_text. destruct (negb (memN p (gt_text G))); cbn; auto. Qed.

(* setting an attribute by keyword: every element, EVERY keyword string not involved in a recorded deviation of that element *)
Theorem keyword_exact el kw : In el selems -> known el = true -> memN el dev_attrnone = false ->
  (forall a, mem2 (el, a) dev_attr = true -> attr_kw attr_local a <> kw) ->
  accepted (set_attribute G el kw true) = s_attr_kw S attr_local el kw.
Proof.
  intros Hel Hk Hn Hd. pose proof O_attr as O. rewrite forallb_forall in O. specialize (O el Hel). rewrite Hk, Hn in O. cbn [negb orb] in O.
  unfold set_attribute, s_attr_kw. change (gt_local G) with attr_local.
  destruct (attr_list G el) as [l|]; [|discriminate]. destruct (lookup el S) as [[[[cs t] ats] rq]|]; [|discriminate].
  destruct ats as [anya sl]. cbn [fst snd] in *. apply andb_prop in O as [O1 O2]. apply Bool.negb_true_iff in O1. subst anya. cbn [orb].
  pose proof (same_but_spec _ _ _ O2) as M.
  assert (E : existsb (fun a => str_eqb (attr_kw attr_local a) kw) l = existsb (fun a => str_eqb (attr_kw attr_local a) kw) sl).
  { apply existsb_same; intros a Ha Fa; exists a; (split; [|exact Fa]); specialize (M a); rewrite devs_of_spec in M.
    - destruct (mem2 (el, a) dev_attr) eqn:D; [exfalso; apply (Hd a D); now apply str_eqb_eq|].
      rewrite Bool.xorb_false_r in M. apply memN_In. rewrite <- M. now apply memN_In.
    - destruct (mem2 (el, a) dev_attr) eqn:D; [exfalso; apply (Hd a D); now apply str_eqb_eq|].
      rewrite Bool.xorb_false_r in M. apply memN_In. rewrite M. now apply memN_In. }
  rewrite <- E. destruct (existsb _ l); reflexivity.
Qed.
Theorem keyword_refusal el kw : set_attribute G el kw true = Accepted \/ set_attribute G el kw true = AttributeErr.
Proof. unfold set_attribute. destruct (attr_list G el) as [l|]; [destruct (existsb _ l)|]; auto. Qed.
(* the elements whose attribute table is None take no keyword at all *)
Theorem keyword_none el kw check : In el dev_attrnone -> set_attribute G el kw check = AttributeErr.
Proof.
  intros Hel. pose proof O_attrnone as O. rewrite forallb_forall in O. specialize (O el Hel). unfold set_attribute.
  destruct (attr_list G el); [discriminate|reflexivity].
Qed.

(* construction: every element without a recorded deviation, EVERY set of given attributes *)
Theorem construct_exact el given : In el selems -> known el = true -> (forall a, mem2 (el, a) dev_req = false) ->
  accepted (construct G el given true) = s_complete S el given.
Proof.
  intros Hel Hk Hd. pose proof O_req as O. rewrite forallb_forall in O. specialize (O el Hel). rewrite Hk in O. cbn [negb orb] in O.
  pose proof (same_but_spec _ _ _ O) as M.
  assert (E : accepted (construct G el given true) = forallb (fun a => memN a given) (g_req_of el)).
  { unfold construct, g_req_of. destruct (lookup el (gt_req G)) as [r|]; [|reflexivity]. destruct (forallb _ r); reflexivity. }
  rewrite E. unfold s_complete. apply forallb_same_members. intros a. rewrite (M a), devs_of_spec, (Hd a). apply Bool.xorb_false_r.
Qed.
Theorem construct_refusal el given : construct G el given true = Accepted \/ construct G el given true = AttributeErr.
Proof. unfold construct. destruct (lookup el (gt_req G)) as [r|]; [destruct (forallb _ r)|]; auto. Qed.

(* switching the check off lets a refused child, refused text and an incomplete element through *)
Theorem unchecked p c given : add_element G p c false = Accepted /\ add_text G p false = Accepted /\ construct G p given false = Accepted.
Proof. repeat split. Qed.

(* every schema element has a factory (the recorded ones excepted) *)
Theorem factory_exact e : In e selems -> memN e factory_elems = negb (memN e dev_factory).
Proof. intros He. pose proof O_factory as O. rewrite forallb_forall in O. specialize (O e He). now apply Bool.eqb_prop in O. Qed.

(* non-vacuity: the domain is not empty and most of it is outside the deviations *)
Example domain_size : (500 <=? N.of_nat (List.length (filter known selems))) && (1000 <=? N.of_nat (List.length attr_ids)) = true.
Proof. vm_compute. reflexivity. Qed.
